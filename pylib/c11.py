"""C11 — disk contents persist across reopen; I/O failures are never silent.

Proof: Props/C11.lean (open of any prior image length, persistence across close/kill + reopen,
composition with C09's refinement). Tie: regenerated declarations (rfl) + (a) `reopen` stream on
the three file-backed variants vs model and specification, (b) strace fault injection: the k-th
pwrite64 / pread64 / fsync / ftruncate / fstat of a pinned child fails with EIO/ENOSPC, or the
child is killed at the k-th pwrite64; the parent then reopens the image and compares with the
specification.
"""
import collections
import json
import os
import re
import shutil
import subprocess

import common as C
import c09

LEVEL = "proof"
HUGE = "18446744073709551615"


def spec_run(ops):
    return C.run([C.DRIVER, "disk", "spec"], input="\n".join(ops) + "\n", env=os.environ.copy()).stdout.splitlines()


TRACE_RE = re.compile(r"^\d+\s+(pwrite64|pread64|fsync)\((\d+).*\)\s+=\s+(-?\d+)")
LAST_TRACE = []


def strace_run(ops, scratch, inject, syscall):
    """Run the pinned child under strace with one injection; the syscall log of the disk's
    descriptor (pwrite64/pread64/fsync, in order) is left in LAST_TRACE."""
    env = dict(C.GOENV)
    env["GOMAXPROCS"] = "1"
    tf = os.path.join(scratch, "trace.txt")
    cmd = ["strace", "-f", "-o", tf, "-e", "trace=pwrite64,pread64,fsync," + syscall, "-e", "inject=" + inject,
           os.path.join(C.BIN, "hcorr"), "disk", "run", "-impl", "file", "-pin", "-scratch", scratch]
    p = subprocess.run(cmd, input="\n".join(ops) + "\n", env=env, stdout=subprocess.PIPE, stderr=subprocess.PIPE, text=True, timeout=120)
    del LAST_TRACE[:]
    try:
        for l in open(tf):
            m = TRACE_RE.match(l)
            if m:
                # (a transfer of zero bytes moved nothing: not a successful write or read)
                LAST_TRACE.append((m.group(1), int(m.group(3)) > 0 if m.group(1) in ("pwrite64", "pread64") else int(m.group(3)) >= 0))
        os.remove(tf)
    except OSError:
        pass
    return p.stdout.splitlines(), p.returncode, p.stderr[-500:]


def trace_conformance(ops, got, trace):
    """Syscall-level reading of "never report success when the flush/write/read failed":
    a Write that answers ok issued a successful pwrite64; a Read that answers with data issued a
    successful pread64; a Barrier that answers ok while a successful write is not yet covered by a
    successful fsync must itself have issued a successful fsync. Returns None or a description."""
    t = list(trace)
    dirty = False
    for i, (op, r) in enumerate(zip(ops, got)):
        w = op.split()[0]
        if w == "write":
            if r == "ok":
                # consume records up to and including the successful pwrite64 (failed attempts before it are retries)
                okrec = False
                while t and t[0][0] == "pwrite64":
                    rec = t.pop(0)
                    if rec[1]:
                        okrec = True
                        break
                if not okrec:
                    return "op %d `%s` answered ok but no successful pwrite64 was issued" % (i, op)
                dirty = True
            else:
                while t and t[0][0] == "pwrite64" and not t[0][1]:
                    t.pop(0)
        elif w in ("read", "readto"):
            if r != "panic" and r != "bad-op":
                okrec = False
                while t and t[0][0] == "pread64":
                    rec = t.pop(0)
                    if rec[1]:
                        okrec = True
                        break
                if not okrec:
                    return "op %d `%s` answered with data but no successful pread64 was issued" % (i, op)
            else:
                while t and t[0][0] == "pread64" and not t[0][1]:
                    t.pop(0)
        elif w == "barrier":
            # one Barrier issues at most one fsync
            synced = False
            if t and t[0][0] == "fsync":
                if r == "ok":
                    synced = t.pop(0)[1]      # a failed fsync behind an ok reply is a swallowed error
                elif not t[0][1]:
                    t.pop(0)
            if r == "ok":
                if dirty and not synced:
                    return "op %d `barrier` answered ok but no successful fsync covers the preceding successful write" % i
                if synced:
                    dirty = False
    return None


def fault_script(seed, n=6):
    """A deterministic script that touches every syscall class several times."""
    import random
    rnd = random.Random(seed)
    ops = ["new %d" % n, "buf 4096 17", "buf 4096 34", "buf 4096 51", "buf 4096 238"]
    for k in range(14):
        c = rnd.randrange(6)
        a = rnd.randrange(n)
        if c < 3:
            ops.append("write %d %d" % (a, rnd.randrange(3)))
        elif c == 3:
            ops.append("readto %d 3" % a)      # dirty buffer: a failed or short read cannot hide
            ops.append("peek 3")
        elif c == 4:
            ops.append("read %d" % a)
        else:
            ops.append("barrier")
            if rnd.randrange(2) == 0:
                ops.append("barrier")          # a second barrier with nothing written in between
        if rnd.randrange(4) == 0:
            ops.append("poke %d %d %d" % (rnd.randrange(3), rnd.randrange(4096), rnd.randrange(256)))
    ops += ["write 0 1", "barrier", "barrier"] + ["read %d" % a for a in range(n)]
    return ops, n


def fault_injection(ctx, build, stats):
    """Returns True if a counterexample was reported."""
    found = False
    scratch = C.scratch()
    nscripts = 2 if ctx.tier == "quick" else 12
    errnos = ["EIO", "EINTR"] if ctx.tier == "quick" else ["EIO", "ENOSPC", "EINTR", "EAGAIN"]
    try:
        probe, rc, err = strace_run(["new 1", "size"], scratch, "fsync:error=EIO:when=99", "fsync")
        if probe != ["ok", "n 1"]:
            raise C.Infra("strace fault injection unavailable in this environment: %r %r" % (probe, err))
        for si in range(nscripts):
            ops, n = fault_script(ctx.seed * 1000 + si)
            clean = spec_run(ops)
            classes = {
                "pwrite64": [i for i, (o, r) in enumerate(zip(ops, clean)) if o.startswith("write") and r == "ok"],
                "pread64": [i for i, (o, r) in enumerate(zip(ops, clean)) if o.startswith("read") and r != "panic"],
                "fsync": [i for i, o in enumerate(ops) if o == "barrier"],
            }
            for sc, idxs in classes.items():
                for k, i in enumerate(idxs, 1):
                    # (the first call of each class also fails with the errno values a driver may treat as "cannot do that here")
                    # … and, for reads and writes, with a transfer of ZERO bytes without any error (RETVAL0): nothing was written or read
                    for errno in errnos + (["EINVAL", "EOPNOTSUPP", "EROFS", "EBADF"] if k == 1 else []) + (["RETVAL0"] if k <= 2 and sc != "fsync" else []):
                      for persistent in (False, True):
                        if persistent and (k % 3 != 1):
                            continue  # from-the-k-th-call-on failures: every third starting point
                        # what the specification says when the k-th call of that class (and, if
                        # persistent, every later one) fails: the op panics and changes nothing
                        patched = list(ops)
                        hit = [i] if not persistent else idxs[k - 1:]
                        for ii in hit:
                            w = ops[ii].split()
                            if w[0] in ("write", "readto"):
                                patched[ii] = "%s %s %s" % (w[0], HUGE, w[2])
                            elif w[0] == "read":
                                patched[ii] = "read " + HUGE
                        want = spec_run(patched)
                        for ii in hit:
                            if ops[ii] == "barrier":
                                want[ii] = "panic"
                        inj = "%s:error=%s:when=%d%s" % (sc, errno, k, "+" if persistent else "")
                        if errno == "RETVAL0":
                            inj = "%s:retval=0:when=%d%s" % (sc, k, "+" if persistent else "")
                        got, rc, err = strace_run(ops, scratch, inj, sc)
                        stats["fault_runs"] += 1
                        stats["fault_classes"]["%s:%s%s" % (sc, errno, "+" if persistent else "")] += 1
                        tc = trace_conformance(ops, got, LAST_TRACE)
                        if tc and not found:
                            found = True
                            ctx.violation("counterexample", "disk fault injection: reply not backed by a successful system call",
                                          {"proto": "disk-fault", "ops": ops, "inject": inj, "syscall": sc},
                                          expected="every ok reply is backed by a successful pwrite64/pread64/fsync", observed=tc)
                        if got != want and not found:
                            found = True
                            j = next((x for x in range(min(len(got), len(want))) if got[x] != want[x]), min(len(got), len(want)))
                            ctx.violation("counterexample", "disk fault injection: %s fails with %s from its call #%d%s" % (sc, errno, k, " on" if persistent else " (once)"),
                                          {"proto": "disk-fault", "ops": ops, "inject": inj, "syscall": sc,
                                           "first_difference_at_op": j},
                                          expected=want[max(0, j - 1):j + 3], observed=got[max(0, j - 1):j + 3])
            # kill at the k-th pwrite64, then reopen: every block is the last completed write;
            # the interrupted block is old or new
            for k, i in enumerate(classes["pwrite64"], 1):
                got, rc, err = strace_run(ops, scratch, "pwrite64:signal=KILL:when=%d" % k, "pwrite64")
                stats["kill_runs"] += 1
                reads = ["read %d" % a for a in range(n)]
                after = C.hcorr("disk", "run", ["-impl", "file", "-scratch", scratch], input="\n".join(["reopen %d" % n] + reads) + "\n")
                old = spec_run(ops[:i] + ["reopen %d" % n] + reads)[i:]
                new = spec_run(ops[:i + 1] + ["reopen %d" % n] + reads)[i + 1:]
                strip = lambda rs: [" ".join(r.split()[1:]) for r in rs[1:]]  # drop the buffer id (heap differs after reopen)
                if strip(after) not in (strip(old), strip(new)) and not found:
                    found = True
                    ctx.violation("counterexample", "disk crash: child killed at pwrite64 #%d, image reopened" % k,
                                  {"proto": "disk-kill", "ops": ops, "kill_at_pwrite": k},
                                  expected={"old": strip(old), "new": strip(new)}, observed=strip(after))
        # failures while opening — with a prior image that has to GROW (5 bytes), one that has to SHRINK (a partial block more, and
        # several blocks more, than the three requested): the resize fails either way, and the error must come back
        for sc in ["ftruncate", "fstat", "openat"]:
            for errno in errnos[:2]:
                for plen in (5, 3 * 4096 + 777, 8 * 4096):
                    oops = ["newimg 3 %d 9" % plen, "size", "read 0"]
                    got, rc, err = strace_run(oops, scratch, "%s:error=%s:when=%d" % (sc, errno, 1 if sc != "openat" else 0), sc) \
                        if sc != "openat" else (None, 0, "")
                    if got is None:
                        continue
                    stats["fault_runs"] += 1
                    stats["fault_classes"]["%s:%s" % (sc, errno)] += 1
                    if got[:1] != ["panic"] and not found:
                        found = True
                        ctx.violation("counterexample", "disk open: %s fails with %s (prior image of %d bytes, 3 blocks requested)" % (sc, errno, plen),
                                      {"proto": "disk-fault", "ops": oops, "inject": "%s:error=%s:when=1" % (sc, errno), "syscall": sc},
                                      expected=["panic (NewFileDisk must return the error)"], observed=got)
    finally:
        shutil.rmtree(scratch, ignore_errors=True)
    return found


def check(ctx):
    build = C.ensure_built("C11", ["disk"])
    # (the `big` stream: sparse images of more than 2^20 blocks, addresses that agree modulo 2^20 — every block is the last value written;
    #  the `huge` stream: block counts whose byte length is not a file offset — refused, never opened with aliasing blocks)
    found, stats = c09.explore(ctx, build, ["reopen", "big", "huge"], lambda s: ["file", "afile", "gfile"], "C11")
    stats["fault_runs"] = 0
    stats["kill_runs"] = 0
    stats["fault_classes"] = collections.Counter()
    if fault_injection(ctx, build, stats):
        found = True
    # ---- short transfers: a write that the file-size limit cuts short, a read that reaches the end of an image somebody
    #      truncated — the system call reports no error, only a byte count; the disk must not report success
    block7, block9 = "buf 4096 7", "buf 4096 9"
    shorts = [
        ("a write that is cut short by the file-size limit", ["new 4", block7, block9, "write 1 0", "fsize 8292", "write 2 1", "write 3 1", "read 1"],
         {5: "panic", 6: "panic"}),
        ("a write that is cut short after its first byte", ["new 4", block7, "fsize 4097", "write 1 0", "read 0"], {3: "panic"}),
        ("a read of a block that lies partly beyond the end of a truncated image", ["new 4", block7, "write 1 0", "write 2 0", "extrunc 8292", "read 2", "read 1"],
         {5: "panic"}),
        ("a ReadTo of a block beyond the end of a truncated image into a used buffer", ["new 4", block7, "write 3 0", "extrunc 8192", "buf 4096 5", "readto 3 1", "read 2"],
         {5: "panic", 6: "panic"}),
    ]
    for what, sops, must in shorts:
        for impl in ("file", "afile", "gfile"):
            scratch = C.scratch()
            try:
                rr = c09.run_real(impl, sops, scratch)
            finally:
                shutil.rmtree(scratch, ignore_errors=True)
            stats["ops"] += len(sops)
            stats["short_transfer_runs"] = stats.get("short_transfer_runs", 0) + 1
            wrong = {i: rr[i] for i, w in must.items() if rr[i] != w}
            if any(r.startswith("harness-error") or r in ("bad-op", "unsupported") for r in rr):
                raise C.Infra("C11 short-transfer scenario could not be set up (%s): %s" % (impl, rr))
            if wrong and not found:
                found = True
                ctx.violation("counterexample", "disk (%s): %s is reported as a success" % (impl, what),
                              {"proto": "disk", "impl": impl, "ops": sops}, expected={"op %d (`%s`)" % (i, sops[i]): w for i, w in must.items()},
                              observed={"op %d (`%s`)" % (i, sops[i]): r for i, r in wrong.items()})
    # fixed findings are re-run on every check: they suppress nothing and must stay fixed
    for e in C.load_known("C11"):
        if e.get("status") != "fixed" or not e.get("witness", "").endswith(".txt"):
            continue          # (the short-transfer finding is re-run by the scenarios above)
        wops = [l.strip() for l in open(os.path.join(C.VERIF, e["witness"])) if l.strip()]
        scratch = C.scratch()
        try:
            rr = c09.run_real(e["match"].get("impl", "file"), wops, scratch)
        finally:
            shutil.rmtree(scratch, ignore_errors=True)
        ss = spec_run(wops)
        stats["ops"] += len(wops)
        if rr != ss:
            found = True
            ctx.violation("counterexample", "regression of fixed finding %s" % e["key"],
                          {"proto": "disk", "impl": e["match"].get("impl", "file"), "ops": wops}, expected=ss, observed=rr)
    if build.broken and not found:
        ch = c09.changed_decls()
        for b in build.broken:
            if b["kind"] == "proof-obligation" and ch:
                b["detail"] += " | declarations that differ from Expected: " + ", ".join(ch)
    C.report_broken_obligations(ctx, build, found)
    c09.finish_cov(ctx, stats)
    ctx.coverage["rule"] = ("`reopen` stream: histories that start from a new image or a prior image of length 0, 1, numBlocks bytes, "
                            "partial block, exact, exact+-1, larger; ops as in C09 with ReadTo into dirty buffers after every open; "
                            "close/reopen with the same, a smaller or a larger size; executed on file, afile, gfile. Fault injection: "
                            "strace makes the k-th pwrite64/pread64/fsync (every k of a fixed-seed script) fail with each errno, and "
                            "kills the child at every pwrite64 followed by reopen. distinct_nontrivial = distinct histories")
    ctx.coverage["evaluations"] = stats["ops"] + stats["fault_runs"] + stats["kill_runs"]
    ctx.coverage["fault_injection_runs"] = stats["fault_runs"]
    ctx.coverage["kill_and_reopen_runs"] = stats["kill_runs"]
    ctx.coverage["fault_classes"] = dict(stats["fault_classes"])
    if ctx.tier == "thorough" and not build.broken:
        ok, out = C.leanchecker("GooseVerif.Props.C11")
        ctx.coverage["leanchecker"] = "ok" if ok else out
    ctx.assumptions += [
        "OS-file model (pread/pwrite/ftruncate; a killed process keeps what it wrote): validated by the runs, not proved",
        "fsync does what POSIX says; power-loss durability of the host file system is not reached",
        "strace's syscall fault injection (per-thread counting; the child pins its thread and runs with GOMAXPROCS=1)",
    ]
    return ctx.finish(build)


def replay(ctx, path):
    obj = json.load(open(path))
    inp = obj["input"]
    if inp.get("proto") == "disk":
        return c09.replay(ctx, path)
    build = C.ensure_built("C11", ["disk"])
    if inp.get("proto") == "disk-fault":
        scratch = C.scratch()
        try:
            got, rc, err = strace_run(inp["ops"], scratch, inp["inject"], inp["syscall"])
        finally:
            shutil.rmtree(scratch, ignore_errors=True)
        for o, r in zip(inp["ops"], got):
            print("%-28s code=%s" % (o, r))
        print("expected around the fault:", obj["expected"])
        return 1
    return check(ctx)
