"""C08 — file header names exactly the FFI and imports the package uses.

Proof: Props/C08.lean over Model/Header.lean (import-graph walk that stops at FFI packages, header
choice, Require lines with sort+dedup, path mapping), with the FFI / builtin tables regenerated
from goose.go. Correspondence: generated modules realising import-graph shapes × import sets/orders/
repetitions across files × path components with '.', '-', '_', trusted_; the REAL goose binary is
run on them and header, footer, Require lines and the output path are compared with the model and
judged against the property's reading (independent python reimplementation of the statement).
"""
import collections
import json
import os
import random
import shutil

import common as C
import gomod

LEVEL = "proof"

# importable things: import path -> (call expression returning uint64, abstract deps of that package)
LEAVES = {
    "fmt": None, "log": None, "sync": None,
    "github.com/goose-lang/goose/machine": "machine.RandomUint64()",
    "github.com/goose-lang/goose/machine/disk": "disk.Size()",
    "github.com/goose-lang/goose/machine/async_disk": "uint64(async_disk.BlockSize)",
    "github.com/goose-lang/primitive": "primitive.RandomUint64()",
    "github.com/goose-lang/primitive/disk": "disk.Size()",
    "github.com/goose-lang/primitive/async_disk": "uint64(async_disk.BlockSize)",
    "github.com/mit-pdos/gokv/grove_ffi": "grove_ffi.Token()",
    "github.com/mit-pdos/gokv/time": "time.Stamp()",
    "github.com/tchajed/marshal": "uint64(len(marshal.NewEnc(8).Finish()))",
    "example.org/go-journal.v2/util": "util.F()",
    "example.org/other/util": "util.F()",
    "example.org/go-journal.v2/trusted_lib": "trusted_lib.F()",
    "example.org/go-journal.v2/wal-2.x": "wal.F()",
    "example.org/go-journal.v2/dot.ted": "ted.F()",
}
FFI = {"github.com/mit-pdos/gokv/grove_ffi": "grove", "github.com/goose-lang/goose/machine/disk": "disk",
       "github.com/goose-lang/goose/machine/async_disk": "async_disk", "github.com/goose-lang/primitive/disk": "disk",
       "github.com/goose-lang/primitive/async_disk": "async_disk"}
BUILTIN = {"fmt", "log", "sync", "github.com/goose-lang/goose/machine", "github.com/goose-lang/goose/machine/async_disk",
           "github.com/goose-lang/goose/machine/disk", "github.com/goose-lang/goose/machine/filesys", "github.com/goose-lang/primitive",
           "github.com/goose-lang/primitive/async_disk", "github.com/goose-lang/primitive/disk", "github.com/mit-pdos/gokv/grove_ffi",
           "github.com/mit-pdos/gokv/time", "github.com/mit-pdos/vmvcc/cfmutex"}
# transitive dependency edges of the leaves that matter for FFI detection (primitive/disk does not
# import machine/disk; machine/async_disk imports machine/disk but is an FFI itself: hidden)
LEAF_DEPS = {"github.com/goose-lang/goose/machine/async_disk": ["github.com/goose-lang/goose/machine/disk"],
             "github.com/mit-pdos/gokv/time": ["github.com/mit-pdos/gokv/grove_ffi"]}


def pkg_source(pkgname, files_imports):
    """files_imports: list of import lists, one per file."""
    files = {}
    for k, imps in enumerate(files_imports):
        body = ["package " + pkgname, ""]
        if imps:
            body.append("import (")
            for i in imps:
                body.append("\t\"%s\"" % i)
            body.append(")")
            body.append("")
        used = set()
        for j, i in enumerate(imps):
            if i in used:
                continue
            used.add(i)
            call = LEAVES.get(i, "%s.F()" % i.split("/")[-1].replace("-", "_").replace(".", "_"))
            if i == "fmt":
                body += ["func useFmt%d%d() {" % (k, j), "\tfmt.Println(\"x\")", "}", ""]
            elif i == "log":
                body += ["func useLog%d%d() {" % (k, j), "\tlog.Println(\"x\")", "}", ""]
            elif i == "sync":
                body += ["func useSync%d%d() *sync.Mutex {" % (k, j), "\treturn new(sync.Mutex)", "}", ""]
            else:
                body += ["func use%d%d() uint64 {" % (k, j), "\treturn %s" % call, "}", ""]
        body += ["func local%d() uint64 {" % k, "\treturn %d" % k, "}", ""]
        files["f%d.go" % k] = "\n".join(body)
    return files


def spec_ffi(graph, root):
    """The property's reading: FFIs reachable through transitive imports, not looking behind an FFI package."""
    seen, ffis, stack = set(), set(), [root]
    while stack:
        p = stack.pop()
        if p in seen:
            continue
        seen.add(p)
        if p in FFI:
            ffis.add(FFI[p])
            continue
        stack += graph.get(p, [])
    return ffis


def spec_requires(imports):
    out = set()
    for i in imports:
        if i in BUILTIN:
            continue
        logical = i.replace(".", "_").replace("-", "_").replace("/", ".")
        if i.split("/")[-1].startswith("trusted_"):
            out.add("From Perennial.goose_lang.trusted Require Import %s." % logical)
        else:
            out.add("From Goose Require %s." % logical)
    return sorted(out)


def spec_outpath(pkgpath):
    return pkgpath.replace(".", "_").replace("-", "_") + ".v"


def scenarios(seed, tier):
    rnd = random.Random(seed)
    n = 40 if tier == "quick" else 600
    leaves = list(LEAVES)
    for k in range(n):
        grove_uses_disk = rnd.random() < 0.3
        # helper packages in the module (possibly with '.', '-', '_' in their directory names)
        helper_dirs = rnd.sample(["h1", "h-2", "h.3", "deep/h_4", "trusted_h5"], rnd.randrange(0, 4))
        helpers = {}
        graph = {}
        for hd in helper_dirs:
            imps = rnd.sample(leaves, rnd.randrange(0, 3))
            if len(imps) == 2 and imps[0].split("/")[-1] == imps[1].split("/")[-1]:
                imps = imps[:1]
            if rnd.random() < 0.3 and helpers:
                imps.append("example.com/m/" + rnd.choice(list(helpers)))
            helpers[hd] = imps
            graph["example.com/m/" + hd] = list(imps)
        pool = leaves + ["example.com/m/" + h for h in helpers]
        nfiles = rnd.randrange(1, 4)
        files_imports = []
        for f in range(nfiles):
            imps = rnd.sample(pool, rnd.randrange(0, min(6, len(pool))))
            rnd.shuffle(imps)
            # Go forbids two imports with the same package name in one file
            seen_names, uniq = set(), []
            for i in imps:
                nm = i.split("/")[-1]
                if nm not in seen_names:
                    seen_names.add(nm)
                    uniq.append(i)
            files_imports.append(uniq)
        if nfiles > 1 and rnd.random() < 0.6 and files_imports[0]:
            rep = files_imports[0][0]                                              # repetition across files
            if rep.split("/")[-1] not in [x.split("/")[-1] for x in files_imports[-1]]:
                files_imports[-1] = files_imports[-1] + [rep]
        pdir = rnd.choice(["p", "my-pkg", "v1.2/pk", "a_b/c.d-e"])
        pname = pdir.split("/")[-1].replace("-", "_").replace(".", "_")
        root_pkg = "example.com/m/" + pdir
        all_imps = [i for f in files_imports for i in f]
        graph[root_pkg] = list(dict.fromkeys(all_imps))
        for leaf, deps in LEAF_DEPS.items():
            graph[leaf] = deps
        if grove_uses_disk:
            graph["github.com/mit-pdos/gokv/grove_ffi"] = ["github.com/goose-lang/goose/machine/disk"]
        pkgs = {pdir: pkg_source(pname, files_imports)}
        if rnd.random() < 0.3:
            # one declaration goose cannot translate: -ignore-errors still writes the file, with the same header and footer
            f0 = sorted(pkgs[pdir])[0]
            pkgs[pdir][f0] += "\nfunc Untranslatable(s []uint64) []uint64 {\n\treturn s[0:1:2]\n}\n"
        for hd, imps in helpers.items():
            hname = hd.split("/")[-1].replace("-", "_").replace(".", "_")
            src = pkg_source(hname, [imps])
            src["f0.go"] += "\nfunc F() uint64 {\n\treturn 9\n}\n"
            pkgs[hd] = src
        yield {"pkgs": pkgs, "root_pkg": root_pkg, "pdir": pdir, "graph": graph, "imports": all_imps,
               "grove_uses_disk": grove_uses_disk, "k": k,
               "out": rnd.choice(["Goose", "Goose", "coq-out.d", "out.v1/sub-dir", "a.b-c"])}


def model_lines(sc):
    g = " ".join("%s=%s" % (n, ",".join(v)) for n, v in sc["graph"].items())
    return ["ffi %s %s" % (sc["root_pkg"], g), "requires " + " ".join(sc["imports"]) if sc["imports"] else "requires",
            "outpath " + sc["root_pkg"]]


def check(ctx):
    build = C.ensure_built("C08", ["ffi"], extra_go=gomod.EXTRA_GO)
    scratch = C.scratch()
    found = False
    stats = collections.Counter()
    samples = []
    known_hits = {}
    try:
        for sc in scenarios(ctx.seed, ctx.tier):
            root = os.path.join(scratch, "m")
            gomod.write_module(root, sc["pkgs"], grove_uses_disk=sc["grove_uses_disk"])
            rc, out, err = gomod.run_goose(root, ["-ignore-errors"], ["./" + sc["pdir"]], out=sc.get("out", "Goose"))
            tr = {k: v for k, v in gomod.tree(root).items() if k.endswith(".v")}
            tr = {(k[len(sc.get("out", "Goose")) + 1:] if k.startswith(sc.get("out", "Goose") + "/") else "<module root>/" + k): v for k, v in tr.items()}
            stats["scenarios"] += 1
            ffis = spec_ffi(sc["graph"], sc["root_pkg"])
            stats["ffi_count_%d" % min(len(ffis), 2)] += 1
            want_path = spec_outpath(sc["root_pkg"])
            model = C.driver("cli", model_lines(sc)) if build.driver_ok else None
            problem = None
            observed = {"exit": rc, "files": sorted(tr), "stderr": err[-400:]}
            if len(ffis) > 1:
                # must be refused: no output for this package, non-zero exit
                if rc == 0 or tr:
                    problem = "a package reaching the FFIs %s was not refused" % sorted(ffis)
                if model and model[0] != "refused":
                    build.broken.append({"kind": "correspondence", "name": "cli: Lean getFfi vs specification", "detail": str(model[0])})
            else:
                ffi = next(iter(ffis)) if ffis else "none"
                if "panic" in err and "goroutine" in err:
                    problem = "goose crashed: " + err[:300]
                elif sorted(tr) != [want_path]:
                    problem = "output files %s, expected exactly [%s]" % (sorted(tr), want_path)
                else:
                    text = tr[want_path][0].decode()
                    notice, prelude, reqs, header, body, footer = gomod.split_output(text)
                    observed.update({"requires": reqs, "header": header, "footer": footer})
                    want_reqs = spec_requires(sc["imports"])
                    want_header = "Section code.\nContext `{ext_ty: ext_types}.\nLocal Coercion Var' s: expr := Var s." if ffi == "none" \
                        else "From Perennial.goose_lang Require Import ffi.%s_prelude." % ffi
                    want_footer = "\nEnd code.\n" if ffi == "none" else ""
                    if notice != "(* autogenerated from %s *)" % sc["root_pkg"]:
                        problem = "notice line %r" % notice
                    elif reqs != want_reqs:
                        problem = "Require lines %s, expected %s" % (reqs, want_reqs)
                    elif header != want_header or footer != want_footer:
                        problem = "header/footer %r / %r, expected those of FFI %s" % (header, footer, ffi)
                    elif model is not None:
                        m_ffi, m_req, m_path = model
                        mr = [] if m_req == "req -" else m_req[4:].split("|")
                        if m_ffi != "ffi " + ffi or mr != reqs or m_path != "path " + want_path:
                            stats["model_disagreements"] += 1
                            if not any(b["kind"] == "correspondence" for b in build.broken):
                                build.broken.append({"kind": "correspondence", "name": "cli: Lean header model vs goose",
                                                     "detail": "model %s vs code ffi=%s reqs=%s path=%s" % (model, ffi, reqs, want_path)})
            if len(samples) < 2 and not problem and tr:
                samples.append({"imports_per_file": [list(f) for f in [sc["imports"]]], "graph": sc["graph"], "observed": {k: v for k, v in observed.items() if k != "stderr"}})
            if problem and not found:
                found = True
                ctx.violation("counterexample", "goose header / FFI / Require lines / output path vs the property",
                              {"proto": "cli-header", "packages": sc["pkgs"], "pattern": "./" + sc["pdir"], "grove_uses_disk": sc["grove_uses_disk"], "out": sc.get("out", "Goose")},
                              expected={"ffis_reachable": sorted(ffis), "requires": spec_requires(sc["imports"]), "out_path": want_path},
                              observed=dict(observed, problem=problem))
            shutil.rmtree(root, ignore_errors=True)
        # ---- packages translated together, and degenerate packages: the header of each must be what it is alone
        co = {
            "a/same": {"f.go": "package same\n\nimport \"github.com/goose-lang/goose/machine/disk\"\n\nfunc UseDisk() uint64 {\n\treturn disk.Size()\n}\n"},
            "b/same": {"f.go": "package same\n\nfunc Plain() uint64 {\n\treturn 1\n}\n"},
            "c/viaa": {"f.go": "package viaa\n\nimport \"example.com/m/a/same\"\n\nfunc Via() uint64 {\n\treturn same.UseDisk()\n}\n"},
            "d/empty": {"f.go": "package empty\n"},
            "e/dup": {"f.go": "package dup\n\nfunc F() uint64 {\n\treturn 1\n}\n\n// same text twice\nfunc G() {\n}\n", "g.go": "package dup\n\n// same text twice\nfunc H() {\n}\n"},
            "f/trust": {"f.go": "package trust\n\nimport (\n\t\"example.com/m/trusted_x\"\n\t\"example.com/m/b/same\"\n)\n\nfunc T() uint64 {\n\treturn trusted_x.F() + same.Plain()\n}\n",
                        "g.go": "package trust\n\nimport \"example.com/m/b/same\"\n\nfunc T2() uint64 {\n\treturn same.Plain()\n}\n"},
            "trusted_x": {"f.go": "package trusted_x\n\nfunc F() uint64 {\n\treturn 2\n}\n"},
            # two files of one package import DIFFERENT packages that are both named util
            "g/twoutils": {"f1.go": "package twoutils\n\nimport \"example.org/go-journal.v2/util\"\n\nfunc A() uint64 {\n\treturn util.F()\n}\n",
                           "f2.go": "package twoutils\n\nimport \"example.org/other/util\"\n\nfunc B() uint64 {\n\treturn util.F()\n}\n"},
            # ONE FFI reached through both of its providers (machine/disk and primitive/disk), in two files and through a helper package
            "h/twoprov": {"f1.go": "package twoprov\n\nimport \"github.com/goose-lang/goose/machine/disk\"\n\nfunc A() uint64 {\n\treturn disk.Size()\n}\n",
                          "f2.go": "package twoprov\n\nimport \"github.com/goose-lang/primitive/disk\"\n\nfunc B() uint64 {\n\treturn disk.Size()\n}\n"},
            "h/viaprov": {"f.go": "package viaprov\n\nimport (\n\t\"example.com/m/a/same\"\n\t\"github.com/goose-lang/primitive/disk\"\n)\n\nfunc C() uint64 {\n\treturn same.UseDisk() + disk.Size()\n}\n"},
            # user packages NAMED like an FFI (or like the word for "no FFI"): ordinary imports with a Require line of their own
            "i/mylib/disk": {"f.go": "package disk\n\nfunc Sectors(n uint64) uint64 {\n\treturn n\n}\n"},
            "i/none": {"f.go": "package none\n\nfunc Zero() uint64 {\n\treturn 0\n}\n"},
            "j/libdisk": {"f1.go": "package libdisk\n\nimport \"github.com/goose-lang/goose/machine/disk\"\n\nfunc A() uint64 {\n\treturn disk.Size()\n}\n",
                          "f2.go": "package libdisk\n\nimport \"example.com/m/i/mylib/disk\"\n\nfunc B() uint64 {\n\treturn disk.Sectors(3)\n}\n"},
            # a package BELOW a directory named trusted_…: only the package's own name decides
            "k/trusted_lib/helper": {"f.go": "package helper\n\nfunc H() uint64 {\n\treturn 5\n}\n"},
            "k/usehelper": {"f.go": "package usehelper\n\nimport (\n\t\"example.com/m/b/same\"\n\t\"example.com/m/k/trusted_lib/helper\"\n)\n\nfunc U() uint64 {\n\treturn helper.H() + same.Plain()\n}\n"},
            "j/libnone": {"f.go": "package libnone\n\nimport \"example.com/m/i/none\"\n\nfunc Z() uint64 {\n\treturn none.Zero()\n}\n"},
        }
        expect_ffi = {"a/same": "disk", "b/same": "none", "c/viaa": "disk", "d/empty": "none", "e/dup": "none", "f/trust": "none", "trusted_x": "none", "g/twoutils": "none",
                      "h/twoprov": "disk", "h/viaprov": "disk", "i/mylib/disk": "none", "i/none": "none", "j/libdisk": "disk", "j/libnone": "none", "k/trusted_lib/helper": "none", "k/usehelper": "none"}
        root = os.path.join(scratch, "co")
        alone = {}
        for d in co:
            gomod.write_module(root, co)
            gomod.run_goose(root, [], ["./" + d])
            t = gomod.tree(os.path.join(root, "Goose"))
            alone[d] = t.get(spec_outpath("example.com/m/" + d), (None,))[0]
        for patterns in (["./..."], ["./" + d for d in sorted(co, reverse=True)], ["./b/same", "./a/same"], ["./a/same", "./b/same"]):
            gomod.write_module(root, co)
            rc, out, err = gomod.run_goose(root, [], patterns)
            t = gomod.tree(os.path.join(root, "Goose"))
            stats["co_translation_runs"] += 1
            for d in co:
                if "./..." not in patterns and "./" + d not in patterns:
                    continue
                got = t.get(spec_outpath("example.com/m/" + d), (None,))[0]
                if got != alone[d] and not found:
                    found = True
                    ctx.violation("counterexample", "the file written for a package depends on which packages are translated in the same invocation",
                                  {"proto": "cli-co", "packages": co, "patterns": patterns, "package": d},
                                  expected=(alone[d] or b"").decode()[:1200], observed=(got or b"<no file>").decode()[:1200])
        for d, ffi in expect_ffi.items():
            txt = (alone[d] or b"").decode()
            stats["degenerate_packages"] += 1
            generic = "Section code.\nContext `{ext_ty: ext_types}.\nLocal Coercion Var' s: expr := Var s." in txt and txt.rstrip().endswith("End code.")
            prelude = ("ffi.%s_prelude." % ffi) in txt and "Section code." not in txt and "End code." not in txt
            if alone[d] is None or not (generic if ffi == "none" else prelude):
                if not found:
                    found = True
                    ctx.violation("counterexample", "header / footer of a package do not match the FFI it reaches",
                                  {"proto": "cli-co", "packages": {d: co[d]}, "package": d}, expected={"ffi": ffi, "generic_section_with_footer": ffi == "none"},
                                  observed=txt[:1500] or "<no file>")
        ureq = [l for l in (alone["g/twoutils"] or b"").decode().split("\n") if "Require" in l and "prelude" not in l]
        want_ureq = ["From Goose Require example_org.go_journal_v2.util.", "From Goose Require example_org.other.util."]
        if ureq != want_ureq and not found:
            found = True
            ctx.violation("counterexample", "Require lines: two files of one package import different packages with the same name",
                          {"proto": "cli-co", "packages": {"g/twoutils": co["g/twoutils"]}}, expected=want_ureq, observed=ureq)
        for d, want_lines in (("j/libdisk", ["From Goose Require example_com.m.i.mylib.disk."]), ("j/libnone", ["From Goose Require example_com.m.i.none."]),
                              ("h/twoprov", []), ("h/viaprov", ["From Goose Require example_com.m.a.same."]),
                              ("k/usehelper", ["From Goose Require example_com.m.b.same.", "From Goose Require example_com.m.k.trusted_lib.helper."])):
            got_lines = [l for l in (alone[d] or b"").decode().split("\n") if "Require" in l and "prelude" not in l]
            if got_lines != want_lines and not found:
                found = True
                ctx.violation("counterexample", "Require lines: a user package named like an FFI is an ordinary import; the providers of an FFI are not",
                              {"proto": "cli-co", "packages": {k: v for k, v in co.items() if k == d or k.startswith("i/") or k == "a/same"}, "package": d}, expected=want_lines, observed=got_lines)
        treq = [l for l in (alone["f/trust"] or b"").decode().split("\n") if "Require" in l and "prelude" not in l]
        want_req = ["From Goose Require example_com.m.b.same.", "From Perennial.goose_lang.trusted Require Import example_com.m.trusted_x."]
        if treq != want_req and not found:
            found = True
            ctx.violation("counterexample", "Require lines: an ordinary package next to a trusted_ one in one import group",
                          {"proto": "cli-co", "packages": {"f/trust": co["f/trust"]}}, expected=want_req, observed=treq)
        # ---- an import path with a single element (the root package of a module named `m`, and of `my-lib.v2`)
        for mod, want in (("m", "From Goose Require m."), ("my-lib.v2", "From Goose Require my_lib_v2."),
                          ("trusted_m", "From Perennial.goose_lang.trusted Require Import trusted_m.")):
            pname = mod.replace("-", "_").replace(".", "_")
            one = {"": {"r.go": "package %s\n\nfunc Root() uint64 {\n\treturn 1\n}\n" % pname},
                   "sub": {"s.go": "package sub\n\nimport \"%s\"\n\nfunc Sub() uint64 {\n\treturn %s.Root()\n}\n" % (mod, pname)}}
            r1 = os.path.join(scratch, "one")
            gomod.write_module(r1, one, module=mod)
            rc, out, err = gomod.run_goose(r1, [], ["./sub"], out=os.path.join(r1, "Goose"))
            t = gomod.tree(os.path.join(r1, "Goose"))
            stats["single_element_imports"] += 1
            txt = next(iter(t.values()))[0].decode() if t else ""
            reqs = [l for l in txt.split("\n") if "Require" in l and "prelude" not in l]
            if (rc != 0 or reqs != [want]) and not found:
                found = True
                ctx.violation("counterexample", "Require line for an import path with a single element",
                              {"proto": "cli-co", "module": mod, "packages": one, "pattern": "./sub"}, expected=[want], observed={"exit": rc, "requires": reqs, "stderr": err[-300:]})
            shutil.rmtree(r1, ignore_errors=True)
    finally:
        shutil.rmtree(scratch, ignore_errors=True)
    C.report_broken_obligations(ctx, build, found)
    ctx.coverage.update({
        "evaluations": stats["scenarios"],
        "distinct_nontrivial": stats["scenarios"],
        "rule": "generated modules: a package (directory names with '.', '-', '_') of 1-3 files importing random subsets, orders and repetitions "
                "of {fmt, log, sync, machine, machine/disk, machine/async_disk, primitive, primitive/disk, primitive/async_disk, grove_ffi (local "
                "stand-in, optionally itself importing machine/disk), marshal, packages of a module whose path has '-' and '.', a trusted_ package, "
                "0-3 helper packages of the module which import FFI packages themselves}; goose -ignore-errors is run on it; all scenarios distinct",
        "samples": samples,
        "stats": dict(stats),
    })
    if ctx.tier == "thorough" and not build.broken:
        ok, out = C.leanchecker("GooseVerif.Props.C08")
        ctx.coverage["leanchecker"] = "ok" if ok else out
    ctx.assumptions += [
        "golang.org/x/tools/go/packages.Visit is a depth-first walk visiting each package once (modelled by Header.visit)",
        "github.com/mit-pdos/gokv is not in the module cache: a local module with that path stands in for it",
    ]
    return ctx.finish(build)


def replay(ctx, path):
    return check(ctx)
