"""Correspondence for Model/Tr.lean (control-flow translation): random control-flow skeletons —
atoms `acc = acc + K`, conditions `acc < K`, `return acc + K`, break/continue, loops, blocks, at any
nesting — are written as Go functions, translated by the REAL goose, and the structure of the emitted
expression (read back by the Lean parser) must be exactly what Model.Tr.trStmts produces, including
which skeletons are rejected and with which message."""
import os
import random
import re
import shutil

import common as C
import gomod
import gogen
import k4
import c07


class Gen:
    def __init__(self, r):
        self.r = r
        self.k = 100

    def fresh(self, kind="a"):
        """constants are drawn so that conditions `acc < K` take both truth values along a run"""
        r = self.r
        return {"a": r.randrange(1, 40), "r": r.randrange(0, 1000), "c": r.randrange(0, 120)}[kind]

    def stmts(self, depth, in_loop, n=None):
        n = self.r.randrange(0, 4) if n is None else n
        return [self.stmt(depth, in_loop) for _ in range(n)]

    def stmt(self, depth, in_loop):
        r = self.r
        c = r.randrange(12)
        if c < 4 or depth <= 0 and c < 8:
            return ("a", self.fresh())
        if c == 4:
            return ("r", self.fresh("r"))
        if c == 5 and in_loop:
            return ("brk",)
        if c == 6 and in_loop:
            return ("cont",)
        if depth <= 0:
            return ("a", self.fresh())
        if c in (7, 8, 9):
            els = self.stmts(depth - 1, in_loop) if r.random() < 0.5 else []
            if els and r.random() < 0.3:
                els = [("if", self.fresh("c"), self.stmts(depth - 1, in_loop), self.stmts(depth - 1, in_loop) if r.random() < 0.5 else [])]   # else if
            return ("if", self.fresh("c"), self.stmts(depth - 1, in_loop), els)
        if c == 10:
            return ("loop", self.fresh("c"), self.stmts(depth - 1, True))
        return ("blk", self.stmts(depth - 1, in_loop))


def tokens(ss):
    out = ["["]
    for s in ss:
        if s[0] in ("a", "r"):
            out += [s[0], str(s[1])]
        elif s[0] in ("brk", "cont"):
            out.append(s[0])
        elif s[0] == "if":
            out += ["if", str(s[1])] + tokens(s[2]) + tokens(s[3])
        elif s[0] == "loop":
            out += ["loop", str(s[1])] + tokens(s[2])
        else:
            out += ["blk"] + tokens(s[1])
    return out + ["]"]


def go_src(ss, ind):
    pad = "\t" * ind
    out = []
    for s in ss:
        if s[0] == "a":
            out.append("%sacc = acc + %d" % (pad, s[1]))
        elif s[0] == "r":
            out.append("%sreturn acc + %d" % (pad, s[1]))
        elif s[0] == "brk":
            out.append("%sbreak" % pad)
        elif s[0] == "cont":
            out.append("%scontinue" % pad)
        elif s[0] == "if":
            out.append("%sif acc < %d {" % (pad, s[1]))
            out += go_src(s[2], ind + 1)
            if s[3]:
                if len(s[3]) == 1 and s[3][0][0] == "if" and s[3][0][-1] == "elseif":
                    pass
                out.append("%s} else {" % pad)
                out += go_src(s[3], ind + 1)
            out.append("%s}" % pad)
        elif s[0] == "loop":
            out.append("%sfor acc < %d {" % (pad, s[1]))
            out += go_src(s[2], ind + 1)
            out.append("%s}" % pad)
        else:
            out.append("%s{" % pad)
            out += go_src(s[1], ind + 1)
            out.append("%s}" % pad)
    return out


# ---- reading the emitted structure back

def sexp(text):
    toks = re.findall(r"\(|\)|\[[^\]]*\]|[^\s()\[\]]+", text)
    pos = 0

    def parse():
        nonlocal pos
        t = toks[pos]
        pos += 1
        if t == "(":
            lst = []
            while toks[pos] != ")":
                lst.append(parse())
            pos += 1
            return lst
        return t
    return parse()


def is_acc_load(e):
    return isinstance(e, list) and len(e) == 3 and e[0] == "load" and e[2] == ["var", "616363"]


def lit(e):
    return int(e[1][4:]) if isinstance(e, list) and e[0] == "lit" and e[1].startswith("u64:") else None


def to_tgt(e):
    """canonical S-expression of the emitted body → nested tuples of the abstract target"""
    if e == ["lit", "unit"]:
        return ("unit",)
    if e == ["g", "Break"]:
        return ("brk",)
    if e == ["g", "Continue"]:
        return ("cont",)
    if e == ["g", "Skip"]:
        return ("skip",)
    h = e[0]
    if h == "seq":
        return ("seq", to_tgt(e[1]), to_tgt(e[2]))
    if h == "store" and e[1] == ["var", "616363"] and e[3][0] == "bin" and e[3][1] == "2b" and is_acc_load(e[3][2]) and lit(e[3][3]) is not None:
        return ("a", lit(e[3][3]))
    if h == "bin" and e[1] == "2b" and is_acc_load(e[2]) and lit(e[3]) is not None:
        return ("r", lit(e[3]))
    if h == "if" and e[1][0] == "bin" and e[1][1] == "3c" and is_acc_load(e[1][2]):
        return ("if", lit(e[1][3]), to_tgt(e[2]), to_tgt(e[3]))
    if h == "for":
        cond = e[1][-1]
        if cond[0] == "bin" and cond[1] == "3c" and is_acc_load(cond[2]) and e[2][-1] == ["g", "Skip"]:
            return ("loop", lit(cond[3]), to_tgt(e[3][-1]))
    raise ValueError("unexpected emitted form: %r" % (e[:2] if isinstance(e, list) else e,))


def flatten(t):
    if t[0] == "seq":
        items = []

        def go(x):
            if x[0] == "seq":
                go(x[1])
                go(x[2])
            else:
                items.append(x)
        go(t)
        items = [show(i) for i in items if i[0] != "skip"]
        return items
    return [show(t)] if t[0] != "skip" else []


def show(t):
    if t[0] in ("unit", "brk", "cont"):
        return t[0]
    if t[0] in ("a", "r"):
        return "%s %d" % t
    if t[0] == "if":
        return "( if %d %s %s )" % (t[1], show(t[2]), show(t[3]))
    if t[0] == "loop":
        return "( loop %d %s )" % (t[1], show(t[2]))
    if t[0] == "seq":
        items = flatten(t)
        return items[0] if len(items) == 1 else "( seq " + " ".join(items) + " )"
    raise ValueError(t)


PVALS = [0, 20, 45, 70, 100, 130]

MESSAGES = {"return-in-unsupported-position": "return in unsupported position",
            "break/continue-in-unsupported-position": "break/continue in unsupported position",
            "early-return-in-if-with-an-else-branch": "early return in if with an else branch"}


def run(seed, nfuncs, scratch):
    """Returns (stats dict, first disagreement or None)."""
    r = random.Random(seed)
    funcs = []
    for i in range(nfuncs):
        g = Gen(r)
        body = g.stmts(r.randrange(1, 4), False, n=r.randrange(1, 5)) + [("r", g.fresh("r"))]
        funcs.append(("s%d" % i, body))
    src = ["package p", ""]
    line_of = {}
    for name, body in funcs:
        start = len(src) + 1
        src.append("func %s(p uint64) uint64 {" % name)
        src.append("\tvar acc uint64 = p")
        src += go_src(body, 1)
        src.append("}")
        src.append("")
        line_of[name] = (start, len(src))
    root = os.path.join(scratch, "tr")
    runner = [gogen.PRINTER, "func RunAll() {"] + ['\tcall("%s#%d", func() string { return show(%s(%d)) })' % (n, pv, n, pv)
                                                   for n, b in funcs if "loop" not in tokens(b) for pv in PVALS] + ["}"]
    gomod.write_module(root, {"p": {"p.go": "\n".join(src), "run.go": "\n".join(runner)},
                              "cmd": {"main.go": "package main\n\nimport \"example.com/m/p\"\n\nfunc main() {\n\tp.RunAll()\n}\n"}})
    rc, gerr, text = k4.translate(root)
    if text is None:
        raise C.Infra("trcorr: goose wrote nothing: " + gerr[-500:])
    errs = c07.parse_errors(gerr)
    model = C.driver("tr", ["returned " + " ".join(tokens(body)) for _, body in funcs])
    names_rep = k4.gl_session(text, ["names"])
    if names_rep[0].startswith("parse-error"):
        return {"functions": nfuncs}, {"what": "emitted file does not parse", "detail": k4.unhex(names_rep[0])}
    emitted = set(names_rep[1][6:].split(",")) if names_rep[1] != "names -" else set()
    canon = dict(zip([n for n, _ in funcs if n in emitted], k4.gl_session(text, ["canon " + n for n, _ in funcs if n in emitted])[1:]))
    stats = {"functions": nfuncs, "accepted": 0, "rejected": 0}
    bad = None
    for (name, body), m in zip(funcs, model):
        lo, hi = line_of[name]
        if name in emitted:
            stats["accepted"] += 1
            e = sexp(canon[name][len("canon "):])
            # (func name [] (rec hex [] (let [acc] init BODY)))
            try:
                b = e[3][3][3]
                got = show(to_tgt(b))
            except (ValueError, IndexError) as ex:
                got = "unreadable: %s" % ex
            if got != m and (bad is None or bad["what"] != "values differ"):
                first = bad
                bad = {"what": "structure differs", "function": name, "go": "\n".join(src[lo - 1:hi]), "model": m, "goose": got, "emitted": k4.emitted_def(text, name)}
                if "loop" not in tokens(body):
                    # is the difference a difference in meaning? run the skeleton natively and in the interpreter
                    nat, _ = k4.native(root)
                    glvs = [k4.unhex(x) for x in k4.gl_session(text, ["eval %s u64:%d" % (name, pv) for pv in PVALS])[1:]]
                    for pv, glv in zip(PVALS, glvs):
                        want = (nat or {}).get("%s#%d" % (name, pv))
                        if want is not None and glv != "value " + want:
                            bad["what"] = "values differ"
                            bad["argument"] = pv
                            bad["native_go"] = want
                            bad["gooselang"] = glv
                            break
                if bad["what"] != "values differ" and first is not None:
                    bad = first
        else:
            stats["rejected"] += 1
            msgs = [msg for cat, msg, f, ln in errs if ln is not None and lo <= ln <= hi]
            want = MESSAGES.get(m[6:]) if m.startswith("error ") else None
            if (want is None or not any(want in x for x in msgs)) and bad is None:
                bad = {"what": "goose rejects, the model says `%s`" % m, "function": name, "go": "\n".join(src[lo - 1:hi]), "goose_errors": msgs[:3]}
    shutil.rmtree(root, ignore_errors=True)
    return stats, bad
