"""C07 — goose never crashes: output or structured, located errors.

Proof: Props/C07.lean (the error-aggregation model: per-declaration results are independent, a
recovered failure of one declaration never removes another declaration's output or error; the
inventory of raw-panic sites regenerated from the translator's source equals the reviewed one).
Correspondence / search: the REAL goose binary on (a) standard-library packages (arbitrary
type-correct Go), (b) probe packages aimed at every raw-panic site of the inventory and at the
out-of-subset catalogue, (c) packages with several failing declarations among good ones. Checked:
exit status 0/1 (never 2, never a stack trace), every error has a documented category and a source
position inside the offending declaration, every failing declaration is reported, good
declarations are still emitted.
"""
import collections
import json
import os
import random
import re
import shutil
import subprocess

import common as C
import gomod

LEVEL = "proof"
CATEGORIES = {"unsupported", "todo", "future", "impossible(go)", "impossible(no-examples)"}
ERR_RE = re.compile(r"^(?:conversion failed: )?\[([^\]]+)\]: (.*)$")
SRC_RE = re.compile(r"^  src: (.*?):(\d+):(\d+)$")

# type-correct Go aimed at places where the translator indexes, asserts or dereferences without
# checking (DESIGN Appendix G), and at catalogue constructs; every entry is one top-level declaration
PROBES = {
    "named_slice_lit": "type IDs []uint64\n\nfunc P1() IDs {\n\treturn IDs{}\n}\n",
    "string_slice": "func P2(s string) string {\n\treturn s[1:]\n}\n",
    "named_ptr_deref": "type PU *uint64\n\nfunc P3(p PU) uint64 {\n\treturn *p\n}\n",
    "nested_elided_lit": "func P4() [][]uint64 {\n\treturn [][]uint64{{}}\n}\n",
    "five_results": "func five() (uint64, uint64, uint64, uint64, uint64) {\n\treturn 1, 2, 3, 4, 5\n}\n\nfunc P5() uint64 {\n\ta, b, c, d, e := five()\n\treturn a + b + c + d + e\n}\n",
    "five_results_parenthesised": "func five4() (uint64, uint64, uint64, uint64, uint64) {\n\treturn 1, 2, 3, 4, 5\n}\n\nfunc P5d() uint64 {\n\ta, b, c, d, e := (five4())\n\treturn a + b + c + d + e\n}\n",
    "five_results_assign_parenthesised": "func five5() (uint64, uint64, uint64, uint64, uint64) {\n\treturn 1, 2, 3, 4, 5\n}\n\nfunc P5e() uint64 {\n\tvar a uint64\n\tvar b uint64\n\tvar c uint64\n\tvar d uint64\n\tvar e uint64\n\ta, b, c, d, e = (five5())\n\treturn a + b + c + d + e\n}\n",
    "five_results_function_type": "type Five func() (uint64, uint64, uint64, uint64, uint64)\n\nfunc P5f(f Five) uint64 {\n\ta, b, c, d, e := f()\n\treturn a + b + c + d + e\n}\n",
    "five_results_blank": "func five2() (uint64, uint64, uint64, uint64, uint64) {\n\treturn 1, 2, 3, 4, 5\n}\n\nfunc P5b() uint64 {\n\ta, b, c, d, _ := five2()\n\treturn a + b + c + d\n}\n",
    "five_results_all_blank": "func five3() (uint64, uint64, uint64, uint64, uint64) {\n\treturn 1, 2, 3, 4, 5\n}\n\nfunc P5c() {\n\t_, _, _, _, _ = five3()\n}\n",
    "mutual_recursion": "func isEven(n uint64) bool {\n\tif n == 0 {\n\t\treturn true\n\t}\n\treturn isOdd(n - 1)\n}\n\nfunc isOdd(n uint64) bool {\n\tif n == 0 {\n\t\treturn false\n\t}\n\treturn isEven(n - 1)\n}\n",
    "copy_named_slice": "type BS []byte\n\nfunc P6(d BS, s []byte) {\n\tcopy(d, s)\n}\n",
    "error_method": "func mkerr() error {\n\treturn nil\n}\n\nfunc P7() string {\n\treturn mkerr().Error()\n}\n",
    "user_len_noargs": "func len2() uint64 {\n\treturn 0\n}\n\nfunc P8() uint64 {\n\treturn len2()\n}\n",
    "empty_var_block": "func P9() uint64 {\n\tvar ()\n\treturn 1\n}\n",
    "empty_type_block": "type ()\n",
    "anon_struct_method_field": "var G struct{ g func() uint64 }\n\nfunc P10() uint64 {\n\treturn G.g()\n}\n",
    "type_param_method": "func P11[T interface{ M() uint64 }](x T) uint64 {\n\treturn x.M()\n}\n",
    "panic_nonstring": "func P12() {\n\tpanic(1)\n}\n",
    "panic_const": "const pc uint64 = 3\n\nfunc P13() {\n\tpanic(pc)\n}\n",
    "array_slice": "func P14(a [4]uint64) []uint64 {\n\treturn a[1:]\n}\n",
    "array_index": "func P15(a [4]uint64) uint64 {\n\treturn a[1]\n}\n",
    "method_value": "type TT struct{}\n\nfunc (t TT) M() uint64 {\n\treturn 1\n}\n\nfunc P16(t TT) func() uint64 {\n\treturn t.M\n}\n",
    "chan_ops": "func P17(c chan uint64) uint64 {\n\treturn <-c\n}\n",
    "select_stmt": "func P18(c chan uint64) {\n\tselect {\n\tcase <-c:\n\tdefault:\n\t}\n}\n",
    "defer_stmt": "func P19() {\n\tdefer func() {}()\n}\n",
    "labeled": "func P20() {\nL:\n\tfor {\n\t\tbreak L\n\t}\n}\n",
    "goto_stmt": "func P21() {\n\tgoto E\nE:\n}\n",
    "switch_type": "func P22(x interface{}) uint64 {\n\tswitch x.(type) {\n\tcase uint64:\n\t\treturn 1\n\t}\n\treturn 0\n}\n",
    "map_lit": "func P23() map[uint64]uint64 {\n\treturn map[uint64]uint64{1: 2}\n}\n",
    "float_lit": "func P24() float64 {\n\treturn 1.5\n}\n",
    "rune_lit": "func P25() rune {\n\treturn 'a'\n}\n",
    "neg_const": "const Neg = -1\n",
    "iota_consts": "const (\n\tA0 = iota\n\tA1\n)\n",
    "multi_var": "var X1, Y1 uint64 = 1, 2\n",
    "embedded": "type Base struct {\n\ta uint64\n}\n\ntype Derived struct {\n\tBase\n\tb uint64\n}\n",
    "variadic": "func P26(xs ...uint64) uint64 {\n\treturn uint64(len(xs))\n}\n\nfunc P27() uint64 {\n\treturn P26(1, 2)\n}\n",
    "closure_rec": "func P28() uint64 {\n\tvar f func(uint64) uint64\n\tf = func(n uint64) uint64 {\n\t\tif n == 0 {\n\t\t\treturn 0\n\t\t}\n\t\treturn f(n - 1)\n\t}\n\treturn f(3)\n}\n",
    "struct_compare": "type Pt struct {\n\tx uint64\n}\n\nfunc P29(a Pt, b Pt) bool {\n\treturn a == b\n}\n",
    "interface_embed": "type I1 interface {\n\tM() uint64\n}\n\ntype I2 interface {\n\tI1\n\tN() uint64\n}\n",
    "func_type_decl": "type Fn func(uint64) uint64\n",
    "generic_struct": "type Box[T any] struct {\n\tv T\n}\n",
    "const_expr": "const KB uint64 = 1 << 10\n",
    "string_index": "func P30(s string) byte {\n\treturn s[0]\n}\n",
    "complex_lhs": "func P31(m map[uint64][]uint64) {\n\tm[1][0] = 2\n}\n",
    "ptr_to_slice_elem": "func P32(s []uint64) *uint64 {\n\treturn &s[0]\n}\n",
    "address_of_lit_field": "type Q struct {\n\ta uint64\n}\n\nfunc P33() *uint64 {\n\tq := &Q{a: 1}\n\treturn &q.a\n}\n",
    "nil_map": "func P34() map[uint64]uint64 {\n\treturn nil\n}\n",
    "nil_func": "func P35() func() {\n\treturn nil\n}\n",
    "bodyless": "func P36() uint64\n",
    "init_func": "func init() {\n}\n",
    "blank_func": "func _() {\n}\n",
    "recv_generic": "type GL[T any] struct{}\n\nfunc (g GL[T]) M() {\n}\n",
}

BAD_TEMPLATES = [
    ("unsupported", "func Bad%d(s []uint64) []uint64 {\n\treturn s[0:1:2]\n}\n"),
    ("todo", "func Bad%d(x uint64) uint64 {\n\tswitch x {\n\tcase 1:\n\t\treturn 2\n\t}\n\treturn 3\n}\n"),
    ("future", "func Bad%d(x uint64) uint64 {\n\tif x == 0 {\n\t\treturn 1\n\t} else {\n\t\tx = 2\n\t}\n\treturn x\n}\n"),
    ("future", "func Bad%d(a bool, b bool) uint64 {\n\tif a {\n\t\treturn 1\n\t} else if b {\n\t\treturn 2\n\t}\n\treturn 3\n}\n"),
    # several declarations that fail on the SAME type: each error belongs to its own declaration
    ("todo", "func Bad%d(x int) uint64 {\n\treturn 1\n}\n"),
    ("unsupported", "func Bad%d(y float64) uint64 {\n\treturn 2\n}\n"),
    ("todo", "type Bad%d struct {\n\tf int\n}\n"),
]
GOOD_TEMPLATE = "func Good%d(x uint64) uint64 {\n\treturn x + %d\n}\n"


def parse_errors(stderr):
    """[(category, message, file, line)] — an error starts at a line `[category]: …` (possibly prefixed by
    `conversion failed: `) and ends at its `  src: file:line:col` line; the quoted Go code in between may
    contain anything, including blank lines."""
    out = []
    cur = None
    for l in stderr.split("\n"):
        m = ERR_RE.match(l)
        if m and cur is None:
            cur = [m.group(1), m.group(2), None, None]
            continue
        if cur is not None:
            ms = SRC_RE.match(l)
            if ms:
                cur[2], cur[3] = ms.group(1), int(ms.group(2))
                out.append(tuple(cur))
                cur = None
            elif l.startswith("  src: "):
                out.append(tuple(cur))       # a src line without a usable position
                cur = None
            continue
        if l.strip() and not re.match(r"^\d+ errors$", l) and ("could not load package" in l or "patterns matched no packages" in l):
            out.append(("?", l[:200], None, None))
    if cur is not None:
        out.append(tuple(cur))
    return out


CRASH_RE = re.compile(r"^goroutine \d+ \[", re.M)


def is_crash(rc, stderr):
    return rc not in (0, 1) or (CRASH_RE.search(stderr) is not None and re.search(r"^panic: ", stderr, re.M) is not None)


def crash_site(stderr):
    """(innermost goose frame, normalised message) of a Go panic trace."""
    msg = ""
    for l in stderr.splitlines():
        if l.startswith("fatal error:"):
            msg = l.strip()
            break
        if l.startswith("panic:"):
            msg = re.sub(r"0x[0-9a-f]+", "0x…", l[6:].strip())
            msg = re.sub(r"\[recovered\]", "", msg).strip()
            break
    frames = re.findall(r"^(github\.com/goose-lang/goose[^\s(]*)\(", stderr, re.M)
    frames = [f for f in frames if "declsOrError" not in f and "errorReporter" not in f]
    return (frames[0] if frames else "?", msg)


def std_packages(tier, seed):
    p = C.run(["go", "list", "std"], cwd=C.REPO)
    pk = [l for l in p.stdout.split() if "internal" not in l and "vendor" not in l and not l.startswith("cmd")]
    rnd = random.Random(seed)
    rnd.shuffle(pk)
    return sorted(pk[: (45 if tier == "quick" else len(pk))])


def decl_ranges(src):
    """top-level declarations of a generated file as (first line, last line) – blank-line separated chunks"""
    out, line = [], 1
    for chunk in src.split("\n\n"):
        n = chunk.count("\n") + 1
        out.append((line, line + n - 1, chunk))
        line += n + 1
    return out


def check(ctx):
    build = C.ensure_built("C07", ["translator"], extra_go=gomod.EXTRA_GO)
    scratch = C.scratch()
    found = False
    stats = collections.Counter()
    crashes = collections.OrderedDict()
    samples = []
    known = [e for e in C.load_known("C07") if e.get("status") == "known"]
    known_hits = {}

    def crash(kind, inp, stderr):
        nonlocal found
        site = crash_site(stderr)
        stats["crashes"] += 1
        for e in known:
            m = e["match"]
            if m.get("frame") == site[0] and (m.get("message") or "") in site[1]:
                known_hits[e["key"]] = e
                return
        if site in crashes:
            return
        crashes[site] = inp
        if not found:
            found = True
            ctx.violation("counterexample", "goose aborted with a Go panic (%s: %s)" % site,
                          dict(inp, proto="cli-crash"), expected="exit status 0 or 1 and structured errors",
                          observed={"frame": site[0], "panic": site[1], "trace_head": stderr[:1500]})

    def check_errors(inp, rc, stderr, files_of_pkg):
        nonlocal found
        try:
            errs = parse_errors(stderr)
        except Exception as e:  # noqa
            errs = [("?", str(e), None, None)]
        # goose ends each package's list with "<n> errors": every one of the n must have been read as a structured entry
        counts = [int(x) for x in re.findall(r"^(\d+) errors$", stderr, re.M)]
        structured = sum(1 for e in errs if e[0] != "?")
        if counts and sum(counts) != structured and not found and "could not load package" not in stderr:
            found = True
            ctx.violation("counterexample", "a conversion error is not structured: goose counts %d errors, %d of them have a category and a position" % (sum(counts), structured),
                          dict(inp, proto="cli-error"), expected="every error as `[category]: message … src: file:line:col`",
                          observed={"stderr": stderr[-1500:]})
        for cat, msg, f, line in errs:
            stats["errors_seen"] += 1
            if cat == "?" and ("could not load package" in msg or "patterns matched no packages" in msg):
                continue
            bad = None
            if cat not in CATEGORIES:
                bad = "category %r is not one of the documented ones" % cat
            elif f is None or line is None or line < 1:
                bad = "no source position"
            elif files_of_pkg is not None and os.path.abspath(f) not in files_of_pkg:
                bad = "position %s is outside the package" % f
            if bad and not found:
                found = True
                ctx.violation("counterexample", "a conversion error is not structured / located: " + bad,
                              dict(inp, proto="cli-error"), expected="[category]: message … src: file:line:col inside the offending declaration",
                              observed={"error": [cat, msg, f, line], "stderr_tail": stderr[-600:]})
        return errs
    try:
        # (a) the standard library
        for pkg in std_packages(ctx.tier, ctx.seed):
            rc, out, err = gomod.run_goose(C.REPO, [], [pkg], out=os.path.join(scratch, "out"))
            stats["std_packages"] += 1
            if is_crash(rc, err):
                crash("std", {"package": pkg}, err)
            else:
                check_errors({"package": pkg}, rc, err, None)
        # (b) probes, each in its own package, under every flag that changes the path through the translator
        for name, src in PROBES.items():
            for flags in ([], ["-skip-interfaces"], ["-typecheck", "-ignore-errors"]):
                root = os.path.join(scratch, "m")
                gomod.write_module(root, {"p": {"p.go": "package p\n\n" + src}})
                rc, out, err = gomod.run_goose(root, flags, ["./p"])
                stats["probe_runs"] += 1
                inp = {"probe": name, "flags": flags, "source": "package p\n\n" + src}
                if is_crash(rc, err):
                    crash("probe", inp, err)
                else:
                    check_errors(inp, rc, err, {os.path.join(root, "p", "p.go")})
        # (c) several failing declarations among good ones: every failing declaration reported once,
        #     positioned inside it; good ones still emitted
        rnd = random.Random(ctx.seed)
        for k in range(12 if ctx.tier == "quick" else 200):
            decls, kinds = [], []
            # every fourth package is large: more failing declarations than any small limit on the error list
            for i in range(rnd.randrange(3, 9) if k % 4 else rnd.randrange(24, 40)):
                if rnd.random() < 0.5:
                    cat, t = rnd.choice(BAD_TEMPLATES) if rnd.random() < 0.7 else BAD_TEMPLATES[0]
                    decls.append(t % i)
                    kinds.append(cat)
                else:
                    decls.append(GOOD_TEMPLATE % (i, i))
                    kinds.append(None)
            # the declarations are spread over one to three files of the package (an error is located in ITS file)
            nfiles = 1 + k % 3
            owner = [rnd.randrange(nfiles) for _ in decls]
            fnames = ["p.go", "a_first.go", "z_last.go"][:nfiles]
            srcs = {fn: "package p\n\n" + "\n".join(d for d, o in zip(decls, owner) if o == fi) for fi, fn in enumerate(fnames)}
            src = "\n".join("// ---- %s\n%s" % (fn, t) for fn, t in srcs.items())
            root = os.path.join(scratch, "m")
            gomod.write_module(root, {"p": srcs})
            rc, out, err = gomod.run_goose(root, ["-ignore-errors"], ["./p"])
            stats["independence_runs"] += 1
            stats["independence_files"] += nfiles
            inp = {"files": srcs, "flags": ["-ignore-errors"]}
            if is_crash(rc, err):
                crash("independence", inp, err)
                continue
            errs = check_errors(inp, rc, err, {os.path.join(root, "p", fn) for fn in fnames})
            problem = None
            outp = os.path.join(root, "Goose", "example_com", "m", "p.v")
            text = open(outp).read() if os.path.exists(outp) else ""
            for fi, fn in enumerate(fnames):
                fpath = os.path.join(root, "p", fn)
                ranges = decl_ranges(srcs[fn])[1:]
                fkinds = [kd for kd, o in zip(kinds, owner) if o == fi]
                for (lo, hi, chunk), kind in zip(ranges, fkinds):
                    here = [e for e in errs if e[3] is not None and e[2] is not None and os.path.abspath(e[2]) == fpath and lo <= e[3] <= hi]
                    if kind is None and here:
                        problem = "a translatable declaration (%s lines %d-%d) got errors %s" % (fn, lo, hi, here)
                    if kind is not None and len(here) != 1:
                        problem = "declaration at %s lines %d-%d fails but has %d errors located in it" % (fn, lo, hi, len(here))
                    elif kind is not None and here[0][0] != kind:
                        problem = "declaration at %s lines %d-%d: category %s, expected %s" % (fn, lo, hi, here[0][0], kind)
                    m = re.search(r"func (\w+)\(", chunk)
                    if kind is None and m and ("Definition %s:" % m.group(1)) not in text:
                        problem = "good declaration %s is missing from the partial output" % m.group(1)
            if (rc == 0) != (not any(kinds)):
                problem = "exit status %d with failing declarations %s" % (rc, [k for k in kinds if k])
            if problem and not found:
                found = True
                ctx.violation("counterexample", "errors of independent declarations are not reported independently",
                              dict(inp, proto="cli-error"), expected="one located error per failing declaration; other declarations translated",
                              observed={"problem": problem, "stderr": err[-1500:]})
            if len(samples) < 1:
                samples.append({"source": src[:600], "errors": [e[:2] + (e[3],) for e in errs]})
        # (d) many failing packages in ONE invocation (the per-package workers report errors at the same time):
        #     no crash, and every package's error count is what it is alone
        npk, nbad = (6, 150) if ctx.tier == "quick" else (12, 600)
        many = {}
        for pi in range(npk):
            body = "".join(BAD_TEMPLATES[(pi + j) % len(BAD_TEMPLATES)][1] % j + "\n" for j in range(nbad))
            many["w%d" % pi] = {"p.go": "package w%d\n\n" % pi + body}
        root = os.path.join(scratch, "many")
        gomod.write_module(root, many)
        for rep in range(3 if ctx.tier == "quick" else 10):
            rc, out, err = gomod.run_goose(root, ["-ignore-errors"], ["./..."], env_extra={"GOMAXPROCS": str([16, 4, 2][rep % 3])})
            stats["many_package_runs"] += 1
            inp = {"packages": "%d packages w0..w%d, each %d failing declarations cycling through the failing templates" % (npk, npk - 1, nbad),
                   "templates": [t for _, t in BAD_TEMPLATES], "flags": ["-ignore-errors"], "patterns": ["./..."]}
            if is_crash(rc, err) or "fatal error" in err:
                crash("many-packages", inp, err)
                break
            counts = [int(x) for x in re.findall(r"^(\d+) errors$", err, re.M)]
            if sorted(counts) != [nbad] * npk and not found:
                found = True
                ctx.violation("counterexample", "errors are lost when several failing packages are translated in one invocation",
                              dict(inp, proto="cli-error"), expected="%d packages × %d errors" % (npk, nbad), observed={"error_counts": counts, "exit": rc, "stderr_tail": err[-800:]})
        shutil.rmtree(root, ignore_errors=True)
        # (f) termination on long but ordinary code: a dispatch function written as a sequence of early returns (goose has no switch)
        #     nests one conditional per return in the else branch of the previous one; so does an else-if chain
        nret = 64
        disp = ("func dispatch(op uint64) uint64 {\n" + "".join("\tif op == %d {\n\t\treturn %d\n\t}\n" % (i, i * 7 + 1) for i in range(nret)) + "\treturn 0\n}\n\n"
                "func chain(op uint64) uint64 {\n\tvar r uint64 = 0\n\tif op == 0 {\n\t\tr = 1\n\t}" + "".join(" else if op == %d {\n\t\tr = %d\n\t}" % (i, i + 2) for i in range(1, nret)) + "\n\treturn r\n}\n")
        root = os.path.join(scratch, "long")
        gomod.write_module(root, {"p": {"p.go": "package p\n\n" + disp}})
        inp = {"source": "package p with dispatch: %d early returns `if op == i { return … }` in a row, and chain: an else-if chain of %d arms" % (nret, nret), "flags": []}
        try:
            import time as _t
            t0 = _t.time()
            rc, out, err = gomod.run_goose(root, [], ["./p"], timeout=120)
            stats["long_function_seconds"] = round(_t.time() - t0, 2)
            if is_crash(rc, err):
                crash("long-function", inp, err)
            else:
                check_errors(inp, rc, err, None)
                if rc != 0 and not found:
                    found = True
                    ctx.violation("counterexample", "goose rejects a long sequence of early returns / a long else-if chain", dict(inp, proto="cli-error"), expected="translated", observed={"exit": rc, "stderr_tail": err[-600:]})
        except subprocess.TimeoutExpired:
            if not found:
                found = True
                ctx.violation("counterexample", "goose does not terminate (120 s) on a type-correct package of two ordinary functions",
                              dict(inp, proto="cli-error", go_source=disp[:600] + " …"), expected="complete output or structured errors", observed="no result after 120 s")
        shutil.rmtree(root, ignore_errors=True)
        # (e) whole-package refusals: a type-correct package that goose does not translate at all (it reaches two FFIs, directly or
        #     through a dependency) is refused with a structured, located error too, and its neighbours are still translated
        two = {"direct": {"p.go": "package direct\n\nimport (\n\t\"github.com/goose-lang/goose/machine/async_disk\"\n\t\"github.com/goose-lang/goose/machine/disk\"\n)\n\n"
                                  "func Sizes(d disk.Disk, a async_disk.Disk) uint64 {\n\treturn d.Size() + a.Size()\n}\n"},
               "viadep": {"p.go": "package viadep\n\nimport (\n\t\"example.com/m/leafdisk\"\n\t\"github.com/mit-pdos/gokv/grove_ffi\"\n)\n\n"
                                  "func Both() uint64 {\n\treturn leafdisk.Blocks() + grove_ffi.Token()\n}\n"},
               "leafdisk": {"p.go": "package leafdisk\n\nimport \"github.com/goose-lang/goose/machine/disk\"\n\nfunc Blocks() uint64 {\n\treturn disk.Size()\n}\n"},
               "plain": {"p.go": "package plain\n\nfunc One() uint64 {\n\treturn 1\n}\n"}}
        root = os.path.join(scratch, "two")
        gomod.write_module(root, two)
        for flags, pats in (([], ["./direct"]), ([], ["./viadep"]), (["-ignore-errors"], ["./..."]), ([], ["./..."])):
            rc, out, err = gomod.run_goose(root, flags, pats)
            stats["refusal_runs"] += 1
            inp = {"packages": two, "flags": flags, "patterns": pats}
            if is_crash(rc, err) or "fatal error" in err:
                crash("refusal", inp, err)
                continue
            errs = check_errors(inp, rc, err, None)
            refused = [pk for pk in ("direct", "viadep") if pats == ["./..."] or pats == ["./" + pk]]
            located = {os.path.basename(os.path.dirname(f)) for cat, msg, f, line in errs if cat in CATEGORIES and f}
            if "could not load" in err or "patterns matched no" in err:
                raise C.Infra("the refusal scenario does not load: " + err[-400:])
            missing = [pk for pk in refused if pk not in located]
            if missing and not found:
                found = True
                ctx.violation("counterexample", "a type-correct package is refused without a structured, located error",
                              dict(inp, proto="cli-error"), expected="for each refused package an error `[category]: … src: file:line:col` inside that package",
                              observed={"refused_without_structured_error": missing, "exit": rc, "stderr_tail": err[-800:]})
            if pats == ["./..."]:
                tr = gomod.tree(os.path.join(root, "Goose"))
                if not any(rel.endswith("plain.v") for rel in tr) and not found:
                    found = True
                    ctx.violation("counterexample", "a refused package stops its neighbours from being translated",
                                  dict(inp, proto="cli-error"), expected="plain.v and leafdisk.v are written", observed={"files": sorted(tr), "stderr_tail": err[-600:]})
            shutil.rmtree(os.path.join(root, "Goose"), ignore_errors=True)
        shutil.rmtree(root, ignore_errors=True)
    finally:
        shutil.rmtree(scratch, ignore_errors=True)
    for k, e in known_hits.items():
        ctx.known("%s — %s" % (k, e["what"]))
    C.report_broken_obligations(ctx, build, found)
    ctx.coverage.update({
        "evaluations": stats["std_packages"] + stats["probe_runs"] + stats["independence_runs"],
        "distinct_nontrivial": stats["std_packages"] + len(PROBES) + stats["independence_runs"],
        "rule": "goose run on (a) a seeded sample of standard-library packages (all of them in the thorough tier), (b) %d probe declarations aimed at "
                "the raw-panic inventory and the out-of-subset catalogue, each under three flag sets, (c) generated packages mixing translatable "
                "declarations with declarations failing in known categories; distinct = packages + probes + generated packages" % len(PROBES),
        "samples": samples,
        "stats": dict(stats),
        "crash_sites_seen": [list(k) for k in crashes],
    })
    if ctx.tier == "thorough" and not build.broken:
        ok, out = C.leanchecker("GooseVerif.Props.C07")
        ctx.coverage["leanchecker"] = "ok" if ok else out
    ctx.assumptions += [
        "go/packages + go/types accept exactly the type-correct packages; the standard library stands in for 'arbitrary Go'",
        "a crash is recognised by exit status 2 / a goroutine trace on stderr",
    ]
    return ctx.finish(build)


def replay(ctx, path):
    return check(ctx)
