"""K4: end-to-end differential — native Go vs the Lean reference interpreter on the .v text that the
REAL goose emits for the same package."""
import os
import re
import shutil
import subprocess

import common as C
import gomod


def split_files(files):
    pk = {}
    for k, v in files.items():
        d, f = os.path.split(k)
        pk.setdefault(d, {})[f] = v
    return pk


def native(root, timeout=120):
    p = subprocess.run(["go", "run", "./cmd"], cwd=root, env=C.GOENV, stdout=subprocess.PIPE, stderr=subprocess.PIPE, text=True, timeout=timeout)
    if p.returncode != 0:
        return None, p.stderr[-2000:]
    res = {}
    for l in p.stdout.splitlines():
        lab, _, val = l.partition(" ")
        res[lab] = val
    return res, ""


def translate(root, pkgdir="p", flags=("-ignore-errors",)):
    rc, out, err = gomod.run_goose(root, list(flags), ["./" + pkgdir])
    path = os.path.join(root, "Goose", "example_com", "m", pkgdir.replace("-", "_").replace(".", "_") + ".v")
    text = open(path).read() if os.path.exists(path) else None
    return rc, err, text


def gl_session(text, queries):
    """queries: list of protocol lines after `load`. Returns the replies."""
    ops = ["load " + (text.encode().hex() or "-")] + queries
    p = C.run([C.DRIVER, "gl"], input="\n".join(ops) + "\n", env=os.environ.copy(), timeout=600)
    out = p.stdout.splitlines()
    if p.returncode != 0 or len(out) != len(ops):
        raise C.Infra("gl driver failed: rc=%d, %d replies for %d ops: %s" % (p.returncode, len(out), len(ops), p.stderr[-500:]))
    return out


def unhex(reply):
    w = reply.split(" ", 1)
    if len(w) == 2 and w[0] in ("stuck", "parse-error"):
        try:
            return w[0] + " " + bytes.fromhex(w[1]).decode(errors="replace")
        except ValueError:
            return reply
    return reply


def run_package(files, calls, scratch, keep=False):
    """Returns a dict: native results, translation errors, per-call GL results, mismatches."""
    root = os.path.join(scratch, "m")
    gomod.write_module(root, split_files(files))
    nat, nerr = native(root)
    if nat is None:
        raise C.Infra("generated package does not build/run natively: " + nerr)
    rc, gerr, text = translate(root)
    res = {"native": nat, "goose_rc": rc, "goose_stderr": gerr, "text": text, "calls": [], "mismatches": [], "rejected": [], "parse_error": None}
    if text is None:
        res["parse_error"] = "no output file"
        return res
    replies = gl_session(text, ["names"] + ["eval %s %s" % (fn, " ".join(args)) for _, fn, args in calls])
    if replies[0].startswith("parse-error"):
        res["parse_error"] = unhex(replies[0])
        return res
    names = set(replies[1][6:].split(",")) if replies[1] != "names -" else set()
    for (label, fn, args), rep in zip(calls, replies[2:]):
        want = nat.get(label)
        got = unhex(rep)
        res["calls"].append((label, want, got))
        if fn not in names:
            if fn not in res["rejected"]:
                res["rejected"].append(fn)
            continue
        if want == "gopanic":
            continue          # outside the quantifier (Go panics)
        if got != "value " + want:
            res["mismatches"].append({"call": label, "fn": fn, "args": args, "go": want, "gl": got})
    if not keep:
        shutil.rmtree(root, ignore_errors=True)
    return res


def func_source(files, fn):
    src = files["p/p.go"]
    m = re.search(r"^func %s\(.*?^}\n" % re.escape(fn), src, re.S | re.M)
    return m.group(0) if m else None
