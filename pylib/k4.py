"""K4: end-to-end differential — native Go vs the Lean reference interpreter on the .v text that the
REAL goose emits for the same package."""
import os
import re
import shutil
import subprocess

import common as C
import gomod


def split_files(files):
    pk = {}
    for k, v in files.items():
        d, f = os.path.split(k)
        pk.setdefault(d, {})[f] = v
    return pk


def native(root, timeout=120):
    p = subprocess.run(["go", "run", "./cmd"], cwd=root, env=C.GOENV, stdout=subprocess.PIPE, stderr=subprocess.PIPE, text=True, timeout=timeout)
    if p.returncode != 0:
        return None, p.stderr[-2000:]
    res = {}
    for l in p.stdout.splitlines():
        lab, _, val = l.partition(" ")
        res[lab] = val
    return res, ""


def translate(root, pkgdir="p", flags=("-ignore-errors",)):
    rc, out, err = gomod.run_goose(root, list(flags), ["./" + pkgdir])
    path = os.path.join(root, "Goose", "example_com", "m", pkgdir.replace("-", "_").replace(".", "_") + ".v")
    text = open(path).read() if os.path.exists(path) else None
    return rc, err, text


def gl_session(text, queries, timeout=600):
    """queries: list of protocol lines after `load`. Returns the replies."""
    ops = ["load " + (text.encode().hex() or "-")] + queries
    p = C.run([C.DRIVER, "gl"], input="\n".join(ops) + "\n", env=os.environ.copy(), timeout=timeout)
    out = p.stdout.splitlines()
    if p.returncode != 0 or len(out) != len(ops):
        raise C.Infra("gl driver failed: rc=%d, %d replies for %d ops: %s" % (p.returncode, len(out), len(ops), p.stderr[-500:]))
    return out


def go_toplevel_names(src):
    """names declared at top level of a gofmt-style source file (functions, types, constants, variables; no methods)"""
    names = set(re.findall(r"^(?:func|type) (\w+)", src, re.M))
    for m in re.finditer(r"^(?:const|var) ([\w, ]+?)(?: [\w\[\]*.]+)?(?: =.*)?$", src, re.M):
        names |= {n.strip() for n in m.group(1).split(",")}
    for m in re.finditer(r"^(?:const|var) \(\n(.*?)^\)", src, re.M | re.S):
        for l in m.group(1).split("\n"):
            mm = re.match(r"\t([\w, ]+?)(?: [\w\[\]*.]+)?(?: =.*)?$", l)
            if mm:
                names |= {n.strip() for n in mm.group(1).split(",")}
    return names


def uses_of(text, names):
    if not names:
        return {}
    reps = gl_session(text, ["uses " + n for n in sorted(names)])[1:]
    uses = {}
    for n, rep in zip(sorted(names), reps):
        uses[n] = set(rep[5:].split(",")) if rep.startswith("uses ") and rep != "uses -" else set()
    return uses


def tainted_by_rejection(uses, names, fns):
    """functions of the emitted file that (transitively) mention a function that was rejected"""
    missing = {f for f in fns if f not in names}
    bad = set()
    changed = True
    while changed:
        changed = False
        for n, us in uses.items():
            if n not in bad and (us & missing or us & bad):
                bad.add(n)
                changed = True
    return bad


def unhex(reply):
    w = reply.split(" ", 1)
    if len(w) == 2 and w[0] in ("stuck", "parse-error"):
        try:
            return w[0] + " " + bytes.fromhex(w[1]).decode(errors="replace")
        except ValueError:
            return reply
    return reply


def run_package(files, calls, scratch, keep=False):
    """Returns a dict: native results, translation errors, per-call GL results, mismatches."""
    root = os.path.join(scratch, "m")
    gomod.write_module(root, split_files(files))
    nat, nerr = native(root)
    if nat is None:
        raise C.Infra("generated package does not build/run natively: " + nerr)
    rc, gerr, text = translate(root)
    res = {"native": nat, "goose_rc": rc, "goose_stderr": gerr, "text": text, "calls": [], "mismatches": [], "rejected": [], "parse_error": None,
           "order_violations": [], "duplicates": [], "arity_violations": []}
    if text is None:
        res["parse_error"] = "no output file"
        return res
    replies = gl_session(text, ["names", "arity"] + ["eval %s %s" % (fn, " ".join(args)) for _, fn, args in calls])
    if replies[0].startswith("parse-error"):
        res["parse_error"] = unhex(replies[0])
        return res
    # a call of a function of this file with another number of arguments than it takes: the text does not nest as the source does
    ar = replies.pop(2)
    res["arity_violations"] = [] if ar in ("arity -", "bad-op") else [dict(zip(("inside", "callee", "arguments", "takes"), x.split(":"))) for x in ar[6:].split(",")]
    order = replies[1][6:].split(",") if replies[1] != "names -" else []
    names = set(order)
    fns = sorted({fn for _, fn, _ in calls} | go_toplevel_names(files["p/p.go"]))
    uses = uses_of(text, names)
    tainted = tainted_by_rejection(uses, names, fns)
    res["tainted"] = tainted
    # Coq reads the file top to bottom: a definition may only mention same-file definitions above it
    pos = {}
    for i, n in enumerate(order):
        pos.setdefault(n, i)
    res["duplicates"] = sorted({n for n in order if order.count(n) > 1})
    res["order_violations"] = [(n, u) for n in order for u in sorted(uses.get(n, ())) if u in pos and pos[u] >= pos[n]]
    for (label, fn, args), rep in zip(calls, replies[2:]):
        want = nat.get(label)
        got = unhex(rep)
        res["calls"].append((label, want, got))
        if fn not in names:
            if fn not in res["rejected"]:
                res["rejected"].append(fn)
            continue
        if want == "gopanic":
            continue          # outside the quantifier (Go panics)
        if fn in tainted:
            continue          # mentions a declaration that was rejected (only with -ignore-errors)
        if got != "value " + want:
            res["mismatches"].append({"call": label, "fn": fn, "args": args, "go": want, "gl": got})
    if not keep:
        shutil.rmtree(root, ignore_errors=True)
    return res


def func_source(files, fn):
    src = files["p/p.go"]
    m = re.search(r"^func %s\(.*?^}\n" % re.escape(fn), src, re.S | re.M)
    return m.group(0) if m else None


def emitted_def(text, fn):
    m = re.search(r"^Definition %s(?=[ :(]).*?\.\n(?=\n|\Z)" % re.escape(fn), text or "", re.S | re.M)
    return m.group(0) if m else None


def campaign(seeds, scratch, make, workers=12):
    """Run `make(seed) -> (files, calls)` through run_package for every seed, in parallel.
    Yields (seed, files, calls, result)."""
    import concurrent.futures

    def one(seed):
        files, calls = make(seed)
        sub = os.path.join(scratch, "s%d" % seed)
        os.makedirs(sub, exist_ok=True)
        try:
            return seed, files, calls, run_package(files, calls, sub)
        finally:
            shutil.rmtree(sub, ignore_errors=True)
    with concurrent.futures.ThreadPoolExecutor(max_workers=workers) as ex:
        for res in ex.map(one, list(seeds)):
            yield res


def single_function_package(files, fn, calls):
    """The package reduced to `fn`, the declarations it needs, and the runner calls for `fn` only
    (first step of shrinking: most mistranslations are local to one function)."""
    src = files["p/p.go"]
    decls = re.split(r"\n(?=func |type )", src)
    head, decls = decls[0], decls[1:]
    keep = []
    names = {}
    for d in decls:
        m = re.match(r"func (?:\([^)]*\) )?(\w+)|type (\w+)", d)
        names[m.group(1) or m.group(2)] = d
    need, todo = set(), [fn]
    while todo:
        n = todo.pop()
        if n in need or n not in names:
            continue
        need.add(n)
        for other in names:
            if other not in need and re.search(r"\b%s\b" % re.escape(other), names[n]):
                todo.append(other)
    for d in decls:
        m = re.match(r"func (?:\([^)]*\) )?(\w+)|type (\w+)", d)
        if (m.group(1) or m.group(2)) in need:
            keep.append(d)
    body = "\n".join(keep)
    if "machine." not in body:
        head = head.replace('import "github.com/goose-lang/goose/machine"\n', "")
    run = files["p/run.go"]
    pre, _, rest = run.partition("func RunAll() {\n")
    lines = [l for l in rest.split("\n") if re.search(r'call\("%s#' % re.escape(fn), l)]
    out = dict(files)
    out["p/p.go"] = head + "\n" + body + "\n"
    out["p/run.go"] = pre + "func RunAll() {\n" + "\n".join(lines) + "\n}\n"
    return out, [c for c in calls if c[1] == fn]


# listed as failing by the repository because Perennial's executable interpreter lacks the string primitives,
# not because the GooseLang semantics differs from Go
MAY_PASS = {"failing_testStringAppend", "failing_testStringLength"}


def calibrate():
    """K3: the repository's own semantics suite, as frozen in semantics.gold.v, evaluated by the Lean
    interpreter: every test* function must evaluate to #true, no failing_test* function may.
    Returns (ntests, nfailing, problems)."""
    path = os.path.join(C.REPO, "internal", "examples", "semantics", "semantics.gold.v")
    text = open(path).read()
    reps = gl_session(text, ["names"])
    if reps[0].startswith("parse-error"):
        return 0, 0, ["semantics.gold.v does not parse: " + unhex(reps[0])]
    names = reps[1][6:].split(",")
    tests = [n for n in names if re.match(r"test[A-Z0-9]", n)]
    failing = [n for n in names if n.startswith("failing_test")]
    out = gl_session(text, ["eval " + n for n in tests + failing])[1:]
    problems = []
    for n, rep in zip(tests + failing, out):
        ok = rep == "value true"
        if n in tests and not ok:
            problems.append("%s evaluates to `%s`, the repository says true" % (n, unhex(rep)[:80]))
        if n in failing and ok and n not in MAY_PASS:
            problems.append("%s evaluates to true although the repository lists it as failing in GooseLang" % n)
    return len(tests), len(failing), problems
