"""Correspondence for Model/Heap.lean (struct pointers, struct values, integer cells, slices and their
aliasing): random HeapGo functions over `type T struct { a uint64; b uint64; n *T }` are written as Go,
built and run natively, and translated by the REAL goose.  Per function

 (a) the parse tree of what goose emits must be exactly what `driver heap` (Model.Heap.trGoose) prints —
     rejections included, with the same message kind;
 (b) the value native Go computes must be the value of the model's Go semantics (`driver heapgo`), of the
     model's target semantics run on the model's translation (`driver heapt`), and of the Lean interpreter
     run on the emitted text (`gl eval`);
 (c) functions built to panic: native Go panics, the model's Go semantics says `panicked`, the model's
     target semantics and the interpreter are stuck;
 (d) functions with the known shape `store-through-let-bound-value` (`v := T{…}; v.f = e`): goose accepts
     and the model's `trGoose` prints the same tree, flagged `known …`; the emitted program is stuck.

The generator executes the program while it writes it (a concrete state: scopes, objects), so that
indexes, slice bounds and dereferences are in range by construction, branch conditions are known, and the
final `return` can sum everything reachable from every visible variable.  Names come from a six-name pool
for all types, so shadowing (also with a change of type) and aliasing are constant.

Standalone:  python3 pylib/heapcorr.py <seed> <nfuncs>  [<more seeds>…]   (seed a..b for a range)
"""
import copy
import os
import random
import re
import shutil
import sys

sys.path.insert(0, os.path.dirname(os.path.abspath(__file__)))
import common as C  # noqa: E402
import gomod  # noqa: E402
import gogen  # noqa: E402
import k4  # noqa: E402
import c07  # noqa: E402

NAMES = ["x", "y", "p", "q", "s", "v"]
TYPES = ["u64", "pT", "pN", "T", "sl"]
GOTY = {"u64": "uint64", "pT": "*T", "pN": "*uint64", "T": "T", "sl": "[]uint64"}
FLD_TY = {"a": "u64", "b": "u64", "n": "pT"}


class Dead(Exception):
    pass


class State:
    """Concrete Go state: scopes (innermost last) of name -> [kind, ty, value], and objects."""

    def __init__(self):
        self.scopes = [{}]
        self.heap = []

    def lookup(self, x):
        for sc in reversed(self.scopes):
            if x in sc:
                return sc[x]
        return None

    def visible(self):
        vis = {}
        for sc in self.scopes:
            for x, ent in sc.items():
                vis[x] = ent
        return vis

    def alloc(self, obj):
        self.heap.append(obj)
        return len(self.heap) - 1


# values: ("num", n) ("pT", oid|None) ("pN", oid) ("T", a, b, n) ("sl", oid, off, len, cap)


class Gen:
    def __init__(self, r):
        self.r = r
        self.st = State()
        self.counts = {}
        self.expect = None        # None | ("reject", kind) | ("known", key) | ("panic",)
        self.want_special = None
        self.ghost = 0            # > 0 while generating a branch that is not executed

    def count(self, k):
        self.counts[k] = self.counts.get(k, 0) + 1

    # ---------- expressions: return (ast, value) and execute allocation in self.st ----------

    def vars_of(self, ty, pred=None):
        out = []
        for x, (kind, t, val) in self.st.visible().items():
            if t == ty and (pred is None or pred(val)):
                out.append(x)
        return out

    def expr(self, ty, depth=2, pred=None):
        """An expression of type `ty` whose value satisfies `pred` (a predicate on concrete values)."""
        for _ in range(8 if ty == "u64" and pred is not None else 30):
            e = self.try_expr(ty, depth)
            if e is not None and (pred is None or pred(e[1])):
                return e
            if e is not None and pred is not None:
                # roll back is not needed: failed candidates only allocated unreachable objects
                pass
        return self.fallback(ty, pred)

    def fallback(self, ty, pred):
        r = self.r
        if ty == "u64":
            ok = [n for n in range(0, 12) if pred is None or pred(("num", n))]
            if not ok:
                raise Dead()
            n = r.choice(ok)
            return ("lit", n), ("num", n)
        if ty == "pT":
            o = self.st.alloc(["T", 1, 2, None])
            return ("mk", True, [("lit", 1), ("lit", 2), None]), ("pT", o)
        if ty == "T":
            return ("mk", False, [("lit", 3), None, None]), ("T", 3, 0, None)
        if ty == "pN":
            o = self.st.alloc(["cell", 0])
            return ("new",), ("pN", o)
        if ty == "sl":
            n = r.randrange(1, 5)
            o = self.st.alloc(["arr", [0] * n])
            v = ("sl", o, 0, n, n)
            if pred is None or pred(v):
                return ("make", ("lit", n)), v
            raise Dead()
        raise Dead()

    def try_expr(self, ty, depth):
        r = self.r
        st = self.st
        c = r.randrange(10)
        vs = self.vars_of(ty)
        if vs and (depth <= 0 or c < 6):
            x = r.choice(vs)
            self.count("var")
            return ("var", x), st.lookup(x)[2]
        if depth <= 0:
            return self.fallback(ty, None)
        nonnil = lambda v: v[1] is not None  # noqa: E731
        if ty == "u64":
            k = r.randrange(9)
            if k == 0:
                return self.lit()
            if k == 1:
                a, va = self.expr("u64", depth - 1)
                b, vb = self.expr("u64", depth - 1)
                self.count("add")
                return ("+", a, b), ("num", va[1] + vb[1])
            if k == 2:
                p, vp = self.expr("pT", depth - 1, nonnil)
                f = r.choice("ab")
                self.count("loadF")
                o = st.heap[vp[1]]
                return ("sel", p, f), ("num", o[1] if f == "a" else o[2])
            if k == 3:
                v, vv = self.expr("T", depth - 1)
                f = r.choice("ab")
                self.count("getF")
                return ("sel", v, f), ("num", vv[1] if f == "a" else vv[2])
            if k == 4:
                p, vp = self.expr("pN", depth - 1)
                self.count("derefN")
                return ("deref", p), ("num", st.heap[vp[1]][1])
            if k == 5:
                s, vs_ = self.expr("sl", depth - 1, lambda v: v[3] > 0)
                i, vi = self.expr("u64", depth - 1, lambda v: v[1] < vs_[3])
                self.count("idx")
                return ("idx", s, i), ("num", st.heap[vs_[1]][1][vs_[2] + vi[1]])
            if k == 6:
                s, vs_ = self.expr("sl", depth - 1)
                self.count("len")
                return ("len", s), ("num", vs_[3])
            return self.lit()
        if ty == "pT":
            k = r.randrange(4)
            if k == 0:
                p, vp = self.expr("pT", depth - 1, nonnil)
                self.count("loadF-n")
                return ("sel", p, "n"), ("pT", st.heap[vp[1]][3])
            if k == 1:
                v, vv = self.expr("T", depth - 1)
                self.count("getF-n")
                return ("sel", v, "n"), ("pT", vv[3])
            fs, vals = self.fields(depth - 1)
            self.count("struct.new")
            o = st.alloc(["T"] + vals)
            return ("mk", True, fs), ("pT", o)
        if ty == "T":
            k = r.randrange(3)
            if k == 0:
                p, vp = self.expr("pT", depth - 1, nonnil)
                self.count("struct.load")
                o = st.heap[vp[1]]
                return ("deref", p), ("T", o[1], o[2], o[3])
            fs, vals = self.fields(depth - 1)
            self.count("struct.mk")
            return ("mk", False, fs), ("T", vals[0], vals[1], vals[2])
        if ty == "pN":
            self.count("new")
            o = st.alloc(["cell", 0])
            return ("new",), ("pN", o)
        if ty == "sl":
            k = r.randrange(5)
            if k == 0:
                n, vn = self.expr("u64", depth - 1, lambda v: v[1] <= 6)
                self.count("make")
                if vn[1] == 0:
                    return ("make", n), ("sl", None, 0, 0, 0)
                o = st.alloc(["arr", [0] * vn[1]])
                return ("make", n), ("sl", o, 0, vn[1], vn[1])
            s, vs_ = self.expr("sl", depth - 1)
            _, o, off, ln, cap = vs_
            if k == 1:
                b, vb = self.expr("u64", depth - 1, lambda v: v[1] <= cap)
                a, va = self.expr("u64", depth - 1, lambda v: v[1] <= vb[1])
                self.count("subslice")
                return ("sub", s, a, b), ("sl", o, off + va[1], vb[1] - va[1], cap - va[1])
            if k == 2:
                b, vb = self.expr("u64", depth - 1, lambda v: v[1] <= cap)
                self.count("take")
                return ("take", s, b), ("sl", o, off, vb[1], cap)
            if k == 3:
                a, va = self.expr("u64", depth - 1, lambda v: v[1] <= ln)
                self.count("skip")
                return ("skip", s, a), ("sl", o, off + va[1], ln - va[1], cap - va[1])
            return self.fallback("sl", None)
        return None

    def lit(self):
        n = self.r.choice([0, 1, 1, 2, 2, 3, 4, 5, 7])
        return ("lit", n), ("num", n)

    def fields(self, depth):
        r = self.r
        fs, vals = [], []
        for f in "abn":
            if r.random() < 0.55:
                e, v = self.expr(FLD_TY[f], depth)
                fs.append(e)
                vals.append(v[1])
            else:
                fs.append(None)
                vals.append(0 if f != "n" else None)
        return fs, vals

    # ---------- statements ----------

    def fold_into_acc(self, x):
        """`acc = acc + <something that uses x>`; executes it."""
        kind, ty, val = self.st.lookup(x)
        st = self.st
        if ty == "u64":
            use, n = ("var", x), val[1]
        elif ty == "pT":
            if val[1] is None:
                use, n = ("sel", ("mk", True, [("lit", 1), None, ("var", x)]), "a"), 1
                st.alloc(["T", 1, 0, None])
            else:
                use, n = ("sel", ("var", x), "a"), st.heap[val[1]][1]
        elif ty == "T":
            use, n = ("sel", ("var", x), "b"), val[2]
        elif ty == "pN":
            use, n = ("deref", ("var", x)), st.heap[val[1]][1]
        else:
            use, n = ("len", ("var", x)), val[3]
        acc = st.lookup("acc")
        acc[2] = ("num", acc[2][1] + n)
        return ("set", "acc", ("+", ("var", "acc"), use))

    def stmts(self, depth, n):
        r = self.r
        st = self.st
        out = []
        here = st.scopes[-1]
        for k in range(n):
            c = r.randrange(20)
            if depth == 2 and k < 4:
                c = r.randrange(5)        # a function starts with declarations, so that later statements have variables to alias
            if self.want_special == "panic" and self.expect is None and self.ghost == 0 and k >= 4 and r.random() < 0.3:
                c = 14
            try:
                if c < 5:
                    free = [x for x in NAMES if x not in here]
                    if not free:
                        continue
                    x = r.choice(free)
                    kind = "def" if r.random() < 0.5 else "var"
                    ty = r.choice(TYPES)
                    e, v = self.expr(ty, 2)
                    here[x] = [kind, ty, v]
                    out.append((kind, x, e, ty))
                    self.count(kind + ":" + ty)
                    out.append(self.fold_into_acc(x))
                    if ty == "sl" and v[3] > 0:
                        # distinct non-zero contents, so that a wrong offset is a wrong value
                        for _ in range(r.randrange(1, 3)):
                            i = r.randrange(v[3])
                            val = r.randrange(1, 10)
                            st.heap[v[1]][1][v[2] + i] = val
                            out.append(("seti", ("var", x), ("lit", i), ("lit", val)))
                elif c < 7:
                    special = self.want_special == "assign-def" and self.expect is None
                    cands = [x for x, ent in st.visible().items() if ent[0] == ("def" if special else "var") and x != "acc"]
                    if not cands:
                        continue
                    x = r.choice(cands)
                    ent = st.lookup(x)
                    e, v = self.expr(ent[1], 2)
                    ent[2] = v
                    out.append(("set", x, e))
                    self.count("assign:" + ent[1])
                    if special:
                        self.expect = ("reject", "is not assignable")
                elif c < 10:
                    out.append(self.store_field())
                elif c < 12:
                    out.append(self.store_ptr())
                elif c < 14:
                    out.append(self.store_idx())
                elif c < 15 and self.want_special == "panic" and self.expect is None:
                    out.append(self.panic_stmt())
                    self.expect = ("panic",)
                    return out, True
                elif c < 17 and depth > 0:
                    st.scopes.append({})
                    body, dead = self.stmts(depth - 1, r.randrange(1, 4))
                    st.scopes.pop()
                    out.append(("blk", body))
                    self.count("block")
                    if dead:
                        return out, True
                elif depth > 0:
                    cond, vc = self.expr("u64", 1)
                    taken = vc[1] != 0
                    other = self.ghost_branch(depth - 1) if r.random() < 0.6 else []
                    st.scopes.append({})
                    body, dead = self.stmts(depth - 1, r.randrange(1, 3))
                    st.scopes.pop()
                    out.append(("if", cond, body, other) if taken else ("if", cond, other, body))
                    self.count("if")
                    if dead:
                        return out, True
            except Dead:
                continue
        return out, False

    def ghost_branch(self, depth):
        """a branch that is not executed: generated on a copy of the state (only well-typed, otherwise arbitrary)"""
        saved_st, saved_expect = self.st, self.expect
        self.st = copy.deepcopy(saved_st)
        self.st.scopes.append({})
        want = self.want_special
        self.want_special = None if want == "panic" else want     # a panic in dead code would not panic
        self.ghost += 1
        try:
            body, _ = self.stmts(depth, self.r.randrange(1, 3))
        finally:
            self.st = saved_st
            self.want_special = want
            self.ghost -= 1
        if self.expect != saved_expect and self.expect is not None and self.expect[0] == "panic":
            self.expect = saved_expect
        return body

    def store_field(self):
        r = self.r
        st = self.st
        f = r.choice("abn")
        special = self.want_special if self.expect is None else None
        if special == "let-store":
            cands = [x for x, ent in st.visible().items() if ent[0] == "def" and ent[1] == "T"]
            if cands:
                x = r.choice(cands)
                e, v = self.expr(FLD_TY[f], 1)
                ent = st.lookup(x)
                val = list(ent[2])
                val["abn".index(f) + 1] = v[1]
                ent[2] = tuple(val)
                self.expect = ("known", "store-through-let-bound-value", self.ghost == 0)
                return ("setf", ("var", x), f, e)
        if special == "deref-store":
            p, vp = self.expr("pT", 1, lambda v: v[1] is not None)
            e, v = self.expr(FLD_TY[f], 1)
            st.heap[vp[1]]["abn".index(f) + 1] = v[1]
            self.expect = ("reject", "reference to other types of expressions")
            return ("setf", ("deref", p), f, e)
        cands = [x for x, ent in st.visible().items() if ent[0] == "var" and ent[1] == "T"]
        if cands and r.random() < 0.5:
            x = r.choice(cands)
            e, v = self.expr(FLD_TY[f], 2)
            ent = st.lookup(x)
            val = list(ent[2])
            val["abn".index(f) + 1] = v[1]
            ent[2] = tuple(val)
            self.count("storeF-var")
            return ("setf", ("var", x), f, e)
        # right to left in the model; here the value first, then the pointer (no observable difference)
        e, v = self.expr(FLD_TY[f], 2)
        p, vp = self.expr("pT", 1, lambda v: v[1] is not None)
        st.heap[vp[1]]["abn".index(f) + 1] = v[1]
        self.count("storeF-ptr")
        return ("setf", p, f, e)

    def store_ptr(self):
        r = self.r
        st = self.st
        if r.random() < 0.5:
            e, v = self.expr("T", 2)
            p, vp = self.expr("pT", 1, lambda v: v[1] is not None)
            st.heap[vp[1]][1:] = [v[1], v[2], v[3]]
            self.count("struct.store")
            return ("setp", p, e)
        e, v = self.expr("u64", 2)
        p, vp = self.expr("pN", 1)
        st.heap[vp[1]][1] = v[1]
        self.count("store-cell")
        return ("setp", p, e)

    def store_idx(self):
        st = self.st
        e, v = self.expr("u64", 2)
        s, vs_ = self.expr("sl", 1, lambda v: v[3] > 0)
        i, vi = self.expr("u64", 1, lambda v: v[1] < vs_[3])
        st.heap[vs_[1]][1][vs_[2] + vi[1]] = v[1]
        self.count("SliceSet")
        return ("seti", s, i, e)

    def panic_stmt(self):
        """a statement that panics in Go when executed"""
        r = self.r
        k = r.randrange(5)
        self.count("panic-shape-%d" % k)
        if k == 0:
            s, vs_ = self.expr("sl", 1)
            return ("set", "acc", ("idx", s, ("lit", vs_[3] + r.randrange(0, 2))))
        if k == 1:
            s, vs_ = self.expr("sl", 1)
            return ("seti", s, ("lit", vs_[3]), ("lit", 1))
        if k == 2:
            return ("set", "acc", ("sel", ("sel", ("mk", True, [("lit", 1), None, None]), "n"), "a"))
        if k == 3:
            s, vs_ = self.expr("sl", 1)
            return ("set", "acc", ("len", ("take", s, ("lit", vs_[4] + 1))))
        s, vs_ = self.expr("sl", 1)
        return ("set", "acc", ("len", ("skip", s, ("lit", vs_[3] + 1))))

    def ret_expr(self):
        """sum of everything reachable (two levels) from every visible variable"""
        st = self.st
        parts = []
        total = 0

        def struct_parts(base, a, b, n, level):
            nonlocal total
            parts.append(("sel", base, "a"))
            parts.append(("sel", base, "b"))
            total += a + b
            if n is not None and level > 0:
                o = st.heap[n]
                struct_parts(("sel", base, "n"), o[1], o[2], o[3], level - 1)
        for x, (kind, ty, val) in sorted(st.visible().items()):
            if ty == "u64":
                parts.append(("var", x))
                total += val[1]
            elif ty == "pT":
                if val[1] is not None:
                    o = st.heap[val[1]]
                    struct_parts(("var", x), o[1], o[2], o[3], 1)
            elif ty == "T":
                struct_parts(("var", x), val[1], val[2], val[3], 1)
            elif ty == "pN":
                parts.append(("deref", ("var", x)))
                total += st.heap[val[1]][1]
            else:
                _, o, off, ln, cap = val
                parts.append(("len", ("var", x)))
                total += ln
                for i in range(ln):
                    parts.append(("idx", ("var", x), ("lit", i)))
                    total += st.heap[o][1][off + i]
        e = parts[0]
        for p in parts[1:]:
            e = ("+", e, p)
        return e, total

    def program(self):
        r = self.r
        k = r.random()
        self.want_special = ("assign-def" if k < 0.05 else "let-store" if k < 0.10 else "deref-store" if k < 0.14
                             else "panic" if k < 0.22 else None)
        a0 = r.randrange(1, 4)
        self.st.scopes[-1]["acc"] = ["var", "u64", ("num", a0)]
        body = [("var", "acc", ("lit", a0), "u64")]
        more, dead = self.stmts(2, r.randrange(6, 13))
        body += more
        ret, total = self.ret_expr()
        return body, ret, total


# ---------- rendering: tokens of the line protocol ----------

def etoks(e):
    k = e[0]
    if k == "lit":
        return [str(e[1])]
    if k == "var":
        return [e[1]]
    if k == "+":
        return ["+"] + etoks(e[1]) + etoks(e[2])
    if k == "mk":
        out = ["&T" if e[1] else "T"]
        for f in e[2]:
            out += ["_"] if f is None else etoks(f)
        return out
    if k == "sel":
        return ["."] + etoks(e[1]) + [e[2]]
    if k == "deref":
        return ["*"] + etoks(e[1])
    if k == "new":
        return ["new"]
    if k in ("make", "len"):
        return [k] + etoks(e[1])
    if k in ("idx", "take", "skip"):
        return [k] + etoks(e[1]) + etoks(e[2])
    if k == "sub":
        return ["sub"] + etoks(e[1]) + etoks(e[2]) + etoks(e[3])
    raise ValueError(k)


def toks(ss, ret=None):
    parts = []
    for s in ss:
        k = s[0]
        if k in ("def", "var", "set"):
            parts.append([k, s[1]] + etoks(s[2]))
        elif k == "setf":
            parts.append(["setf"] + etoks(s[1]) + [s[2]] + etoks(s[3]))
        elif k == "setp":
            parts.append(["setp"] + etoks(s[1]) + etoks(s[2]))
        elif k == "seti":
            parts.append(["seti"] + etoks(s[1]) + etoks(s[2]) + etoks(s[3]))
        elif k == "blk":
            parts.append(["blk", "["] + toks(s[1]) + ["]"])
        else:
            parts.append(["if"] + etoks(s[1]) + ["["] + toks(s[2]) + ["]", "["] + toks(s[3]) + ["]"])
    if ret is not None:
        parts.append(["ret"] + etoks(ret))
    out = []
    for i, p in enumerate(parts):
        if i:
            out.append(";")
        out += p
    return out


# ---------- rendering: Go ----------

def go_e(e):
    k = e[0]
    if k == "lit":
        return str(e[1])
    if k == "var":
        return e[1]
    if k == "+":
        return "(%s + %s)" % (go_e(e[1]), go_e(e[2]))
    if k == "mk":
        fs = ["%s: %s" % (f, go_e(x)) for f, x in zip("abn", e[2]) if x is not None]
        return ("&T{%s}" if e[1] else "T{%s}") % ", ".join(fs)
    if k == "sel":
        return "%s.%s" % (go_operand(e[1]), e[2])
    if k == "deref":
        return "*%s" % go_operand(e[1])
    if k == "new":
        return "new(uint64)"
    if k == "make":
        return "make([]uint64, %s)" % go_e(e[1])
    if k == "idx":
        return "%s[%s]" % (go_operand(e[1]), go_e(e[2]))
    if k == "len":
        return "uint64(len(%s))" % go_e(e[1])
    if k == "sub":
        return "%s[%s:%s]" % (go_operand(e[1]), go_e(e[2]), go_e(e[3]))
    if k == "take":
        return "%s[:%s]" % (go_operand(e[1]), go_e(e[2]))
    if k == "skip":
        return "%s[%s:]" % (go_operand(e[1]), go_e(e[2]))
    raise ValueError(k)


def go_operand(e):
    """the operand of a selector, index, slice or dereference"""
    if e[0] in ("var", "sel", "idx", "make", "sub", "take", "skip", "new"):
        return go_e(e)
    return "(" + go_e(e) + ")"


def go_src(ss, ind):
    pad = "\t" * ind
    out = []
    for s in ss:
        k = s[0]
        if k == "def":
            if s[3] == "u64":
                out.append("%s%s := uint64(%s)" % (pad, s[1], go_e(s[2])))
            else:
                out.append("%s%s := %s" % (pad, s[1], go_e(s[2])))
        elif k == "var":
            out.append("%svar %s %s = %s" % (pad, s[1], GOTY[s[3]], go_e(s[2])))
        elif k == "set":
            out.append("%s%s = %s" % (pad, s[1], go_e(s[2])))
        elif k == "setf":
            out.append("%s%s.%s = %s" % (pad, go_operand(s[1]), s[2], go_e(s[3])))
        elif k == "setp":
            out.append("%s*%s = %s" % (pad, go_operand(s[1]), go_e(s[2])))
        elif k == "seti":
            out.append("%s%s[%s] = %s" % (pad, go_operand(s[1]), go_e(s[2]), go_e(s[3])))
        elif k == "blk":
            out += ["%s{" % pad] + go_src(s[1], ind + 1) + ["%s}" % pad]
        else:
            out.append("%sif %s != 0 {" % (pad, go_e(s[1])))
            out += go_src(s[2], ind + 1)
            if s[3]:
                out += ["%s} else {" % pad] + go_src(s[3], ind + 1)
            out.append("%s}" % pad)
    return out


TYPE_DECL = "type T struct {\n\ta uint64\n\tb uint64\n\tn *T\n}\n"


def run(seed, nfuncs, scratch):
    r = random.Random(seed)
    funcs = []
    counts = {}
    for i in range(nfuncs):
        g = Gen(r)
        body, ret, total = g.program()
        funcs.append(("h%d" % i, body, ret, total, g.expect))
        for k, v in g.counts.items():
            counts[k] = counts.get(k, 0) + v
    src = ["package p", "", TYPE_DECL]
    line_of = {}
    for name, body, ret, total, expect in funcs:
        start = len(src) + 1
        src.append("func %s() uint64 {" % name)
        src += go_src(body, 1)
        src.append("\treturn %s" % go_e(ret))
        src += ["}", ""]
        line_of[name] = (start, len(src))
    # line numbers: TYPE_DECL spans several lines inside one list item
    text_src = "\n".join(src)
    lines_src = text_src.split("\n")
    line_of = {}
    for name, _, _, _, _ in funcs:
        lo = lines_src.index("func %s() uint64 {" % name) + 1
        hi = lo
        while lines_src[hi - 1] != "}":
            hi += 1
        line_of[name] = (lo, hi)
    runner = [gogen.PRINTER, "func RunAll() {"] + ['\tcall("%s#0", func() string { return show(%s()) })' % (f[0], f[0]) for f in funcs] + ["}"]
    files = {"p/p.go": text_src, "p/run.go": "\n".join(runner),
             "cmd/main.go": "package main\n\nimport \"example.com/m/p\"\n\nfunc main() {\n\tp.RunAll()\n}\n"}
    root = os.path.join(scratch, "heap")
    gomod.write_module(root, k4.split_files(files))
    nat, nerr = k4.native(root)
    if nat is None:
        raise C.Infra("heapcorr: generated package does not build: " + nerr)
    rc, gerr, text = k4.translate(root)
    if text is None:
        raise C.Infra("heapcorr: goose wrote nothing: " + gerr[-500:])
    errs = c07.parse_errors(gerr)
    lines = [" ".join(toks(body, ret)) for _, body, ret, _, _ in funcs]
    model = C.driver("heap", lines)
    model_go = C.driver("heapgo", lines)
    model_t = C.driver("heapt", lines)
    reps = k4.gl_session(text, ["names"])
    if reps[0].startswith("parse-error"):
        return {"functions": nfuncs}, {"what": "emitted file does not parse", "detail": k4.unhex(reps[0])}
    emitted = set(reps[1][6:].split(",")) if reps[1] != "names -" else set()
    present = [f[0] for f in funcs if f[0] in emitted]
    canon = dict(zip(present, k4.gl_session(text, ["canon " + n for n in present])[1:]))
    evals = dict(zip(present, k4.gl_session(text, ["eval " + n for n in present])[1:]))
    stats = {"functions": nfuncs, "accepted": 0, "rejected": 0, "panicking": 0, "known_let_store": 0, "constructs": counts}
    bad = None

    def fail(**kw):
        nonlocal bad
        if bad is None:
            bad = kw
    for (name, body, ret, total, expect), line, m, mg, mt in zip(funcs, lines, model, model_go, model_t):
        lo, hi = line_of[name]
        gosrc = "\n".join(lines_src[lo - 1:hi])
        want = nat.get(name + "#0")
        if name in emitted:
            c = canon[name]
            mm = re.match(r"canon \(func %s \[\] \(rec \w+ \[5f\] (.*)\)\)$" % name, c)
            got = mm.group(1) if mm else "unreadable: " + c[:100]
            ev = k4.unhex(evals[name])
            if expect is not None and expect[0] == "reject":
                fail(what="goose accepts a function the generator built to be rejected (%s)" % expect[1], function=name, go=gosrc, line=line, model=m[:300])
                continue
            if expect is not None and expect[0] == "known":
                stats["known_let_store"] += 1
                if m != "known " + expect[1] + " " + got:
                    fail(what="known shape: the emitted tree differs from Model.Heap.trGoose", function=name, go=gosrc, line=line, model=m, goose=got)
                elif expect[2] and (not ev.startswith("stuck") or mt != "stuck"):
                    fail(what="known shape store-through-let-bound-value is no longer stuck", function=name, go=gosrc, line=line,
                         interpreter_on_emitted=ev, model_target_semantics=mt, native_go=want)
                elif not expect[2] and (want != "u64:%d" % total or want != "u64:" + mg or want != "u64:" + mt or ev != "value " + want):
                    fail(what="values differ (the known shape is in a branch that is not executed)", function=name, go=gosrc, line=line,
                         native_go=want, generator=total, model_go_semantics=mg, model_target_semantics=mt, interpreter_on_emitted=ev)
                continue
            if got != m:
                fail(what="the emitted tree differs from Model.Heap.trGoose", function=name, go=gosrc, line=line, model=m, goose=got)
                continue
            if expect is not None and expect[0] == "panic":
                stats["panicking"] += 1
                if want != "gopanic" or mg != "panicked" or mt != "stuck" or not ev.startswith("stuck"):
                    fail(what="a function built to panic", function=name, go=gosrc, line=line, native_go=want, model_go_semantics=mg,
                         model_target_semantics=mt, interpreter_on_emitted=ev)
                continue
            stats["accepted"] += 1
            if want != "u64:%d" % total:
                fail(what="the generator's own bookkeeping disagrees with native Go (generator defect)", function=name, go=gosrc, line=line,
                     native_go=want, generator=total)
            elif want != "u64:" + mg or want != "u64:" + mt or ev != "value " + want:
                fail(what="values differ", function=name, go=gosrc, line=line, native_go=want, model_go_semantics=mg,
                     model_target_semantics=mt, interpreter_on_emitted=ev)
        else:
            stats["rejected"] += 1
            msgs = [msg for cat, msg, f, ln in errs if ln is not None and lo <= ln <= hi]
            if expect is None or expect[0] != "reject":
                fail(what="goose rejects a function the generator built to be accepted", function=name, go=gosrc, line=line, goose_errors=msgs[:3], model=m[:300])
                continue
            kind = expect[1]
            ok = m.startswith("error ") and kind.replace(" ", "-") in m and any(kind in x for x in msgs)
            if not ok:
                fail(what="goose rejects (%s), the model says `%s`" % (kind, m[:200]), function=name, go=gosrc, line=line, goose_errors=msgs[:3])
    shutil.rmtree(root, ignore_errors=True)
    return stats, bad


def main(argv):
    if len(argv) < 3:
        print(__doc__)
        return 2
    seeds = []
    for a in argv[1:-1] if len(argv) > 3 else [argv[1]]:
        if ".." in a:
            lo, hi = a.split("..")
            seeds += list(range(int(lo), int(hi) + 1))
        else:
            seeds.append(int(a))
    nfuncs = int(argv[-1])
    import json
    tot = {}
    rcode = 0
    for seed in seeds:
        scratch = C.scratch("heapcorr.")
        try:
            stats, bad = run(seed, nfuncs, scratch)
        finally:
            shutil.rmtree(scratch, ignore_errors=True)
        for k, v in stats.items():
            if isinstance(v, int):
                tot[k] = tot.get(k, 0) + v
            else:
                d = tot.setdefault(k, {})
                for kk, vv in v.items():
                    d[kk] = d.get(kk, 0) + vv
        print("seed %d: %s%s" % (seed, {k: v for k, v in stats.items() if isinstance(v, int)}, "" if bad is None else "  DISAGREEMENT"))
        if bad is not None:
            print(json.dumps(bad, indent=1, ensure_ascii=False))
            rcode = 1
    print("total:", json.dumps(tot, sort_keys=True))
    return rcode


if __name__ == "__main__":
    sys.exit(main(sys.argv))
