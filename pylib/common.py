"""Shared machinery of /verif/bin/check: building, regenerating the Lean `Gen` files from
/repo, auditing theorems, running correspondences, evidence / replay / known-finding files.

Nothing here decides a property; it carries what the per-property modules (cNN.py) report.
"""
import fcntl
import glob
import hashlib
import json
import os
import re
import shutil
import subprocess
import sys
import tempfile
import time

VERIF = os.path.dirname(os.path.dirname(os.path.abspath(__file__)))
REPO = os.environ.get("VERIF_REPO", "/repo")
LEAN = os.path.join(VERIF, "lean")
GEN = os.path.join(LEAN, "GooseVerif", "Gen")
HARNESS = os.path.join(VERIF, "harness")
BUILD = os.path.join(VERIF, ".build")
BIN = os.path.join(BUILD, "bin")
DRIVER = os.path.join(LEAN, ".lake", "build", "bin", "driver")
EVIDENCE = os.path.join(VERIF, "evidence")
REPLAYS = os.path.join(VERIF, "replays")
KNOWN = os.path.join(VERIF, "known_findings.jsonl")
OBLIGATIONS = os.path.join(LEAN, "obligations.json")

ALLOWED_AXIOMS = {"propext", "Classical.choice", "Quot.sound"}
TRUSTED_BASE = [
    "Lean 4.33.0 kernel (lake build; leanchecker re-check in the thorough tier)",
    "axioms: propext, Classical.choice, Quot.sound only (audited per theorem by Audit.lean); no sorry/admit/native_decide/bv_decide/own axioms",
    "the Go extractor /verif/harness/cmd/extract (go/packages, go/types, go/constant) that regenerates lean/GooseVerif/Gen from /repo",
    "the correspondence harness /verif/harness/cmd/hcorr, the line protocol and its canonicalisation",
]

GOENV = dict(os.environ)
GOENV.update({
    "GOFLAGS": "-mod=mod", "GOPROXY": "off", "GOSUMDB": "off", "GOTOOLCHAIN": "local",
    "CGO_ENABLED": os.environ.get("CGO_ENABLED", "1"),
})
# keep go's build cache out of /tmp if HOME is unusual; default cache location is fine otherwise


class Infra(Exception):
    """A failure of the checking machinery itself (not a verdict about /repo)."""


def log(*a):
    print(*a, file=sys.stderr, flush=True)


def run(cmd, cwd=None, env=None, input=None, timeout=None, check=False):
    p = subprocess.run(cmd, cwd=cwd, env=env or GOENV, input=input, timeout=timeout,
                       stdout=subprocess.PIPE, stderr=subprocess.PIPE, text=True)
    if check and p.returncode != 0:
        raise Infra("command failed (%d): %s\n%s\n%s" % (p.returncode, " ".join(cmd), p.stdout[-4000:], p.stderr[-4000:]))
    return p


def scratch(prefix="verif."):
    base = "/var/tmp"
    os.makedirs(base, exist_ok=True)
    return tempfile.mkdtemp(prefix=prefix, dir=base)


class Lock:
    """flock around regenerate+build: Gen/ and .lake are shared by concurrent checks."""

    def __enter__(self):
        os.makedirs(BUILD, exist_ok=True)
        self.f = open(os.path.join(BUILD, "lock"), "w")
        fcntl.flock(self.f, fcntl.LOCK_EX)
        return self

    def __exit__(self, *a):
        fcntl.flock(self.f, fcntl.LOCK_UN)
        self.f.close()


def sync_harness_gomod():
    """The harness module mirrors /repo's go.sum (offline builds need the same sums)."""
    src = os.path.join(REPO, "go.sum")
    dst = os.path.join(HARNESS, "go.sum")
    have = open(dst).read() if os.path.exists(dst) else ""
    want = open(src).read()
    # keep extra lines (porcupine etc.) the harness added itself
    lines = set(have.splitlines()) | set(want.splitlines())
    new = "\n".join(sorted(l for l in lines if l.strip())) + "\n"
    if new != have:
        open(dst, "w").write(new)


def go_build(pkg, out, tags="verif", race=False, cwd=HARNESS):
    out = out if os.path.isabs(out) else os.path.join(BIN, out)
    os.makedirs(BIN, exist_ok=True)
    cmd = ["go", "build", "-tags", tags]
    if race:
        cmd.append("-race")
    cmd += ["-o", out, pkg]
    p = run(cmd, cwd=cwd)
    return p


class BuildResult:
    hooks_ok = True

    def __init__(self):
        self.broken = []      # list of dicts {kind, name, detail}
        self.theorems = []    # audit output for the property module
        self.lake_log = ""
        self.driver_ok = False
        self.harness_ok = False
        self.extract_ok = False


def regenerate(gens):
    """Run the extractor on the current /repo tree; replace Gen/*.lean (stale ones removed)."""
    ext = os.path.join(BIN, "extract")
    p = go_build("./cmd/extract", ext)
    if p.returncode != 0:
        raise Infra("cannot build extractor:\n" + p.stderr[-3000:])
    tmp = os.path.join(BUILD, "gen.tmp")
    shutil.rmtree(tmp, ignore_errors=True)
    os.makedirs(tmp)
    p = run([ext, "-repo", REPO, "-out", tmp] + list(gens), cwd=HARNESS)
    os.makedirs(GEN, exist_ok=True)
    if p.returncode != 0:
        # fail closed: no stale facts may survive
        for g in gens_files(gens):
            try:
                os.remove(os.path.join(GEN, g))
            except FileNotFoundError:
                pass
        return False, p.stderr[-3000:]
    produced = set(os.listdir(tmp))
    for f in produced:
        new = open(os.path.join(tmp, f)).read()
        dst = os.path.join(GEN, f)
        old = open(dst).read() if os.path.exists(dst) else None
        if old != new:
            open(dst, "w").write(new)
    shutil.rmtree(tmp, ignore_errors=True)
    return True, ""


GEN_FILES = {
    "prims": ["PrimFacts.lean"],
    "disk": ["DiskFacts.lean"],
    "fs": ["FsFacts.lean"],
    "cmd": ["CmdFacts.lean"],
    "testgen": ["TestGenFacts.lean"],
    "ffi": ["Ffi.lean"],
    "translator": ["OpTables.lean", "PanicSites.lean", "MapRange.lean"],
    "printer": ["PrinterFacts.lean"],
    "guards": ["Guards.lean"],
}
ALL_GENS = []  # filled by ensure_built callers; empty list = all generators


def gens_files(gens):
    out = []
    for g in (gens or GEN_FILES.keys()):
        out += GEN_FILES.get(g, [])
    return out


LEAN_ERR = re.compile(r"^error: (\S+?\.lean):(\d+):(\d+): (.*)$")


def enclosing_decl(path, line):
    """Name of the theorem/def enclosing `line` of a Lean file (for naming a broken obligation)."""
    try:
        src = open(os.path.join(LEAN, path)).read().splitlines()
    except OSError:
        return None
    for i in range(min(line, len(src)) - 1, -1, -1):
        m = re.match(r"^\s*(?:private\s+|protected\s+)?(theorem|lemma|def|example|instance|abbrev)\s+(\S+)?", src[i])
        if m:
            return m.group(2) or "example"
    return None


def lake_build(targets):
    p = run(["lake", "build"] + targets, cwd=LEAN, env=os.environ.copy())
    return p.returncode == 0, p.stdout + p.stderr


def parse_lake_errors(logtxt):
    out = []
    for l in logtxt.splitlines():
        m = LEAN_ERR.match(l)
        if m:
            path, line = m.group(1), int(m.group(2))
            out.append({"file": path, "line": line, "decl": enclosing_decl(path, line), "msg": m.group(4)[:300]})
    return out


FORBIDDEN = re.compile(r"\b(sorry|admit|native_decide|bv_decide|implemented_by|unsafe)\b|^\s*axiom\s|maxHeartbeats\s+0")


def strip_lean_comments(src):
    # remove /- … -/ (nested) and -- … comments, and string literals
    out = []
    i, n, depth = 0, len(src), 0
    while i < n:
        if src.startswith("/-", i):
            depth += 1
            i += 2
            continue
        if depth > 0:
            if src.startswith("-/", i):
                depth -= 1
                i += 2
            else:
                if src[i] == "\n":
                    out.append("\n")
                i += 1
            continue
        if src.startswith("--", i):
            while i < n and src[i] != "\n":
                i += 1
            continue
        if src[i] == '"':
            i += 1
            while i < n and src[i] != '"':
                i += 2 if src[i] == "\\" else 1
            i += 1
            out.append('""')
            continue
        out.append(src[i])
        i += 1
    return "".join(out)


def grep_forbidden():
    hits = []
    for root in (os.path.join(LEAN, "GooseVerif"), os.path.join(LEAN, "Driver")):
        for d, _, fs in os.walk(root):
            for f in fs:
                if not f.endswith(".lean"):
                    continue
                p = os.path.join(d, f)
                code = strip_lean_comments(open(p).read())
                for k, line in enumerate(code.splitlines(), 1):
                    if FORBIDDEN.search(line):
                        hits.append("%s:%d: %s" % (os.path.relpath(p, LEAN), k, line.strip()[:120]))
    return hits


def audit(module):
    p = run(["lake", "env", "lean", "--run", "Audit.lean", module], cwd=LEAN, env=os.environ.copy())
    if p.returncode != 0:
        raise Infra("audit failed for %s:\n%s" % (module, (p.stdout + p.stderr)[-3000:]))
    return json.loads(p.stdout.strip().splitlines()[-1])["theorems"]


def expected_obligations(prop):
    try:
        ob = json.load(open(OBLIGATIONS))
    except OSError:
        return []
    out = []
    for k, v in ob.items():
        if k == prop or (k.startswith(prop) and len(k) > len(prop) and not k[len(prop)].isdigit()):
            out += v
    return out


def ensure_built(prop, gens, need_driver=True, need_harness=True, extra_go=()):
    """Regenerate Gen from /repo, build the property's proof module, audit it, build the
    driver and the harness against the working tree. Returns a BuildResult; proof-side
    breakage is recorded in .broken (never raised), infrastructure failure raises Infra."""
    res = BuildResult()
    module = "GooseVerif.Props." + prop
    with Lock():
        sync_harness_gomod()
        ok, err = regenerate(gens)
        res.extract_ok = ok
        if not ok:
            res.broken.append({"kind": "extractor", "name": "T-gen extraction of " + ",".join(gens),
                               "detail": "the extractor could not read the working tree: " + err[-600:]})
        # (companion modules Props/<prop><Suffix>.lean are built with the main one whether or not it imports them: a stale object
        #  file of a companion must never be audited in place of what the sources say now)
        companions = ["GooseVerif.Props." + os.path.basename(x)[:-5] for x in sorted(glob.glob(os.path.join(LEAN, "GooseVerif", "Props", prop + "?*.lean")))
                      if not os.path.basename(x)[len(prop)].isdigit()]
        ok, logtxt = lake_build([module] + companions)
        res.lake_log = logtxt
        short = prop
        if not ok:
            errs = parse_lake_errors(logtxt)
            if not errs:
                raise Infra("lake build failed without a Lean error:\n" + logtxt[-3000:])
            seen = set()
            for e in errs:
                key = (e["file"], e["decl"])
                if key in seen:
                    continue
                seen.add(key)
                res.broken.append({"kind": "proof-obligation", "name": "%s (%s:%d)" % (e["decl"], e["file"], e["line"]),
                                   "detail": e["msg"]})
        else:
            res.theorems = audit(module)
            # companion modules Props/<prop><Suffix>.lean (imported by the main one) belong to the same property
            for extra in companions:
                res.theorems += audit(extra)
            names = {t["name"].split(".")[-1] for t in res.theorems}
            for want in expected_obligations(short):
                if want not in names:
                    res.broken.append({"kind": "proof-obligation", "name": want,
                                       "detail": "theorem listed in lean/obligations.json is missing from " + module})
            for t in res.theorems:
                bad = [a for a in t["axioms"] if a not in ALLOWED_AXIOMS]
                if bad:
                    res.broken.append({"kind": "axiom", "name": t["name"], "detail": "depends on " + ", ".join(bad)})
            hits = grep_forbidden()
            for h in hits:
                res.broken.append({"kind": "forbidden-token", "name": h, "detail": "sorry/admit/axiom/native_decide/… in Lean sources"})
        if need_driver:
            ok, dlog = lake_build(["driver"])
            res.driver_ok = ok
            if not ok:
                errs = parse_lake_errors(dlog)
                res.broken.append({"kind": "model-build", "name": "driver",
                                   "detail": "; ".join("%s:%d %s" % (e["file"], e["line"], e["msg"]) for e in errs[:3]) or dlog[-500:]})
        if need_harness:
            p = go_build("./cmd/hcorr", os.path.join(BIN, "hcorr"))
            res.harness_ok = p.returncode == 0
            if not res.harness_ok:
                raise Infra("cannot build the correspondence harness against /repo (does /repo compile?):\n" + p.stderr[-3000:])
        for pkg, out, kw in extra_go:
            kw = dict(kw)
            optional = kw.pop("optional", False)
            p = go_build(pkg, os.path.join(BIN, out), **kw)
            if p.returncode != 0:
                if optional:
                    # a hook reader that no longer compiles against the working tree: the tie it provides is broken
                    res.hooks_ok = False
                    try:
                        os.remove(os.path.join(BIN, out))
                    except FileNotFoundError:
                        pass
                    res.broken.append({"kind": "correspondence", "name": "hook reader %s does not build against the working tree" % out,
                                       "detail": p.stderr[-800:]})
                    continue
                raise Infra("cannot build %s:\n%s" % (pkg, p.stderr[-3000:]))
    return res


def leanchecker(module):
    p = run(["lake", "env", "leanchecker", module], cwd=LEAN, env=os.environ.copy(), timeout=1800)
    return p.returncode == 0, (p.stdout + p.stderr)[-1500:]


# ---------------------------------------------------------------------------------------
# correspondence plumbing


def hcorr(proto, mode, args=(), input=None, timeout=600, binary="hcorr", env=None):
    p = run([os.path.join(BIN, binary), proto, mode] + list(args), input=input, timeout=timeout, env=env)
    if p.returncode != 0:
        raise Infra("hcorr %s %s failed (%d):\n%s" % (proto, mode, p.returncode, p.stderr[-3000:]))
    return p.stdout.splitlines()


def driver(proto, ops, timeout=600):
    p = run([DRIVER, proto], input="\n".join(ops) + "\n", timeout=timeout, env=os.environ.copy())
    if p.returncode != 0:
        raise Infra("lean driver %s failed (%d):\n%s" % (proto, p.returncode, p.stderr[-3000:]))
    out = p.stdout.splitlines()
    if len(out) != len(ops):
        raise Infra("lean driver %s answered %d lines for %d ops" % (proto, len(out), len(ops)))
    return out


def split_histories(ops, is_start):
    """Split an op list into histories; a history starts at each op for which is_start(op)."""
    hs, cur = [], []
    for i, op in enumerate(ops):
        if is_start(op) and cur:
            hs.append(cur)
            cur = []
        cur.append(i)
    if cur:
        hs.append(cur)
    return hs


def ddmin(items, fails, budget_s=90, max_evals=400):
    """Delta debugging: a minimal sublist (order kept) on which fails(sublist) is still true.  Shrinking is a courtesy to the reader
    of the replay, not part of the verdict: it stops after `budget_s` seconds or `max_evals` re-runs with what it has by then (a
    failing history of thousands of operations would otherwise be re-run thousands of times)."""
    import time as _time
    items = list(items)
    n = 2
    t0, evals = _time.time(), 0
    while len(items) >= 2:
        chunk = max(1, len(items) // n)
        reduced = False
        for i in range(0, len(items), chunk):
            if _time.time() - t0 > budget_s or evals >= max_evals:
                return items
            evals += 1
            cand = items[:i] + items[i + chunk:]
            if cand and fails(cand):
                items = cand
                n = max(n - 1, 2)
                reduced = True
                break
        if not reduced:
            if chunk == 1:
                break
            n = min(n * 2, len(items))
    return items


# ---------------------------------------------------------------------------------------
# known findings


def load_known(prop):
    out = []
    if not os.path.exists(KNOWN):
        return out
    for l in open(KNOWN):
        l = l.strip()
        if not l or l.startswith("#"):
            continue
        e = json.loads(l)
        if e.get("property") == prop:
            out.append(e)
    return out


# ---------------------------------------------------------------------------------------
# per-run context: evidence, violations


class Ctx:
    def __init__(self, prop, tier, seed, level="proof"):
        self.prop = prop
        self.tier = tier
        self.seed = seed
        self.level = level
        self.t0 = time.time()
        self.violations = []     # (replay path, suffix)
        self.known_printed = []
        self.coverage = {}
        self.assumptions = []
        self.notes = []

    # -- violations ------------------------------------------------------------------
    def violation(self, kind, broken, input_obj, expected=None, observed=None, how=None, found_input=True):
        os.makedirs(os.path.join(REPLAYS, self.prop), exist_ok=True)
        obj = {
            "property": self.prop,
            "kind": kind,                    # "counterexample" | "obligation"
            "broken": broken,                # theorem / correspondence that no longer checks
            "input": input_obj,
            "expected": expected,
            "observed": observed,
            "how": how or "bin/check %s --replay {path}" % self.prop,
            "tier": self.tier, "seed": self.seed,
        }
        blob = json.dumps(obj, indent=1, sort_keys=True)
        h = hashlib.sha1(blob.encode()).hexdigest()[:10]
        path = os.path.join(REPLAYS, self.prop, "%s-%s.json" % (time.strftime("%Y%m%dT%H%M%SZ", time.gmtime()), h))
        open(path, "w").write(blob + "\n")
        suffix = "" if found_input else " no-failing-input-found"
        self.violations.append((path, suffix))
        print("VIOLATION property=%s replay=%s%s" % (self.prop, path, suffix), flush=True)
        return path

    def known(self, what):
        self.known_printed.append(what)
        print("KNOWN-FINDING: property=%s %s" % (self.prop, what), flush=True)

    # -- evidence --------------------------------------------------------------------
    def finish(self, build=None):
        cov = dict(self.coverage)
        if build is not None:
            thms = build.theorems
            expected = expected_obligations(self.prop)
            nobl = max(len(thms), len(expected))
            broken_proofs = [b for b in build.broken if b["kind"] in ("proof-obligation", "axiom", "forbidden-token", "extractor")]
            if thms and not broken_proofs:
                ndis = len(thms)
            elif thms:
                ndis = max(0, len(thms) - len(broken_proofs))
            else:
                ndis = 0
            cov["obligations"] = max(nobl, 1)
            cov["discharged"] = ndis
            cov["checker_cmd"] = "cd /verif/lean && lake build GooseVerif.Props.%s && lake env lean --run Audit.lean GooseVerif.Props.%s" % (self.prop, self.prop)
            cov["trusted_base"] = TRUSTED_BASE + cov.get("trusted_base_extra", [])
            cov.pop("trusted_base_extra", None)
            cov["theorems"] = [{"name": t["name"].split("Props.")[-1], "axioms": t["axioms"]} for t in thms]
            if build.broken:
                cov["broken_obligations"] = build.broken
        ev = {
            "property_id": self.prop,
            "tier": self.tier,
            "seed": self.seed,
            "level": self.level,
            "coverage": cov,
            "assumptions": self.assumptions,
            "wall_s": round(time.time() - self.t0, 2),
            "violations": len(self.violations),
            "known_findings_reported": self.known_printed,
            "notes": self.notes,
        }
        os.makedirs(EVIDENCE, exist_ok=True)
        tmp = os.path.join(EVIDENCE, ".%s.json.tmp" % self.prop)
        open(tmp, "w").write(json.dumps(ev, indent=1) + "\n")
        os.replace(tmp, os.path.join(EVIDENCE, "%s.json" % self.prop))
        return 1 if self.violations else 0


def report_broken_obligations(ctx, build, found_counterexample):
    """After the search: every broken obligation that no concrete counterexample explains is
    still a violation (the property is no longer shown to hold): no-failing-input-found."""
    if not build.broken:
        return
    if found_counterexample:
        return
    ctx.violation("obligation", [b["name"] for b in build.broken],
                  {"broken_obligations": build.broken},
                  expected="every theorem of Props/%s checks against the facts regenerated from /repo" % ctx.prop,
                  observed="see broken_obligations; the search found no concrete failing input",
                  found_input=False)


# ---------------------------------------------------------------------------------------
# history-level comparison and shrinking


def failing_histories(ops, got, want, is_start):
    """Histories (lists of op strings) in which `got` differs from `want` at some op."""
    out = []
    for idxs in split_histories(ops, is_start):
        bad = [i for i in idxs if got[i] != want[i]]
        if bad:
            out.append(([ops[i] for i in idxs], bad[0] - idxs[0]))
    return out


def shrink_history(hist, fails, keep_first=True):
    """Delta-debug a failing history; `fails(ops)` re-runs both sides. The first op (the one
    that creates the object) is kept."""
    head, tail = (hist[:1], hist[1:]) if keep_first else ([], hist)
    if not fails(head + tail):
        return hist  # not reproducible in isolation (should not happen: both sides are deterministic)
    small = ddmin(tail, lambda t: fails(head + t)) if tail else tail
    if tail and not fails(head + small):
        return hist
    # try dropping the remaining ops one at a time once more (ddmin granularity 1 pass)
    return head + small
