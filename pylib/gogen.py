"""Type-directed generator of Go packages in the Goose subset (DESIGN §5.4), for the end-to-end
differential K4: the package is compiled and run natively, translated by the real goose, and the
emitted GooseLang is evaluated by the Lean reference interpreter on the same argument vectors.

Generated functions terminate, do not panic in Go, never evaluate two effectful operands in one
expression (Go evaluates left to right, GooseLang right to left), and use a small pool of
identifiers so that shadowing happens all the time.  Everything is derived from one random.Random.
"""
import json
import random

INT_TYPES = ["uint64", "uint32", "uint8"]
WIDTH = {"uint64": 64, "uint32": 32, "uint8": 8}
NAMES = ["x", "y", "z", "a", "b", "i", "n"]

PRINTER = '''//go:build !goose

package p

import (
	"fmt"
	"reflect"
	"sort"
	"strings"
)

func render(v reflect.Value, depth int) string {
	switch v.Kind() {
	case reflect.Uint64:
		return fmt.Sprintf("u64:%d", v.Uint())
	case reflect.Uint32:
		return fmt.Sprintf("u32:%d", v.Uint())
	case reflect.Uint8:
		return fmt.Sprintf("u8:%d", v.Uint())
	case reflect.Bool:
		if v.Bool() {
			return "true"
		}
		return "false"
	case reflect.String:
		return "s:" + fmt.Sprintf("%x", v.String())
	case reflect.Ptr:
		if v.IsNil() {
			return "null"
		}
		if depth == 0 {
			return "&…"
		}
		return "&" + render(v.Elem(), depth-1)
	case reflect.Slice:
		if depth == 0 && v.Len() > 0 {
			return "[…]"
		}
		var parts []string
		for i := 0; i < v.Len(); i++ {
			parts = append(parts, render(v.Index(i), depth-1))
		}
		return "[" + strings.Join(parts, ",") + "]"
	case reflect.Struct:
		var parts []string
		for i := 0; i < v.NumField(); i++ {
			parts = append(parts, v.Type().Field(i).Name+"="+render(v.Field(i), depth))
		}
		return "{" + strings.Join(parts, ",") + "}"
	case reflect.Map:
		if v.IsNil() {
			return "null"
		}
		var parts []string
		for _, k := range v.MapKeys() {
			parts = append(parts, render(k, depth-1)+"="+render(v.MapIndex(k), depth-1))
		}
		sort.Strings(parts)
		return "map{" + strings.Join(parts, ",") + "}"
	}
	return "<" + v.Kind().String() + ">"
}

func show(vs ...interface{}) string {
	if len(vs) == 0 {
		return "()"
	}
	if len(vs) == 1 {
		return render(reflect.ValueOf(vs[0]), 6)
	}
	var parts []string
	for _, v := range vs {
		parts = append(parts, render(reflect.ValueOf(v), 6))
	}
	return "(" + strings.Join(parts, ",") + ")"
}

func call(name string, f func() string) {
	defer func() {
		if e := recover(); e != nil {
			fmt.Printf("%s gopanic\\n", name)
		}
	}()
	fmt.Printf("%s %s\\n", name, f())
}
'''


class Var:
    def __init__(self, name, ty, assignable):
        self.name, self.ty, self.assignable = name, ty, assignable


class Gen:
    def __init__(self, rnd, features):
        self.r = rnd
        self.f = features          # set of enabled feature names
        self.funcs = []            # (name, params [(n, ty)], results [ty], body text)
        self.structs = []
        self.counter = 0
        self.in_closure = False
        self.expr_depth = 2
        self.helpers = []          # earlier functions usable in calls: (name, param types, result types)

    # ---------- expressions (pure) ----------
    def lit(self, ty):
        r = self.r
        if ty in WIDTH:
            w = WIDTH[ty]
            v = r.choice([0, 1, 2, 3, 7, 2 ** w - 1, 2 ** (w - 1), r.randrange(2 ** w), r.randrange(20)])
            return "%s(%d)" % (ty, v) if r.random() < 0.3 else str(v)
        if ty == "bool":
            return r.choice(["true", "false"])
        if ty == "string":
            return '"%s"' % r.choice(["", "a", "go", "goose", "x y", "ab.c"])
        raise ValueError(ty)

    def vars_of(self, env, ty):
        seen, out = set(), []
        for v in reversed(env):
            if v.name in seen:
                continue
            seen.add(v.name)
            if v.ty == ty:
                out.append(v)
        return out

    def expr(self, env, ty, depth, need_var=False):
        """need_var: the expression must not be a constant expression (Go folds constants at compile
        time and rejects overflow), so its left spine ends in a variable."""
        r = self.r
        cands = self.vars_of(env, ty)
        if depth <= 0 or r.random() < 0.25:
            if cands and (need_var or r.random() < 0.7):
                return r.choice(cands).name
            if need_var and ty in WIDTH:
                return "%s(%s)" % (ty, self.expr(env, "uint64", 0, True)) if self.vars_of(env, "uint64") else "seed_" + ty
            return self.lit(ty)
        if ty in WIDTH:
            k = r.randrange(10)
            a = self.expr(env, ty, depth - 1, True)
            b = self.expr(env, ty, depth - 1)
            if k < 4:
                op = r.choice(["+", "-", "*", "&", "|", "^"])
                return "(%s %s %s)" % (a, op, b)
            if k == 4:
                # `lit | 1` would be an untyped constant expression: goose prints its operands as 64-bit literals
                # whatever the context (known finding C01 untyped-constant-operands); keep it typed here
                return "(%s %s (%s | %s))" % (a, r.choice(["/", "%"]), b, "1" if ty == "uint64" else ty + "(1)")
            if k == 5 and "shifts" in self.f and ty == "uint64":
                return "(%s %s (%s %% 70))" % (a, r.choice(["<<", ">>"]), b)
            if k == 6 and "conv" in self.f:
                src = r.choice([t for t in INT_TYPES if t != ty])
                return "%s(%s)" % ("byte" if ty == "uint8" and r.random() < 0.5 else ty, self.expr(env, src, depth - 1, True))
            if k == 7 and "strings" in self.f and ty == "uint64":
                svs = self.vars_of(env, "string")
                if svs:
                    return "uint64(len(%s))" % r.choice(svs).name
            if k == 8 and "slices" in self.f and ty == "uint64":
                ss = self.vars_of(env, "[]uint64")
                if ss:
                    return "uint64(len(%s))" % r.choice(ss).name
            if k == 9 and "structs" in self.f and ty == "uint64":
                ps = self.vars_of(env, "*S0") + self.vars_of(env, "S0")
                if ps:
                    return "%s.a" % r.choice(ps).name
            return "(%s + %s)" % (a, b)
        if ty == "bool":
            k = r.randrange(6)
            if k < 3:
                it = r.choice(INT_TYPES)
                return "(%s %s %s)" % (self.expr(env, it, depth - 1), r.choice(["<", "<=", ">", ">=", "==", "!="]), self.expr(env, it, depth - 1))
            if k == 3:
                return "(%s %s %s)" % (self.expr(env, "bool", depth - 1), r.choice(["&&", "||"]), self.expr(env, "bool", depth - 1))
            if k == 4:
                return "!%s" % self.expr(env, "bool", depth - 1)
            if "strings" in self.f:
                return "(%s == %s)" % (self.expr(env, "string", depth - 1), self.expr(env, "string", depth - 1))
            return self.lit("bool")
        if ty == "string":
            if r.random() < 0.5:
                return "(%s + %s)" % (self.expr(env, "string", depth - 1), self.expr(env, "string", depth - 1))
            return self.lit("string")
        raise ValueError(ty)

    # ---------- statements ----------
    def fresh_or_shadow(self, env):
        """a name from the small pool that is not yet declared in the current block (it may shadow an outer one)"""
        free = [n for n in NAMES if n not in self.block]
        if not free:
            return "v%d" % self.fresh()
        n = self.r.choice(free)
        self.block.add(n)
        return n

    def scalar_type(self):
        ts = ["uint64", "uint64", "uint64", "bool"]
        if "widths" in self.f:
            ts += ["uint32", "uint8"]
        if "strings" in self.f:
            ts += ["string"]
        return self.r.choice(ts)

    def stmts(self, env, n, depth, ind, in_loop=False, declared=None):
        """Non-tail statements (no returns, no break/continue). Returns (lines, env')."""
        r = self.r
        out = []
        env = list(env)
        saved_block = getattr(self, "block", set())
        self.block = set(declared) if declared is not None else set()
        try:
            return self._stmts(env, n, depth, ind, in_loop)
        finally:
            self.last_block = set(self.block)
            self.block = saved_block

    def _stmts(self, env, n, depth, ind, in_loop):
        r = self.r
        out = []
        for _ in range(n):
            k = r.choice([0, 1, 2, 3, 4, 5, 6, 7, 5, 6, 8, 9, 10, 11, 12, 12, 13, 13, 14, 14, 15, 15, 16, 16, 17, 17, 18, 18, 19, 19, 19, 20, 21, 21])
            pad = "\t" * ind
            if k < 3:
                ty = self.scalar_type()
                name = self.fresh_or_shadow(env)
                out.append("%s%s := %s" % (pad, name, self.typed(ty, self.expr(env, ty, self.expr_depth))))
                out.append(self.use(pad, name, ty))
                env.append(Var(name, ty, False))
            elif k < 5:
                ty = self.scalar_type()
                name = self.fresh_or_shadow(env)
                if ty == "uint8":
                    # the initialiser's type would be read, and goose knows the 8-bit type only under the name byte
                    out.append("%svar %s byte\n%s%s = %s" % (pad, name, pad, name, self.expr(env + [Var(name, ty, True)], ty, 2)))
                elif r.random() < 0.3:
                    out.append("%svar %s %s" % (pad, name, tyname(ty)))
                else:
                    out.append("%svar %s %s = %s" % (pad, name, tyname(ty), self.expr(env, ty, self.expr_depth)))
                out.append(self.use(pad, name, ty))
                env.append(Var(name, ty, True))
            elif k < 8:
                av = [v for v in self.visible(env) if v.assignable and (v.ty in WIDTH or v.ty in ("bool", "string"))]
                if not av:
                    continue
                v = r.choice(av)
                if v.ty in WIDTH and r.random() < 0.4:
                    out.append("%s%s %s %s" % (pad, v.name, r.choice(["+=", "-=", "|=", "&=", "^="]), self.expr(env, v.ty, 1)))
                elif v.ty == "uint64" and r.random() < 0.3:
                    out.append("%s%s%s" % (pad, v.name, r.choice(["++", "--"])))
                else:
                    out.append("%s%s = %s" % (pad, v.name, self.expr(env, v.ty, 2)))
            elif k < 10 and depth > 0:
                cond = self.expr(env, "bool", 2)
                a, _ = self.stmts(env, r.randrange(1, 3), depth - 1, ind + 1, in_loop)
                out.append("%sif %s {" % (pad, cond))
                out += a or ["%s\t_ = 0" % pad]
                if r.random() < 0.5:
                    b, _ = self.stmts(env, r.randrange(1, 3), depth - 1, ind + 1, in_loop)
                    out.append("%s} else {" % pad)
                    out += b or ["%s\t_ = 0" % pad]
                out.append("%s}" % pad)
            elif k < 12 and depth > 0 and "loops" in self.f:
                out += self.loop(env, depth, ind)
            elif k == 12 and "slices" in self.f:
                for _ in range(r.randrange(1, 4)):
                    out_l, env = self.slice_stmt(env, ind)
                    out += out_l
            elif k == 13 and "maps" in self.f:
                for _ in range(r.randrange(1, 4)):
                    out_l, env = self.map_stmt(env, ind)
                    out += out_l
            elif k == 14 and "structs" in self.f:
                for _ in range(r.randrange(1, 4)):
                    out_l, env = self.struct_stmt(env, ind)
                    out += out_l
            elif k == 21 and depth > 0:
                # a bare block in non-tail position: its declarations shadow and must not leak
                a, _ = self.stmts(env, r.randrange(1, 4), depth - 1, ind + 1, in_loop)
                out.append("%s{" % pad)
                out += a or ["%s\t_ = 0" % pad]
                out.append("%s}" % pad)
            elif k == 16 and "closures" in self.f:
                for _ in range(r.randrange(1, 4)):
                    out_l, env = self.closure_stmt(env, ind)
                    out += out_l
            elif k == 17 and "pointers" in self.f:
                for _ in range(r.randrange(1, 4)):
                    out_l, env = self.pointer_stmt(env, ind)
                    out += out_l
            elif k == 18 and "bytes" in self.f:
                for _ in range(r.randrange(1, 4)):
                    out_l, env = self.bytes_stmt(env, ind)
                    out += out_l
            elif k == 19 and "structs" in self.f and "methods" in self.f:
                for _ in range(r.randrange(1, 4)):
                    out_l, env = self.method_stmt(env, ind)
                    out += out_l
            elif k == 20 and depth > 0:
                # else-if chain assigning to a var
                av = [v for v in self.visible(env) if v.assignable and v.ty == "uint64"]
                if av:
                    v = av[0]
                    out.append("%sif %s {\n%s\t%s = %s\n%s} else if %s {\n%s\t%s = %s\n%s}" % (
                        pad, self.expr(env, "bool", 1), pad, v.name, self.expr(env, "uint64", 1), pad,
                        self.expr(env, "bool", 1), pad, v.name, self.expr(env, "uint64", 1), pad))
            elif k == 15 and self.helpers and "calls" in self.f:
                h = r.choice(self.helpers)
                args = ", ".join(self.expr(env, t, 1) for t in h[1])
                if len(h[2]) == 1:
                    name = self.fresh_or_shadow(env)
                    out.append("%s%s := %s(%s)" % (pad, name, h[0], args))
                    out.append(self.use(pad, name, h[2][0]))
                    env.append(Var(name, h[2][0], False))
                elif len(h[2]) == 2:
                    n1, n2 = self.fresh_or_shadow(env), self.fresh_or_shadow(env)
                    out.append("%s%s, %s := %s(%s)" % (pad, n1, n2, h[0], args))
                    out.append(self.use(pad, n1, h[2][0]))
                    out.append(self.use(pad, n2, h[2][1]))
                    env.append(Var(n1, h[2][0], False))
                    env.append(Var(n2, h[2][1], False))
        return out, env

    def use(self, pad, name, ty):
        """fold a fresh local into the accumulator, so that results depend on everything computed"""
        if ty == "uint64":
            return "%sacc = acc*3 + %s" % (pad, name)
        if ty in WIDTH:
            return "%sacc = acc*3 + uint64(%s)" % (pad, name)
        if ty == "bool":
            return "%sif %s {\n%s\tacc = acc + 1\n%s}" % (pad, name, pad, pad)
        if ty == "string":
            return "%sacc = acc*3 + uint64(len(%s))" % (pad, name)
        return "%s_ = %s" % (pad, name)

    def typed(self, ty, e):
        """`x := e` must give x the intended type: wrap literals/untyped constants."""
        if ty in WIDTH:
            return "%s(%s)" % (ty, e)
        return e

    def visible(self, env):
        seen, out = set(), []
        for v in reversed(env):
            if v.name not in seen:
                seen.add(v.name)
                out.append(v)
        return out

    def loop(self, env, depth, ind):
        r = self.r
        pad = "\t" * ind
        out = []
        bound = r.randrange(0, 6)
        accs = [v for v in self.visible(env) if v.assignable and v.ty == "uint64"]
        kind = r.randrange(3)
        if kind == 0:
            iv = r.choice(["i", "j", "n"]) if "loopvar_reuse" in self.f else "l%d" % self.fresh()
            out.append("%sfor %s := uint64(0); %s < %d; %s++ {" % (pad, iv, iv, bound, iv))
            env2 = env + [Var(iv, "uint64", False)]     # not assignable by the body (goose pointer-wraps it, Go allows; keep simple)
            body, env3 = self.stmts(env2, r.randrange(1, 3), depth - 1, ind + 1, True)
            out += body
            accs = [v for v in self.visible(env3) if v.assignable and v.ty == "uint64"]
            if accs:
                out.append("%s\t%s = %s + %s" % (pad, accs[0].name, accs[0].name, iv))
            c = r.randrange(7)
            if c == 4:
                out.append("%s\tif %s {\n%s\t\tcontinue\n%s\t} else {\n%s\t\tbreak\n%s\t}" % (pad, self.expr(env3, "bool", 1), pad, pad, pad, pad))
            elif c == 5 and "tailblock" in self.f:
                out.append("%s\t{\n%s\t\tif %s {\n%s\t\t\tbreak\n%s\t\t}\n%s\t\tcontinue\n%s\t}" % (pad, pad, self.expr(env3, "bool", 1), pad, pad, pad, pad))
            elif c == 6 and accs:
                out.append("%s\tif %s {\n%s\t\t%s = %s + 2\n%s\t\tcontinue\n%s\t}\n%s\t%s = %s ^ 1" % (
                    pad, self.expr(env3, "bool", 1), pad, accs[0].name, accs[0].name, pad, pad, pad, accs[0].name, accs[0].name))
            elif c == 0:
                out.append("%s\tif %s {\n%s\t\tbreak\n%s\t}" % (pad, self.expr(env3, "bool", 1), pad, pad))
            elif c == 1:
                out.append("%s\tif %s {\n%s\t\tcontinue\n%s\t}" % (pad, self.expr(env3, "bool", 1), pad, pad))
                if accs:
                    out.append("%s\t%s = %s + 1" % (pad, accs[0].name, accs[0].name))
            out.append("%s}" % pad)
        elif kind == 1:
            cn = "c%d" % self.fresh()
            out.append("%svar %s uint64 = 0" % (pad, cn))
            out.append("%sfor %s < %d {" % (pad, cn, bound))
            env2 = env + [Var(cn, "uint64", False)]
            body, _ = self.stmts(env2, r.randrange(1, 3), depth - 1, ind + 1, True)
            out += body
            out.append("%s\t%s = %s + 1" % (pad, cn, cn))
            out.append("%s}" % pad)
        else:
            cn = "c%d" % self.fresh()
            out.append("%svar %s uint64 = 0" % (pad, cn))
            out.append("%sfor {" % pad)
            env2 = env + [Var(cn, "uint64", False)]
            out.append("%s\tif %s >= %d {\n%s\t\tbreak\n%s\t}" % (pad, cn, bound, pad, pad))
            body, _ = self.stmts(env2, r.randrange(1, 3), depth - 1, ind + 1, True)
            out += body
            out.append("%s\t%s = %s + 1" % (pad, cn, cn))
            if r.random() < 0.5:
                out.append("%s\tcontinue" % pad)
            out.append("%s}" % pad)
        return out

    def fresh(self):
        self.counter += 1
        return self.counter

    def slice_stmt(self, env, ind):
        r = self.r
        pad = "\t" * ind
        out = []
        ss = self.vars_of(env, "[]uint64")
        k = r.randrange(6)
        if not ss or k == 0:
            name = "s%d" % self.fresh()
            n = r.randrange(0, 5)
            if r.random() < 0.5:
                out.append("%svar %s []uint64 = make([]uint64, %d)" % (pad, name, n))
                env = env + [Var(name, "[]uint64", True)]
            else:
                out.append("%s%s := make([]uint64, %d)" % (pad, name, n))
                env = env + [Var(name, "[]uint64", False)]
            out.append("%s_ = %s" % (pad, name))
            return out, env
        s = r.choice(ss)
        if k == 1:
            out.append("%sif uint64(len(%s)) > 0 {\n%s\t%s[%s %% uint64(len(%s))] = %s\n%s}" % (
                pad, s.name, pad, s.name, self.expr(env, "uint64", 1), s.name, self.expr(env, "uint64", 1), pad))
        elif k == 2 and s.assignable:
            out.append("%s%s = append(%s, %s)" % (pad, s.name, s.name, self.expr(env, "uint64", 1)))
        elif k == 3:
            accs = [v for v in self.visible(env) if v.assignable and v.ty == "uint64"]
            if accs:
                form = r.randrange(3)
                if form == 0:
                    out.append("%sfor _, rx := range %s {\n%s\t%s = %s + rx\n%s}" % (pad, s.name, pad, accs[0].name, accs[0].name, pad))
                elif form == 1:
                    out.append("%sfor ri := range %s {\n%s\t%s = %s + uint64(ri)\n%s}" % (pad, s.name, pad, accs[0].name, accs[0].name, pad))
                else:
                    out.append("%sfor ri, rx := range %s {\n%s\t%s = %s + uint64(ri)*rx\n%s}" % (pad, s.name, pad, accs[0].name, accs[0].name, pad))
        elif k == 4:
            name = "t%d" % self.fresh()
            out.append("%s%s := %s[:uint64(len(%s))/2]" % (pad, name, s.name, s.name))
            out.append("%s_ = %s" % (pad, name))
            env = env + [Var(name, "[]uint64", False)]
        elif k == 5:
            name = "t%d" % self.fresh()
            out.append("%s%s := %s[uint64(len(%s))/2:]" % (pad, name, s.name, s.name))
            out.append("%s_ = %s" % (pad, name))
            env = env + [Var(name, "[]uint64", False)]
        return out, env

    def map_stmt(self, env, ind):
        r = self.r
        pad = "\t" * ind
        out = []
        ms = self.vars_of(env, "map[uint64]uint64")
        k = r.randrange(6)
        if k == 5:
            # a DEFINED map type whose key and value types differ, allocated with make(Name); absent keys read as the value type's zero
            accs = [v for v in self.visible(env) if v.assignable and v.ty == "uint64"]
            if accs:
                nm = "nm%d" % self.fresh()
                a = accs[0].name
                self.named_map_used = True
                out.append("%s%s := make(MB)" % (pad, nm))
                # (goose rejects an index UPDATE on a defined map type; reads, len and make are in the subset)
                out.append("%sif %s[%s %% 4] {\n%s\t%s = %s + 1\n%s}" % (pad, nm, self.expr(env, "uint64", 1), pad, a, a, pad))
                out.append("%sif !%s[%s %% 4] {\n%s\t%s = %s + 2\n%s}" % (pad, nm, self.expr(env, "uint64", 1), pad, a, a, pad))
                out.append("%s%s = %s + uint64(len(%s))" % (pad, a, a, nm))
            return out, env
        if not ms or k == 0:
            name = "m%d" % self.fresh()
            out.append("%s%s := make(map[uint64]uint64)" % (pad, name))
            out.append("%s_ = %s" % (pad, name))
            return out, env + [Var(name, "map[uint64]uint64", False)]
        m = r.choice(ms)
        if k == 1:
            out.append("%s%s[%s %% 4] = %s" % (pad, m.name, self.expr(env, "uint64", 1), self.expr(env, "uint64", 1)))
        elif k == 2:
            n1, n2 = "v%d" % self.fresh(), "ok%d" % self.fresh()
            out.append("%s%s, %s := %s[%s %% 4]" % (pad, n1, n2, m.name, self.expr(env, "uint64", 1)))
            out.append(self.use(pad, n1, "uint64"))
            out.append(self.use(pad, n2, "bool"))
            env = env + [Var(n1, "uint64", False), Var(n2, "bool", False)]
        elif k == 3:
            out.append("%sdelete(%s, %s %% 4)" % (pad, m.name, self.expr(env, "uint64", 1)))
        elif k == 4:
            accs = [v for v in self.visible(env) if v.assignable and v.ty == "uint64"]
            if accs:
                out.append("%sfor rk, rv := range %s {\n%s\t%s = %s + rk*3 + rv\n%s}" % (pad, m.name, pad, accs[0].name, accs[0].name, pad))
        return out, env

    def struct_stmt(self, env, ind):
        r = self.r
        pad = "\t" * ind
        out = []
        ps = self.vars_of(env, "*S0")
        k = r.randrange(5)
        if not ps or k == 0:
            name = "p%d" % self.fresh()
            out.append("%s%s := &S0{a: %s, b: %s}" % (pad, name, self.expr(env, "uint64", 1), self.expr(env, "bool", 1)))
            out.append("%s_ = %s" % (pad, name))
            return out, env + [Var(name, "*S0", False)]
        p = r.choice(ps)
        if k == 1:
            out.append("%s%s.a = %s" % (pad, p.name, self.expr(env, "uint64", 1)))
        elif k == 2:
            out.append("%s%s.b = %s" % (pad, p.name, self.expr(env, "bool", 1)))
        elif k == 3:
            name = "q%d" % self.fresh()
            out.append("%s%s := %s" % (pad, name, p.name))     # aliasing
            out.append("%s_ = %s" % (pad, name))
            env = env + [Var(name, "*S0", False)]
        elif k == 4:
            name = "w%d" % self.fresh()
            out.append("%s%s := new(uint64)\n%s*%s = %s" % (pad, name, pad, name, self.expr(env, "uint64", 1)))
            out.append("%s_ = %s" % (pad, name))
        return out, env

    def closure_stmt(self, env, ind):
        r = self.r
        pad = "\t" * ind
        gs = self.vars_of(env, "func(uint64) uint64")
        if not gs or r.random() < 0.5:
            name = "g%d" % self.fresh()
            saved = self.block
            self.block = {"ca"}
            inner = env + [Var("ca", "uint64", False)]
            self.in_closure = True
            body, ienv = self._stmts(inner, r.randrange(0, 2), 0, ind + 1, False)
            self.in_closure = False
            self.block = saved
            lines = ["%s%s := func(ca uint64) uint64 {" % (pad, name)] + body + \
                    ["%s\treturn %s" % (pad, self.expr(ienv, "uint64", 2)), "%s}" % pad, "%s_ = %s" % (pad, name)]
            return lines, env + [Var(name, "func(uint64) uint64", False)]
        g = r.choice(gs)
        name = self.fresh_or_shadow(env)
        return ["%s%s := %s(%s)" % (pad, name, g.name, self.expr(env, "uint64", 1)), self.use(pad, name, "uint64")], env + [Var(name, "uint64", False)]

    def pointer_stmt(self, env, ind):
        r = self.r
        pad = "\t" * ind
        ws = self.vars_of(env, "*uint64")
        k = r.randrange(5)
        if not ws or k == 0:
            name = "w%d" % self.fresh()
            av = [v for v in self.visible(env) if v.assignable and v.ty == "uint64"]
            if av and r.random() < 0.5:
                return ["%s%s := &%s" % (pad, name, av[0].name), "%s_ = %s" % (pad, name)], env + [Var(name, "*uint64", False)]
            return ["%s%s := new(uint64)" % (pad, name), "%s_ = %s" % (pad, name)], env + [Var(name, "*uint64", False)]
        w = r.choice(ws)
        if k in (1, 2):
            return ["%s*%s = %s" % (pad, w.name, self.expr(env, "uint64", 1))], env
        if k == 3:
            name = self.fresh_or_shadow(env)
            return ["%s%s := *%s" % (pad, name, w.name), self.use(pad, name, "uint64")], env + [Var(name, "uint64", False)]
        name = "w%d" % self.fresh()
        return ["%s%s := %s" % (pad, name, w.name), "%s_ = %s" % (pad, name)], env + [Var(name, "*uint64", False)]

    def bytes_stmt(self, env, ind):
        r = self.r
        pad = "\t" * ind
        bs = self.vars_of(env, "[]byte")
        k = r.randrange(7)
        if not bs or k == 0:
            name = "bs%d" % self.fresh()
            svs = self.vars_of(env, "string")
            if svs and r.random() < 0.5:
                return ["%s%s := []byte(%s)" % (pad, name, r.choice(svs).name), "%s_ = %s" % (pad, name)], env + [Var(name, "[]byte", False)]
            return ["%s%s := make([]byte, %d)" % (pad, name, r.choice([0, 1, 8, 9, 12])), "%s_ = %s" % (pad, name)], env + [Var(name, "[]byte", False)]
        b = r.choice(bs)
        if k == 1:
            return ["%sif uint64(len(%s)) >= 8 {\n%s\tmachine.UInt64Put(%s, %s)\n%s}" % (pad, b.name, pad, b.name, self.expr(env, "uint64", 1), pad)], env
        if k == 2:
            return ["%sif uint64(len(%s)) >= 4 {\n%s\tmachine.UInt32Put(%s, %s)\n%s}" % (pad, b.name, pad, b.name, self.expr(env, "uint32", 1), pad)], env
        if k == 3:
            av = [v for v in self.visible(env) if v.assignable and v.ty == "uint64"]
            if av:
                return ["%sif uint64(len(%s)) >= 8 {\n%s\t%s = %s ^ machine.UInt64Get(%s)\n%s}" % (pad, b.name, pad, av[0].name, av[0].name, b.name, pad)], env
            return [], env
        if k == 4:
            av = [v for v in self.visible(env) if v.assignable and v.ty == "uint64"]
            if av:
                return ["%sif uint64(len(%s)) >= 4 {\n%s\t%s = %s + uint64(machine.UInt32Get(%s))\n%s}" % (pad, b.name, pad, av[0].name, av[0].name, b.name, pad)], env
            return [], env
        if k == 5:
            return ["%sif uint64(len(%s)) > 0 {\n%s\t%s[%s %% uint64(len(%s))] = %s\n%s}" % (
                pad, b.name, pad, b.name, self.expr(env, "uint64", 1), b.name, self.expr(env, "uint8", 1), pad)], env
        name = self.fresh_or_shadow(env)
        return ["%s%s := string(%s)" % (pad, name, b.name), self.use(pad, name, "string")], env + [Var(name, "string", False)]

    def method_stmt(self, env, ind):
        r = self.r
        pad = "\t" * ind
        ps = self.vars_of(env, "*S0")
        vs = self.vars_of(env, "S0")
        k = r.randrange(5)
        if k == 0 or not (ps or vs):
            name = "sv%d" % self.fresh()
            return ["%s%s := S0{a: %s, b: %s}" % (pad, name, self.expr(env, "uint64", 1), self.expr(env, "bool", 1)), "%s_ = %s" % (pad, name)], env + [Var(name, "S0", False)]
        if ps and k == 1:
            return ["%s%s.addA(%s)" % (pad, r.choice(ps).name, self.expr(env, "uint64", 1))], env
        if ps and k == 2:
            name = self.fresh_or_shadow(env)
            return ["%s%s := %s.getA()" % (pad, name, r.choice(ps).name), self.use(pad, name, "uint64")], env + [Var(name, "uint64", False)]
        if vs and k == 3:
            name = self.fresh_or_shadow(env)
            return ["%s%s := %s.valA()" % (pad, name, r.choice(vs).name), self.use(pad, name, "uint64")], env + [Var(name, "uint64", False)]
        if ps:
            p = r.choice(ps)
            if r.random() < 0.5:
                return ["%s%s.a %s %s" % (pad, p.name, r.choice(["+=", "-=", "|=", "&=", "^="]), self.expr(env, "uint64", 1))], env
            name = "sv%d" % self.fresh()
            return ["%s%s := *%s" % (pad, name, p.name), "%s_ = %s" % (pad, name)], env + [Var(name, "S0", False)]
        return [], env

    def final_mix(self, env, pad):
        """read everything reachable from the heap-typed locals into the accumulator"""
        out = []
        for v in self.visible(env)[:12]:
            if v.ty == "*uint64":
                out.append("%sacc = acc*5 + *%s" % (pad, v.name))
            elif v.ty == "*S0":
                out.append("%sacc = acc*5 + %s.a\n%sif %s.b {\n%s\tacc = acc + 1\n%s}" % (pad, v.name, pad, v.name, pad, pad))
            elif v.ty == "S0":
                out.append("%sacc = acc*5 + %s.a" % (pad, v.name))
            elif v.ty == "[]uint64":
                out.append("%sfor _, mx := range %s {\n%s\tacc = acc*5 + mx\n%s}\n%sacc = acc + uint64(len(%s))" % (pad, v.name, pad, pad, pad, v.name))
            elif v.ty == "[]byte":
                out.append("%sfor _, mb := range %s {\n%s\tacc = acc*5 + uint64(mb)\n%s}\n%sacc = acc + uint64(len(%s))" % (pad, v.name, pad, pad, pad, v.name))
            elif v.ty == "map[uint64]uint64":
                out.append("%sacc = acc*5 + %s[0] + 2*%s[1] + 3*%s[2] + 4*%s[3] + uint64(len(%s))" % (pad, v.name, v.name, v.name, v.name, v.name))
        return out

    # ---------- functions ----------
    def tail(self, env, rtys, depth, ind, top, blk=True):
        """statements that end the function on every path with a return (tail position).
        blk: a bare `{ … return }` block may end this list (goose does not look through a block when it
        decides whether the body of an else-less `if` always returns, so not inside such a body)"""
        r = self.r
        pad = "\t" * ind
        tk = r.randrange(7) if depth > 0 else 0
        if tk == 0 or tk == 6 and ("tailblock" not in self.f or not blk):
            return self.final_mix(env, pad) + ["%sreturn %s" % (pad, self.result_expr(env, rtys))]
        if tk == 1:
            more, env2 = self.stmts(env, r.randrange(0, 3), 1, ind, declared=top)
            top2 = top | set(self.last_block)
            return ["%sif %s {" % (pad, self.expr(env, "bool", 2))] + self.tail(env, rtys, 0, ind + 1, set()) + ["%s}" % pad] + more + \
                self.tail(env2, rtys, depth - 1, ind, top2, blk)
        if tk == 2:
            a, ea = self.stmts(env, r.randrange(0, 2), 1, ind + 1)
            ta = set(self.last_block)
            b, eb = self.stmts(env, r.randrange(0, 2), 1, ind + 1)
            tb = set(self.last_block)
            return ["%sif %s {" % (pad, self.expr(env, "bool", 2))] + a + self.tail(ea, rtys, depth - 1, ind + 1, ta, blk) + ["%s} else {" % pad] + b + \
                self.tail(eb, rtys, depth - 1, ind + 1, tb, blk) + ["%s}" % pad]
        if tk == 3:
            a, ea = self.stmts(env, r.randrange(0, 2), 1, ind + 1)
            ta = set(self.last_block)
            return ["%sif %s {" % (pad, self.expr(env, "bool", 2))] + a + ["%s\tif %s {" % (pad, self.expr(ea, "bool", 1)),
                    "%s\t\treturn %s" % (pad, self.result_expr(ea, rtys)), "%s\t}" % pad] + self.tail(ea, rtys, depth - 1, ind + 1, ta, False) + ["%s}" % pad] + \
                self.tail(env, rtys, depth - 1, ind, top, blk)
        if tk == 4:
            return ["%sif %s {" % (pad, self.expr(env, "bool", 2))] + self.tail(env, rtys, 0, ind + 1, set()) + \
                   ["%s} else if %s {" % (pad, self.expr(env, "bool", 2))] + self.tail(env, rtys, 0, ind + 1, set()) + \
                   ["%s} else {" % pad] + self.tail(env, rtys, depth - 1, ind + 1, set(), blk) + ["%s}" % pad]
        if tk == 5:
            more, env2 = self.stmts(env, r.randrange(1, 3), 1, ind, declared=top)
            return more + self.tail(env2, rtys, depth - 1, ind, top | set(self.last_block), blk)
        a, ea = self.stmts(env, r.randrange(0, 3), 1, ind + 1)
        ta = set(self.last_block)
        return ["%s{" % pad] + a + self.tail(ea, rtys, depth - 1, ind + 1, ta, blk) + ["%s}" % pad]

    def result_expr(self, env, rtys):
        if self.in_closure:
            return self.result_expr0(env, rtys)
        parts = []
        for t in rtys:
            e = self.result_expr0(env, [t])
            if t == "uint64":
                e = "(acc ^ %s)" % e
            elif t in WIDTH:
                e = "(%s(acc) ^ %s)" % (t, e)
            elif t == "bool":
                e = "((acc %% 3 == 1) != %s)" % e
            elif t == "string":
                # the whole 64-bit range (acc is usually far above 2^63 after the wrapping arithmetic), or a small number
                e = ("(%s + machine.UInt64ToString(acc))" if self.r.random() < 0.5 else "(%s + machine.UInt64ToString(acc %% 1000))") % e
            elif t == "[]uint64":
                e = "append(%s, acc)" % e
            elif t == "[]byte":
                e = "append(%s, uint8(acc))" % e
            elif t == "*S0":
                e = "&S0{a: acc + %s.a, b: %s.b}" % (e, e) if not e.startswith("&") else "&S0{a: acc}"
            elif t == "S0":
                e = "S0{a: acc ^ %s.a, b: %s.b}" % (e, e) if not e.startswith("S0{") else "S0{a: acc, b: true}"
            parts.append(e)
        return ", ".join(parts)

    def result_expr0(self, env, rtys):
        parts = []
        for t in rtys:
            if t in ("[]uint64", "*S0", "map[uint64]uint64", "[]byte", "S0", "*uint64"):
                vs = self.vars_of(env, t)
                parts.append(self.r.choice(vs).name if vs else {"[]uint64": "make([]uint64, 1)", "*S0": "&S0{a: 1}", "map[uint64]uint64": "make(map[uint64]uint64)",
                                                                 "[]byte": "make([]byte, 2)", "S0": "S0{a: 2, b: true}", "*uint64": "new(uint64)"}[t])
            else:
                parts.append(self.expr(env, t, self.expr_depth))
        return ", ".join(parts)

    def func(self, name):
        r = self.r
        nparams = r.randrange(0, 4)
        params = []
        for k in range(nparams):
            params.append((r.choice(NAMES[:5]) + str(k), self.scalar_type()))
        rk = r.randrange(10)
        rtys = [self.scalar_type()]
        if rk == 0 and "slices" in self.f:
            rtys = ["[]uint64"]
        elif rk == 1 and "structs" in self.f:
            rtys = ["*S0"]
        elif rk == 2 and "maps" in self.f:
            rtys = ["map[uint64]uint64"]
        elif rk == 3:
            rtys = [self.scalar_type(), self.scalar_type()]
        elif rk == 5 and "bytes" in self.f:
            rtys = ["[]byte"]
        elif rk == 6 and "structs" in self.f and "methods" in self.f:
            rtys = ["S0"]
        elif rk == 7 and "pointers" in self.f:
            rtys = ["*uint64"]
        elif rk == 4:
            rtys = []
        env = [Var("seed_uint64", "uint64", False), Var("seed_uint32", "uint32", False), Var("seed_uint8", "uint8", False)] + \
              [Var(n, t, False) for n, t in params]
        seeds = ["\tseed_uint64 := uint64(%d)" % r.choice([0, 1, 5, 2 ** 64 - 1, r.randrange(2 ** 64)]), "\t_ = seed_uint64",
                 "\tseed_uint32 := uint32(%d)" % r.choice([0, 1, 7, 2 ** 32 - 1, r.randrange(2 ** 32)]), "\t_ = seed_uint32",
                 "\tseed_uint8 := uint8(%d)" % r.choice([0, 1, 9, 255, r.randrange(256)]), "\t_ = seed_uint8",
                 "\tvar acc uint64 = %d" % r.choice([0, 1, r.randrange(2 ** 64)]), "\t_ = acc"]
        lines, env = self.stmts(env, r.randrange(2, 9), 2, 1, declared={n for n, _ in params} | {"acc"})
        top = set(self.last_block)
        lines = seeds + lines
        if not rtys:
            tail = []
        else:
            tail = self.tail(env, rtys, 2, 1, top)
        sig = "func %s(%s)" % (name, ", ".join("%s %s" % (n, tyname(t)) for n, t in params))
        if len(rtys) == 1:
            sig += " " + tyname(rtys[0])
        elif len(rtys) > 1:
            sig += " (" + ", ".join(tyname(t) for t in rtys) + ")"
        body = "\n".join(lines + tail)
        self.funcs.append((name, params, rtys, sig + " {\n" + body + "\n}\n"))
        if all(t in WIDTH or t in ("bool", "string") for _, t in params) and 1 <= len(rtys) <= 2 and all(t in WIDTH or t in ("bool", "string") for t in rtys):
            self.helpers.append((name, [t for _, t in params], rtys))

    def arg_vectors(self, params, n):
        r = self.r
        out = []
        for _ in range(n):
            vec = []
            for _, t in params:
                if t in WIDTH:
                    w = WIDTH[t]
                    vec.append((t, r.choice([0, 1, 2, 2 ** w - 1, 2 ** (w - 1), r.randrange(2 ** w), r.randrange(10)])))
                elif t == "bool":
                    vec.append((t, r.choice([True, False])))
                else:
                    vec.append((t, r.choice(["", "a", "goose", "x y"])))
            out.append(vec)
        return out


ALL_FEATURES = {"widths", "strings", "loops", "slices", "maps", "structs", "calls", "conv", "shifts",
                "closures", "pointers", "bytes", "methods", "tailblock"}

METHODS = [
    "func (s *S0) getA() uint64 {\n\treturn s.a\n}\n",
    "func (s *S0) addA(v uint64) {\n\ts.a = s.a + v\n}\n",
    "func (s S0) valA() uint64 {\n\tif s.b {\n\t\treturn s.a + 1\n\t}\n\treturn s.a\n}\n",
]


def tyname(t):
    """goose knows the 8-bit type by the name `byte` only (types.Basic.Name); conversions are spelled uint8(…)"""
    return t.replace("uint8", "byte")


def go_lit(t, v):
    if t in WIDTH:
        return "%s(%d)" % (t, v)
    if t == "bool":
        return "true" if v else "false"
    return '"%s"' % v


def gl_arg(t, v):
    if t in WIDTH:
        return "%s:%d" % ({"uint64": "u64", "uint32": "u32", "uint8": "u8"}[t], v)
    if t == "bool":
        return "bool:%s" % ("true" if v else "false")
    return "str:%s" % (v.encode().hex() or "-")


def package(seed, nfuncs=12, features=None, nvec=3, expr_depth=2):
    """Returns (files, calls) — files: {name: content}; calls: [(label, fn, [gl args])]."""
    rnd = random.Random(seed)
    g = Gen(rnd, features if features is not None else ALL_FEATURES)
    g.expr_depth = expr_depth
    for k in range(nfuncs):
        g.func("f%d" % k)
    decls = [g.funcs[k][3] for k in range(len(g.funcs))]
    if "structs" in g.f:
        decls.append("type S0 struct {\n\ta uint64\n\tb bool\n}\n")
        if "methods" in g.f:
            decls += METHODS
    if getattr(g, "named_map_used", False):
        decls.append("type MB map[uint64]bool\n")
    rnd.shuffle(decls)          # declaration order differs from definition order
    body = "\n".join(decls)
    src = ["package p", ""]
    if "machine." in body:
        src += ['import "github.com/goose-lang/goose/machine"', ""]
    src.append(body)
    runner = [PRINTER, "func RunAll() {"]
    calls = []
    for name, params, rtys, _ in g.funcs:
        for vi, vec in enumerate(g.arg_vectors(params, nvec if params else 1)):
            label = "%s#%d" % (name, vi)
            args = ", ".join(go_lit(t, v) for t, v in vec)
            if len(rtys) == 0:
                runner.append("\tcall(%s, func() string { %s(%s); return show() })" % (json.dumps(label), name, args))
            elif len(rtys) == 1:
                runner.append("\tcall(%s, func() string { return show(%s(%s)) })" % (json.dumps(label), name, args))
            else:
                vs = ", ".join("r%d" % i for i in range(len(rtys)))
                runner.append("\tcall(%s, func() string { %s := %s(%s); return show(%s) })" % (json.dumps(label), vs, name, args, vs))
            calls.append((label, name, [gl_arg(t, v) for t, v in vec]))
    runner.append("}")
    files = {"p/p.go": "\n".join(src), "p/run.go": "\n".join(runner),
             "cmd/main.go": "package main\n\nimport \"example.com/m/p\"\n\nfunc main() {\n\tp.RunAll()\n}\n"}
    return files, calls
