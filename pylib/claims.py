"""What MANIFEST.json claims, per property (edited by hand; bin/mkmanifest writes the manifest)."""

HOOKS = {
    "guard": "verif",
    "enable": "go build -tags verif (harness module /verif/harness with `replace github.com/goose-lang/goose => /repo`)",
    "baseline_off_cmd": "cd /repo && GOFLAGS=-mod=mod go test -json -vet=off -count=1 -timeout 25m ./...",
    "source_commits": ["4385eebfba1ac813fc0ffcf43c01c385837a539e", "906a8cb9995f74315a89693d161d738cbaa9999e"],
    "add_only": True,
}

DEFAULT_NA = "check not built yet in this round (planned: DESIGN.md §10); nothing is claimed for it"
NOT_APPLICABLE = {}

CLAIMED = {
    "C15": dict(
        text="Machine-checked proof (Lean 4 kernel) that the codec model - an interpreter of the byte/shift tables "
             "regenerated on every run from encoding/binary's source, under the delegations regenerated from "
             "machine/prims.go - writes exactly the little-endian bytes, frames them, is inverted by Get for every "
             "value and every buffer length, and refuses short buffers before writing; the layout is also stated as "
             "arithmetic (the value read is the sum of byte_i * 256^i; byte i written is digit i in base 256) and across "
             "widths (UInt32Get of what UInt64Put wrote is the value mod 2^32; a value below 2^32 zeroes bytes 4..7); tied to the code by the "
             "regenerated facts (decide) and by a differential run of the real functions against the compiled model "
             "and a table-free specification.",
        ref="DESIGN.md §6 C15",
        note="Trusted: Lean kernel + axioms propext/Classical.choice/Quot.sound; the extractor's reading of "
             "encoding/binary and prims.go; that Go executes the straight-line byte/shift code as the model's "
             "interpreter does (sampled by the correspondence: all buffer lengths 0..16, boundary and random values). "
             "Slice capacity/aliasing not modelled.",
        tech="Lean 4 proof over regenerated codec tables + differential correspondence"),
    "C16": dict(
        text="Machine-checked proofs (Lean 4 kernel): the decimal rendering model is injective, digits-only, has no "
             "leading zero, has exactly as many characters as the number has digits (at most 20, and 20 from 10^19, for uint64) and parses back, for every natural number; MapClear (now the builtin clear, after repair 9ef6e58) leaves "
             "any map empty and usable, and the earlier range/delete loop is proved right for reflexive keys and wrong "
             "for NaN-like keys under every iteration order; Assume/Assert panic iff the argument is false; the "
             "WaitTimeout protocol (caller, helper goroutine, timer, signals, other lock users) returns with the "
             "caller owning the lock under every interleaving, never unlocks a free mutex, and the caller can always "
             "finish. Tied to the code by the regenerated canonical bodies of machine/prims.go and of "
             "primitive.WaitTimeout (decide) and by running the real functions against the compiled models; elapsed "
             "time of WaitTimeout is measured and judged with slack (runtime behaviour: partial).",
        ref="DESIGN.md §6 C16",
        note="Trusted/modelled, not verified: fmt's %d, the clear builtin's semantics (Go specification; observed on NaN, interface and struct keys), sync.Cond, sync.Mutex, "
             "time.After, select; the Go scheduler's timing (the theorem covers event order, not delays). Known "
             "finding: a ghost waiter left by a timed-out call steals the next Signal (known_findings.jsonl).",
        tech="Lean 4 proofs (induction, protocol invariant over all schedules) + differential correspondence + timed scenarios"),
    "C09": dict(
        text="Machine-checked refinement proofs (Lean 4 kernel): the MemDisk model and the FileDisk model (system calls "
             "over a modelled OS file, blocks laid out at a*4096) produce, for every history of "
             "Read/ReadTo/Write/Size/Barrier with arbitrary addresses, buffers and buffer re-use, exactly the replies of "
             "an array of independent registers, leave the client heap in the same state, hence agree with each other; "
             "spec-level theorems give last-write, frame, constant size, refusals and non-aliasing; the retry loop of "
             "FileDisk.Write is modelled over a kernel that may cut any pwrite short, and for every schedule of answers a "
             "returned Write has stored exactly its block and no Write touches a byte outside it. Tied to the code by "
             "the regenerated declarations of machine/disk and machine/async_disk (canonical text, evaluated constants, "
             "resolved aliases: rfl against committed expectations) and by running the six real variants against the "
             "compiled models and an executable specification, with shrinking of any disagreement.",
        ref="DESIGN.md §6 C09",
        note="Trusted: the OS-file model (pread/pwrite/ftruncate; a pwrite of count k stores the first k bytes at its offset), the hand-written models (tied by canonical text + "
             "sampling), offsets in unbounded Nat (equal to the code's uint64/int64 offsets for every disk NewFileDisk opens: openable_offsets_exact). ReadTo into non-block buffers is outside "
             "the quantifier (implementations differ there by design) and is compared with the models only.",
        tech="Lean 4 refinement proof (simulation, induction over histories) + regenerated facts + differential correspondence"),
    "C11": dict(
        text="Machine-checked proofs (Lean 4 kernel) over the OS-file model: opening an image of any previous length "
             "yields exactly the requested number of blocks with retained bytes preserved and new bytes zero; after any "
             "valid history followed by close or kill at any point and reopen with any size, the registers are those of "
             "the specification cut or zero-extended; the opened disk refines the register array; NewFileDisk refuses exactly the block "
             "counts whose byte length is not a file offset, and for every disk it opens the uint64/int64 offsets of the code equal the "
             "model's unbounded ones (no wrap-around, no aliasing of blocks). Failure surfacing is "
             "tied by the pinned bodies (every unix error is followed by panic/return) and exercised by strace fault "
             "injection at every pwrite64/pread64/fsync/ftruncate/fstat index (single and persistent failures, several "
             "errnos), syscall-trace conformance (an ok reply must be backed by a successful system call) and kill at "
             "every pwrite64 followed by reopen.",
        ref="DESIGN.md §6 C11",
        note="Trusted: OS-file model; fsync per POSIX; power-loss durability of the host file system is not reached; "
             "strace injection (per-thread counting, pinned child). Three genuine defects were found by this check and "
             "repaired in /repo (fix: d44e103, 256b1fc, cd5316e; known_findings.jsonl).",
        tech="Lean 4 proofs over an OS-file model + regenerated facts + differential correspondence + strace fault/kill injection"),
    "C12": dict(
        text="Machine-checked proofs (Lean 4 kernel): the MemFs model (Go maps as association lists, inode numbers "
             "len(inodes)+1, descriptors from a counter) refines the reference model Ref on every valid history "
             "(simulation preserved by each of the ten operations, lifted by induction over histories); Ref-level "
             "theorems give exclusive Create, fresh descriptors, shared hard links, Delete keeping open files, exact "
             "ReadAt ranges and exact List. DirFs (system calls over a modelled OS tree, AtomicCreate as its system-call "
             "machine) refines Ref on every valid history as well (simulation with equal inode numbers and contents, the "
             "append-offset invariant, no leftover temporary files), hence MemFs and DirFs agree; the one side condition - "
             "fewer than 2^32 descriptors handed out, because the model names AtomicCreate's internal descriptor 2^32 - is "
             "shown to be necessary for the model. Tie: regenerated declarations and system calls with evaluated flags of machine/filesys (rfl against "
             "committed expectations) and differential runs of real MemFs/DirFs (direct and through the wrappers) "
             "against the compiled Ref model with shrinking.",
        ref="DESIGN.md §6 C12",
        note="Trusted: Linux directory/file system calls behave as Ref expects (sampled); hand-written models tied by "
             "canonical text + sampling; aliasing is observed by the harness overwriting every passed/returned slice. "
             "One genuine defect found by this check and repaired (fix: db91167).",
        tech="Lean 4 refinement proof (MemFs) + regenerated facts + differential correspondence (MemFs, DirFs, wrappers)"),
    "C10": dict(
        text="Machine-checked proof (Lean 4 kernel) of a generic theorem: in a system of any number of threads that run "
             "operations as acquire(R|W); micro-steps; release under a reader/writer lock, where readers do not modify "
             "the shared state, every reachable state under every schedule has a linearisation (the order of lock "
             "acquisitions) in which each completed operation returned what it returns sequentially and real-time order "
             "is respected. Instantiated with the MemDisk protocol (block copies split in two micro-steps, so torn blocks "
             "are expressible) whose lock modes are read from lock summaries regenerated from mem.go; its sequential "
             "specification is proved equal to C09's MemDisk model. Size is lock-free and reads a field assigned only by "
             "the constructor (regenerated fact). FileDisk: commutation of writes to distinct addresses in the OS-file "
             "model; kernel atomicity assumed. Stress correspondence: porcupine + torn-block detector on MemDisk, "
             "the property's own clauses on FileDisk, race detector on both.",
        ref="DESIGN.md §5.2, §6 C10",
        note="Partial where the truth is in the runtime: the Go scheduler, the memory model (data races) and the kernel "
             "are not modelled; sync.RWMutex semantics is the Step relation's guard. A torn pread/pwrite overlap on "
             "FileDisk is outside the property and is not reported.",
        tech="Lean 4 proof (lock invariant over all schedules, linearisation = acquisition order) + lock summaries (T-gen) + porcupine/race stress"),
    "C14": dict(
        text="The generic lock theorem (see C10) instantiated with the MemFs protocol: every exported method is a writer "
             "of the mutex according to the lock summaries regenerated from mem.go (Lock first, deferred Unlock, helpers "
             "lock-free and called from locked methods), so every concurrent history of MemFs is linearizable with the "
             "sequential MemFs model as specification, which refines the reference model (C12: exclusive Create, fresh "
             "descriptors, atomic appends). DirFs: kernel atomicity of single system calls is assumed. Stress "
             "correspondence: porcupine against the reference model for MemFs and DirFs (incl. tightly raced Creates of "
             "one name), race detector.",
        ref="DESIGN.md §5.2, §6 C14",
        note="Partial where the truth is in the runtime: scheduler, memory model and kernel are not modelled; List and "
             "AtomicCreate on DirFs are multi-call by design (List is only issued on a quiet directory).",
        tech="Lean 4 proof (generic lock theorem instance) + lock summaries (T-gen) + porcupine/race stress"),
    "C18": dict(
        text="Machine-checked proofs (Lean 4 kernel) over a model of cmd/test_gen (line scanner, the deterministic matcher "
             "the two regular expressions denote, file filters, emitted text): the matcher accepts exactly the lines "
             "func<ws>[failing_]test<alnum+>(...; each generator emits exactly one entry per accepted line of each "
             "non-skipped file, in order, and nothing else; both emit the same tests; failing_ tests and only they are "
             "marked Fail in Coq. Tie: regenerated regex literals, suffix filters, main() text and header constants (rfl) "
             "and the REAL test_gen binary run on generated gofmt-formatted directories in both modes: its text must "
             "equal the model's, and its tests must be the top-level test functions go/parser finds; generated Go files "
             "of a sample are compiled (go vet).",
        ref="DESIGN.md §6 C18",
        note="Trusted: RE2 semantics of the two expressions as implemented by the hand-written matcher (sampled), "
             "bufio.Scanner and os.ReadDir behaviour. Two defects found by this check were repaired in /repo; two are "
             "known findings (header-like lines inside raw strings/comments; unused import with zero tests).",
        tech="Lean 4 proof (matcher language, generator structure) + regenerated facts + differential correspondence against the real binary and go/parser"),
    "C08": dict(
        text="Machine-checked proofs (Lean 4 kernel) over a model of the header construction whose FFI and builtin-import "
             "tables are regenerated from goose.go: Require lines contain exactly the non-builtin imports, each once, "
             "sorted, and depend only on the set of imports (not order or repetition across files); the path mapping "
             "removes every '.' and '-' and changes nothing else; header/footer follow the FFI; the FFI result is the "
             "generic one, a single FFI, or a refusal when two are seen. The import-graph walk is characterised for every "
             "graph (cycles, duplicate and missing entries included) with the model's own fuel bound: the FFIs found are exactly "
             "those of packages reachable through imports without passing through an FFI package; the result is none / that "
             "FFI / refused iff zero / exactly one / at least two different FFIs are reachable; import lists of FFI packages and "
             "of unreachable packages, and the order of imports and of graph entries, do not matter. Tie: regenerated tables and function texts (rfl) + the REAL goose binary on generated "
             "modules, judged against an independent reading of the property.",
        ref="DESIGN.md §6 C08",
        note="Trusted: packages.Visit visits each package once depth-first; github.com/mit-pdos/gokv is replaced by a local "
             "stand-in module (not in the module cache). Refusal of two FFIs currently is a panic (exit 2): a C07 matter. "
             "One defect found by this check was repaired (fix: 7839e52).",
        tech="Lean 4 proofs (sort/dedup/permutation invariance, path mapping) + regenerated tables + correspondence against the real binary"),
    "C17": dict(
        text="Machine-checked proofs (Lean 4 kernel) over the model of translate()'s loop and writeFileIfChanged: exit "
             "status 0 iff no pattern error and no package error; the files (re)written are exactly those of packages "
             "that translated (or all, under -ignore-errors) whose existing file differs, at the path derived from the "
             "import path; identical files are not rewritten; a pattern error writes nothing. Tie: regenerated text of "
             "cmd/goose and of the loader configuration (rfl) + the REAL binary on generated modules (good/bad/mixed "
             "packages, build-tag files, pattern kinds, -dir, flags, prior output states incl. three kinds of stale files); "
             "partial output is compared with goose's own output on the package minus its untranslatable declarations; "
             "source selection with `go list -tags goose`.",
        ref="DESIGN.md §6 C17",
        note="Trusted: per-package translation results are inputs of the model; source selection is tool-chain behaviour "
             "(partial, oracle = go list); run as root, so an unwritable path is a directory in the file's place.",
        tech="Lean 4 proof (decision logic) + regenerated facts + correspondence against the real binary with metamorphic oracles"),
    "C06": dict(
        text="Machine-checked proofs (Lean 4 kernel): the per-package workers are confluent - for every schedule in which "
             "each worker runs, slot j holds translatePackage(pkg j), independent of the other packages and of the order; "
             "Require lines are independent of import order and repetition. Regenerated facts (rfl) pin that the "
             "translator packages range over no map except getFfi's one-element set, write no package-level variable, "
             "and spawn only the per-package worker with the body that writes its own slots. Correspondence: the REAL "
             "binary on a generated multi-package module: each package alone vs. ./..., subsets, shuffled patterns under "
             "GOMAXPROCS 1/2/3/16 with repetitions (byte-identical files, each package exactly its own errors), plus a "
             "-race build.",
        ref="DESIGN.md §6 C06",
        note="Partial for 'free of data races': the Go memory model is not modelled; the model shows disjoint writes and no "
             "shared globals, the race detector runs are supporting evidence. go/packages' loading is outside the translator.",
        tech="Lean 4 proof (worker confluence, permutation invariance) + regenerated facts + repeated/regrouped runs of the real binary incl. -race"),
    "C07": dict(
        text="Machine-checked proofs (Lean 4 kernel) of the error-aggregation logic (the errors of a package are exactly the "
             "errors of its failing declarations, in order, none dropped or merged; appending declarations leaves the others' "
             "errors in place) and a regenerated inventory (rfl) of every place in the translator packages that can raise a "
             "raw Go panic (explicit panic, unchecked type assertion, constant index into AST child lists), so that a new "
             "site breaks an obligation. That no panic escapes a declaration is established by the repair d90bde0 in /repo "
             "(found by this check: 19 sites reached by type-correct input) and exercised on the standard library, on "
             "probe declarations aimed at every inventory site and catalogue construct under three flag sets, and on "
             "packages mixing failing and good declarations (one located error per failing declaration, documented "
             "category, position inside the declaration, good declarations still emitted).",
        ref="DESIGN.md §6 C07, Appendix G",
        note="Totality of the translator is not proved in Lean (no full translator model yet): the claim for 'never crashes' "
             "rests on the recover-and-report mechanism in the code (pinned) plus corpus runs; the standard library stands "
             "in for arbitrary type-correct Go.",
        tech="Lean 4 proof (aggregation) + regenerated panic-site inventory + corpus correspondence on the real binary"),
}

CLAIMED.update({
    "C01": dict(
        text="Machine-checked proofs (Lean 4 kernel) over models of the translator's decision logic: (1) control-flow soundness - for every "
             "statement list of any shape and nesting (early returns, break/continue through conditionals, code after conditionals, loops, blocks) "
             "that the model of stmts/stmtInBlock/ifStmt/endsWithReturn accepts, the single expression it builds computes exactly Go's control "
             "flow, for every interpretation of atoms, all states and all fuels; accepted lists never get stuck; (2) for widths 64/32/8 and all "
             "operands every row of the regenerated operator tables maps a Go operator to the GooseLang operator with Go's wrap-around meaning "
             "(+,-,*,/,%,&,|,^,<<,>>, comparisons) and to_uN is Go's conversion; (3) scoping soundness - for every program over :=, var, assignment, nested "
             "blocks and conditionals with any shadowing pattern that the model of the let/ref translation accepts, the emitted term evaluates to Go's "
             "value and is never stuck; the pre-repair translation (blocks without parentheses) provably is not sound; (4) the composition (Model/Core, "
             "core_compile_correct): for every function body over :=, var, assignment, op-assignment, ++/--, if/else, for loops with init/cond/post, break, "
             "continue, early returns, nested blocks and 64-bit wrap-around arithmetic that the model of goose accepts - and in which no loop variable "
             "hides a visible name (the listed known finding, proved necessary) - the emitted expression computes exactly Go's result for all parameters "
             "and all fuels, and is never stuck; (5) heap data (Model/Heap, heap_compile_correct): for every accepted program over struct values and "
             "pointers (incl. linked structures), uint64 cells, slices and subslices, in any related pair of heaps, the emitted term returns the related "
             "value and leaves related heaps under GooseLang's flattened representation - aliasing preserved, struct values copied, subslices share, "
             "fresh allocation disjoint; (6) collections (Model/Coll, coll_compile_correct): for every growth policy of append and every iteration order "
             "of map ranges, every accepted program over maps (insert, delete, two-result lookup, len, range) and slices (append, copy, capacities, "
             "subslices, range) returns the related value and heap; maps are references, absent keys read zero, append aliases exactly when the "
             "capacity suffices, commutatively accumulating range bodies are order-independent; (7) functions (Model/Fun, fun_compile_correct): for every "
             "accepted package of functions with 0-3 results, recursion, closures, value/pointer-receiver methods and strings, every call with related "
             "arguments returns the related results (multiple results positional, captured vars are shared cells, pointer receivers share, "
             "string/byte conversions round-trip). Tied to the code by regenerated canonical text and tables (rfl), by "
             "structural correspondences (the models' outputs equal the trees the real goose emits on random control-flow skeletons, scoping programs, "
             "Core, heap, collection and function programs, rejections and messages included; values agree with native Go and with the interpreter) and by an end-to-end differential: generated packages run natively and through the real goose plus the Lean "
             "reference interpreter (calibrated on every run against the repository's own semantics suite).",
        ref="DESIGN.md §6 C01",
        note="Proved: control flow, arithmetic, scoping, their composition with loops (Model/Core) and the heap fragment without append, maps, loops "
             "(Model/Heap), collections (Model/Coll) and functions (Model/Fun), each over a model of the corresponding translator functions whose output is compared with the real goose's on every run. "
             "Sampled, not proved: the composition of the Core, Heap, Coll and Fun models, encoders inside translated code, interfaces, generics - covered by the differential only (partial). Trusted: GL/Sem.lean as the meaning of the emitted "
             "text (reconstruction of Perennial's GooseLang, K3-calibrated), GL/Lex+Parse, the Go toolchain as the meaning of Go. Known findings "
             "(known_findings.jsonl): loop-variable scope, named-integer conversions, narrow ++/--, untyped constant operands, evaluation order, "
             "per-iteration loop variables, empty make is nil, reads of a nil map.",
        tech="Lean 4 proofs (simulation by mutual induction; BitVec arithmetic) + regenerated facts + structural correspondence + end-to-end differential"),
    "C02": dict(
        text="Machine-checked proof (Lean 4 kernel) of reject-or-faithful for the control-flow translation: for EVERY statement list and usage the "
             "model either reports a conversion error or produces an expression that agrees with Go on every interpretation, state and fuel; the "
             "shapes of the catalogue (return in the middle, return in a loop, break outside a loop, early return with else and remainder, nested "
             "early return without else) are refused; weakening the endsWithReturn guard provably yields a silent mistranslation; the same reject-or-faithful statement is proved for the "
             "composed model of variables/assignments/loops (Model/Core) and for the heap model (Model/Heap); for multiple assignments "
             "(Model/TupleAssign: whenever the translator's guard accepts the targets, evaluating each target in its turn yields the heap of Go's "
             "evaluate-all-operands-first semantics, for every environment, heap and aliasing; three rejected shapes on which they differ) and for "
             "conversions (Model/Conv: every conversion Go allows over predeclared and defined types is rejected or emitted as an operation that "
             "computes Go's result, outside the explicit known class of defined integer targets of another width) and for package-level variables "
             "(Model/Global: a global whose type holds no reference is observed by every sequence of reads/stores/loads exactly as in Go although "
             "its definition is evaluated at every use; with a reference it is not, and the guard looks inside structs and arrays). The inventory of "
             "the translator's 137 guard calls (function, reporter, message) is regenerated on every run and must equal the committed one (rfl). "
             "Tied to the code by that inventory, by the structural correspondence on random skeletons (which are rejected, and why), and by a "
             "catalogue of ~130 out-of-subset constructs x 9 positions, 12 control-flow shapes, 32 declaration forms, 18 look-alike packages and a "
             "splice stream, each function judged rejected-or-equal against native Go via the real goose and the Lean interpreter; plus two "
             "model-vs-binary streams: generated multiple assignments (goose accepts exactly when the model's guard does) and all 267 allowed "
             "conversions over the type universe (goose's outcome is the model's decision).",
        ref="DESIGN.md §6 C02",
        note="Proved: the control-flow guards, the guards of the Core and Heap models, the multiple-assignment guard, the conversion decision. Every other guard is pinned by the regenerated inventory and exercised by the catalogue (partial: "
             "a catalogue is finite). Known findings: store through let-bound values, pointer method on value, method values, := redeclaration of "
             "a var, int as unsigned, untyped constant arithmetic, variadic calls, interface conversion not emitted, FFI packages recognised by name.",
        tech="Lean 4 proof (reject-or-faithful) + regenerated guard inventory + catalogue differential against the real binary"),
    "C03": dict(
        text="Machine-checked proofs (Lean 4 kernel), parametric in the number of workers and the values and over ALL schedules, of the protocol "
             "shapes concurrent Goose programs are built from: workers under a mutex joined by a wait group (Add(k) once or Add(1) per spawn): the "
             "counter equals the unfinished workers, mutual exclusion, the join sees every update (schedule-independent result), no deadlock, no "
             "stuck thread, every schedule finite; schedule-dependent accumulators: the outcome set is exactly the permutations; hand-off through a "
             "condition variable with spurious wake-ups: the value read is the value written, progress; and the mutation witnesses (Add mismatch, "
             "private copies of captured variables) provably break them. Tied to the code by the regenerated text of goStmt/spawnExpr/lockMethod/"
             "condVarMethod/waitGroupMethod (rfl) and by running generated race-free programs natively (many runs, race detector, watchdog) and "
             "through the real goose plus an exhaustive scheduler of the Lean interpreter: Go outcomes must be GooseLang outcomes, and "
             "schedule-independent programs must have exactly one. In addition (Model/Conc, 28 theorems): a label-preserving bisimulation up to "
             "administrative steps between the small-step thread-pool semantics of every accepted program of go/mutex/wait-group/condition-variable "
             "statements and of its translation; hence every Go outcome under every schedule is an outcome of the emitted program (under Go's sync.Cond "
             "reading and under Perennial's), no new deadlock or stuck thread, captured variables are shared cells; tied by the tree goose emits, "
             "by exhaustive exploration of the emitted text and by native runs.",
        ref="DESIGN.md §6 C03",
        note="The theorems are about protocol models, not about the emitted text; the emitted text is covered by the exhaustive scheduler on "
             "generated instances (partial: bounded programs; Go's schedules are sampled, so a Go-only outcome can be missed, never invented). "
             "Interleaving at synchronisation points only is exhaustive for data-race-free programs (assumption; race detector on every package).",
        tech="Lean 4 proofs (invariants over all schedules) + regenerated facts + exhaustive scheduling of emitted programs vs native runs"),
    "C04": dict(
        text="Machine-checked proofs (Lean 4 kernel) over the model of Ctx.Decls: whatever the dependency graph (cycles and self-references "
             "included) every declaration is emitted exactly once; when the graph is acyclic apart from self-loops every declaration is emitted "
             "after everything it mentions; names resolve to the last declaration defining them, and to their own declaration when names are "
             "distinct; the unit of ordering is a single declaration or ONE SPEC of a const/var group (declUnits), so definition-before-use holds "
             "spec by spec whatever order the specs of a group, or of groups that mention each other, are written in. Tied to the code by the regenerated text of Decls/declUnits/sortedFiles/depTracker (rfl), by a hook (build tag verif) through which "
             "the names and dependencies goose recorded and the order it emitted are read from the real code and compared with the model's order, and "
             "by an independent structural check of the emitted file (each expected name once, every definition mentions only definitions above it, "
             "never itself as a global) over generated packages in several declaration orders and file splits.",
        ref="DESIGN.md §6 C04",
        note="Trusted: the hook repeats the first loop of Decls; the parser reads what Coq reads. The completeness of the dependency recording "
             "itself (every reference kind calls addDep) is not proved; it is checked order-independently through the hook: on every generated layout "
             "and on the repository's ten example packages every same-package definition a unit's emitted text mentions must be among the "
             "dependencies recorded for that unit (partial: a sample of programs). Known findings: method-name-collision, interface-conversion-order.",
        tech="Lean 4 proof (DFS emission: permutation + topological order) + hook-based correspondence + structural check over layouts"),
    "C05": dict(
        text="Machine-checked proofs (Lean 4 kernel): the comment sanitiser (three steps of AddComment) leaves no comment opener or closer, keeps "
             "everything else in place, and EVERY comment text - any characters, delimiters, quotes, newlines - is skipped by a Coq-style lexer "
             "(nested comments, strings inside comments) exactly up to the delimiter goose printed, also as an indented block; a string literal "
             "without quotes is read back as itself whatever it contains; for every precedence and associativity table a precedence-climbing "
             "parser reads text printed with goose's needs_paren discipline back to the same tree (the seeded unparenthesised variant provably "
             "re-associates). Tied to the code by the regenerated text of the printer functions (rfl), "
             "by comparing every printed doc comment with the model's prediction, and by translating hostile packages under all 8 flag "
             "combinations: every output lexes and parses, defines exactly the expected names, evaluates to Go's values, and every definition "
             "has the same parse tree under every flag combination; nesting is covered by deep random expressions evaluated on both sides.",
        ref="DESIGN.md §6 C05",
        note="Trusted: GL/Lex.lean as Coq's lexical conventions (calibrated on the gold files). The parenthesisation theorem is over a model of the printer's discipline "
             "(atoms, binary operators, ~, applications, if, deref); its tie to coq.go is the regenerated text plus the end-to-end evaluation. Known finding: Coq keywords as identifiers.",
        tech="Lean 4 proofs (sanitiser and lexer) + regenerated printer facts + hostile-text correspondence against the real binary"),
    "C13": dict(
        text="Machine-checked proofs (Lean 4 kernel) over the system-call model of DirFs.AtomicCreate with arbitrary disturbance (crash after "
             "any number of system calls, any single failing call, any short-write pattern): dir/name is as before or exactly the data "
             "(volatile and durable), exact after a normal return whatever was left behind, undisturbed calls return normally, the data is durable "
             "before the name points to it, other names are untouched, a retry after any interrupted call succeeds; the side conditions hold on "
             "every reachable state. Tied to the code by the regenerated facts of machine/filesys (rfl) and by running the real code under strace "
             "fault and kill injection at every system call, with leftovers, plus concurrent creators (interference).",
        ref="DESIGN.md §6 C13",
        note="Concurrent calls are covered by the stress correspondence only (partial: runtime interleavings). Trusted: the OS model "
             "(page cache vs durable contents, rename atomicity).",
        tech="Lean 4 proofs over an OS model + regenerated facts + strace fault/kill injection + concurrent stress"),
})
