"""C06 — translation is deterministic and packages do not influence each other.

Proof: Props/C06.lean (no map iteration / shared globals in the translator: regenerated facts; the
per-package workers are confluent; imports are order-independent). Correspondence: the REAL goose
binary on a generated module of many packages (forward references to several later declarations,
several files, imports, failing packages): every package translated alone, then in repeated,
regrouped, reordered invocations under several GOMAXPROCS values — files must be byte-identical
and every package must get exactly its own errors; the same under a -race build.
"""
import collections
import os
import random
import re
import shutil
import subprocess

import common as C
import gomod

LEVEL = "proof"


def gen_pkg(rnd, name, k, bad):
    """A package whose first function calls several helpers declared later (and in a later file)."""
    n = rnd.randrange(3, 7)
    helpers = ["helper%d_%d" % (k, i) for i in range(n)]
    order = helpers[:]
    rnd.shuffle(order)
    f0 = ["package %s" % name, "", "import \"github.com/tchajed/marshal\"" if rnd.random() < 0.4 else "", "",
          "type Rec%d struct {" % k, "\ta uint64", "\tb uint64", "}", "",
          "func Top%d(x uint64) uint64 {" % k,
          "\treturn " + " + ".join("%s(x)" % h for h in order), "}", ""]
    if "marshal" in f0[2]:
        f0 += ["func Enc%d() []byte {" % k, "\treturn marshal.NewEnc(8).Finish()", "}", ""]
    f1 = ["package %s" % name, ""]
    for i, h in enumerate(helpers):
        target = f0 if i % 2 == 0 else f1
        target += ["func %s(x uint64) uint64 {" % h, "\tr := Rec%d{a: x, b: %d}" % (k, i), "\treturn r.a + r.b", "}", ""]
    if bad:
        f1 += ["func Bad%d(s []uint64) []uint64 {" % k, "\treturn s[%d:1:2]" % (k % 2), "}", ""]
    return {"a.go": "\n".join(l for l in f0 if l is not None), "z.go": "\n".join(f1)}


def per_package_errors(stderr, dirs):
    """{dir: sorted list of (category, message, file relative to the module, line)}"""
    import c07
    res = {d: [] for d in dirs}
    for cat, msg, f, line in c07.parse_errors(stderr):
        if f is None:
            continue
        m = re.search(r"/m/([^/]+)/([^/]+\.go)$", f)
        if m and m.group(1) in res:
            res[m.group(1)].append([cat, msg, m.group(2), line])
    return {d: sorted(v) for d, v in res.items()}


def check(ctx):
    build = C.ensure_built("C06", ["translator"], extra_go=gomod.EXTRA_GO_RACE)
    scratch = C.scratch()
    found = False
    stats = collections.Counter()
    rnd = random.Random(ctx.seed)

    def viol(what, inp, expected, observed):
        nonlocal found
        if not found:
            found = True
            ctx.violation("counterexample", "goose output depends on the invocation: " + what, dict(inp, proto="cli-determinism"),
                          expected=expected, observed=observed)
    try:
        ndirs = 7 if ctx.tier == "quick" else 13
        dirs = ["p%02d" % i for i in range(ndirs)]
        bad = {d: (i % 3 == 1) for i, d in enumerate(dirs)}
        pkgs = {d: gen_pkg(rnd, d, i, bad[d]) for i, d in enumerate(dirs)}
        # packages that are related to each other: two with the same package name (one uses the disk FFI), and one that
        # reaches the FFI only through another package of the same invocation
        pkgs["x/same"] = {"f.go": "package same\n\nimport \"github.com/goose-lang/goose/machine/disk\"\n\nfunc UseDisk() uint64 {\n\treturn disk.Size()\n}\n"}
        pkgs["y/same"] = {"f.go": "package same\n\nfunc Plain() uint64 {\n\treturn 1\n}\n"}
        pkgs["via"] = {"f.go": "package via\n\nimport \"example.com/m/x/same\"\n\nfunc Via() uint64 {\n\treturn same.UseDisk()\n}\n"}
        # packages that share TYPES: struct types and methods of one package used by others of the same invocation
        pkgs["shapes"] = {"f.go": "package shapes\n\ntype Point struct {\n\tX uint64\n\tY uint64\n}\n\nfunc (p Point) Norm() uint64 {\n\treturn p.X + p.Y\n}\n\n"
                                  "func (p *Point) Move(d uint64) {\n\tp.X = p.X + d\n}\n\nfunc Origin() Point {\n\treturn Point{X: 0, Y: 0}\n}\n\nfunc Far(p Point) *Point {\n\treturn &Point{X: p.X + 100, Y: p.Y}\n}\n"}
        for nm in ("usea", "useb"):
            pkgs[nm] = {"f.go": "package %s\n\nimport \"example.com/m/shapes\"\n\ntype Box struct {\n\tcorner shapes.Point\n\tfar *shapes.Point\n}\n\n"
                                "func Mk(p shapes.Point) Box {\n\treturn Box{corner: p, far: shapes.Far(p)}\n}\n\n"
                                "func Size(b Box) uint64 {\n\tb.far.Move(1)\n\treturn b.corner.Norm() + b.far.Norm() + shapes.Origin().Norm()\n}\n" % nm}
        for d in ("via", "x/same", "y/same", "shapes", "usea", "useb"):
            dirs.append(d)
            bad[d] = False
        root = os.path.join(scratch, "m")
        gomod.write_module(root, pkgs)
        # reference: every package alone
        ref_files, ref_errs = {}, {}
        for d in dirs:
            out = os.path.join(scratch, "ref-" + d)
            rc, so, se = gomod.run_goose(root, ["-ignore-errors"], ["./" + d], out=out)
            t = gomod.tree(out)
            ref_files[d] = {k: v[0] for k, v in t.items()}
            ref_errs[d] = per_package_errors(se, dirs)[d]
            stats["solo_runs"] += 1
            if bad[d] != bool(ref_errs[d]):
                raise C.Infra("generator: package %s expected bad=%s, errors %s" % (d, bad[d], ref_errs[d]))
        # grouped / reordered / repeated invocations
        plans = []
        for gmp in (["1", "2", "3", "16"] if ctx.tier == "quick" else ["1", "2", "3", "4", "5", "16"]):
            plans.append((gmp, ["./..."]))
            sub = rnd.sample(dirs, rnd.randrange(2, len(dirs)))
            plans.append((gmp, ["./" + d for d in sub]))
            sh = dirs[:]
            rnd.shuffle(sh)
            plans.append((gmp, ["./" + d for d in sh]))
            plans.append((gmp, ["./" + d for d in dirs[:3]]))
        reps = 2 if ctx.tier == "quick" else 8
        for rep in range(reps):
            for gmp, patterns in plans:
                out = os.path.join(scratch, "out")
                shutil.rmtree(out, ignore_errors=True)
                ign = (stats["group_runs"] % 3 != 2)          # every third run WITHOUT -ignore-errors: failing packages write nothing
                rc, so, se = gomod.run_goose(root, ["-ignore-errors"] if ign else [], patterns, out=out, env_extra={"GOMAXPROCS": gmp})
                stats["group_runs"] += 1
                matched = dirs if patterns == ["./..."] else [p[2:] for p in patterns]
                t = gomod.tree(out)
                got_errs = per_package_errors(se, dirs)
                inp = {"packages": {d: pkgs[d] for d in matched[:3]}, "all_package_dirs": dirs, "patterns": patterns, "GOMAXPROCS": gmp, "flags": ["-ignore-errors"] if ign else []}
                if "DATA RACE" in se or (re.search(r"^goroutine \d+ \[", se, re.M) and "panic" in se):
                    viol("crash or race report", inp, "clean run", se[:1500])
                want_files = {}
                for d in matched:
                    if ign or not bad[d]:
                        want_files.update(ref_files[d])
                got_files = {k: v[0] for k, v in t.items()}
                if got_files != want_files:
                    missing = sorted(set(want_files) - set(got_files))
                    differ = sorted(k for k in want_files if k in got_files and got_files[k] != want_files[k])
                    viol("files differ from the per-package translation", inp, "each file byte-identical to translating its package alone",
                         {"missing": missing, "different": differ, "extra": sorted(set(got_files) - set(want_files))})
                for d in matched:
                    if got_errs[d] != ref_errs[d]:
                        viol("a package's errors differ from translating it alone", inp, {d: ref_errs[d]}, {d: got_errs[d]})
                expect_fail = any(bad[d] for d in matched)
                if (rc != 0) != expect_fail:
                    viol("exit status", inp, "non-zero iff a matched package has an error", {"exit": rc})
        # the error LIST: packages that fail to load and packages with conversion errors, of very different sizes (so the
        # workers finish in varying order); the whole error output must be the same in every run
        m2 = {}
        for i in range(5):
            filler = "".join("func F%d_%d(x uint64) uint64 {\n\treturn x + %d\n}\n\n" % (i, j, j) for j in range((5 - i) * 120 if i % 2 == 0 else 3))
            m2["l%d" % i] = {"p.go": "package l%d\n\n%sfunc Broken() uint64 {\n\treturn undefined%d\n}\n" % (i, filler, i)}
        for i in range(3):
            m2["c%d" % i] = gen_pkg(rnd, "c%d" % i, 100 + i, True)
        # error messages that print a type, a key or an expression of the source must print the SOURCE (not an address or a position in
        # the file set, which change from run to run and with the set of co-translated packages)
        # … and a declaration on which the translator fails internally (recovered panic): its report must not contain a stack dump
        m2["k1"] = {"p.go": "package k1\n\ntype Buf []byte\n\nfunc Fill(b Buf, x []byte) uint64 {\n\treturn uint64(copy(b, x))\n}\n\nfunc Other() uint64 {\n\treturn 3\n}\n"}
        m2["k0"] = {"p.go": "package k0\n\nfunc KeyArray() map[[2]byte]uint64 {\n\treturn nil\n}\n\nfunc KeyPtr() map[*uint64]uint64 {\n\treturn nil\n}\n\n"
                            "type R struct {\n\tf map[[3]uint64]bool\n}\n\nfunc Chan(c chan uint64) {\n\tc <- 1\n}\n\nfunc Sel(a [4]uint64) uint64 {\n\treturn a[1]\n}\n"}
        # a package of several files with a conversion error in each (the files are parsed concurrently by the loader), and a package
        # that reaches two FFIs (refused: the same refusal, or the same header, every time)
        m2["mf"] = dict(("f%d.go" % i, "package mf\n\nfunc Sw%d(x uint64) uint64 {\n\tswitch x {\n\tcase %d:\n\t\treturn 1\n\t}\n\treturn 0\n}\n\nfunc Ok%d() uint64 {\n\treturn %d\n}\n" % (i, i, i, i))
                        for i in range(8))
        m2["both"] = {"p.go": "package both\n\nimport (\n\t\"github.com/goose-lang/goose/machine/async_disk\"\n\t\"github.com/goose-lang/goose/machine/disk\"\n)\n\n"
                              "func Sizes(d disk.Disk, a async_disk.Disk) uint64 {\n\treturn d.Size() + a.Size()\n}\n"}
        root2 = os.path.join(scratch, "m2")
        gomod.write_module(root2, m2)
        first = None
        first_tree = None
        for r in range(8 if ctx.tier == "quick" else 40):
            gmp = ["16", "4", "2", "1"][r % 4]
            rc, so, se = gomod.run_goose(root2, ["-ignore-errors"], ["./..."], out=os.path.join(scratch, "out2"), env_extra={"GOMAXPROCS": gmp})
            stats["error_list_runs"] += 1
            tree2 = {rel: c for rel, (c, _, _) in gomod.tree(os.path.join(scratch, "out2")).items()}
            shutil.rmtree(os.path.join(scratch, "out2"), ignore_errors=True)
            if first is None:
                first = se
                first_tree = tree2
                # the errors of one package come file by file (sorted file names), top to bottom
                mf_files = re.findall(r"^  src: \S*/mf/(f\d\.go):", se, re.M)
                if mf_files != sorted(mf_files) or len(mf_files) != 8:
                    viol("the errors of a package with several files are not listed file by file in the order of the file names",
                         {"package": m2["mf"], "patterns": ["./..."], "flags": ["-ignore-errors"]}, ["f%d.go" % i for i in range(8)], mf_files)
            elif tree2 != first_tree:
                dif = sorted(k for k in set(tree2) | set(first_tree) if tree2.get(k) != first_tree.get(k))
                viol("the files written differ between two runs over the same packages",
                     {"sources": {d: {f: t[:400] for f, t in fs.items()} for d, fs in m2.items() if d in ("both", "mf", "k0", "k1")}, "patterns": ["./..."], "GOMAXPROCS": gmp, "flags": ["-ignore-errors"]},
                     "identical files in every run", {"files_that_differ": dif[:4], "run_1": (first_tree.get(dif[0]) or b"").decode()[:400], "run_%d" % (r + 1): (tree2.get(dif[0]) or b"").decode()[:400]})
                break
            elif se != first:
                a, b = first.splitlines(), se.splitlines()
                k = next((i for i in range(min(len(a), len(b))) if a[i] != b[i]), min(len(a), len(b)))
                viol("the error list differs between two runs over the same packages",
                     {"packages": "5 packages that do not type-check (l0..l4, sizes from 3 to 600 functions) and 3 with a conversion error (c0..c2)",
                      "sources": {d: {f: t[:400] for f, t in fs.items()} for d, fs in m2.items()}, "patterns": ["./..."], "GOMAXPROCS": gmp, "flags": ["-ignore-errors"]},
                     "identical error output in every run", {"first_difference_at_line": k, "run_1": a[k:k + 4], "run_%d" % (r + 1): b[k:k + 4]})
                break
        # packages whose output paths coincide (a-b / a_b), one of them much bigger than the other, with a package between them: the same
        # refusal, the same kept file and the same exit status on every run — into a fresh directory, again into the same directory,
        # and under every GOMAXPROCS (the workers finish in another order)
        fnc = "func %s%d() uint64 {\n\treturn %d\n}\n"
        colm = {"x/a-b": {"f.go": "package ab\n\n" + "\n".join(fnc % ("Dash", i, i) for i in range(400))},
                "x/a-b/sub": {"f.go": "package sub\n\n" + fnc % ("Sub", 0, 1)},
                "x/a_b": {"f.go": "package a_b\n\n" + fnc % ("Under", 0, 2)}}
        rootc = os.path.join(scratch, "colm")
        gomod.write_module(rootc, colm)
        firstc = None
        for r in range(8 if ctx.tier == "quick" else 30):
            gmp = ["16", "1", "4", "2"][r % 4]
            fresh = r % 2 == 0
            if fresh:
                shutil.rmtree(os.path.join(rootc, "Goose"), ignore_errors=True)
            rc, so, se = gomod.run_goose(rootc, [], ["./..."], env_extra={"GOMAXPROCS": gmp})
            stats["collision_runs"] += 1
            obs = (rc, se, {rel: c for rel, (c, _, _) in gomod.tree(os.path.join(rootc, "Goose")).items()})
            if firstc is None:
                firstc = obs
                # which file survives is fixed by the order of the packages (the first one keeps its file), not by which worker is done first
                kept = obs[2].get("example_com/m/x/a_b.v", b"").decode()
                if obs[0] == 0 or "Definition Dash0" not in kept:
                    viol("packages whose output paths coincide: the outcome is not the one the order of the packages determines",
                         {"packages": {d: {f: t[:200] for f, t in fs.items()} for d, fs in colm.items()}, "patterns": ["./..."], "GOMAXPROCS": gmp},
                         {"exit": "non-zero", "x/a_b.v": "the translation of x/a-b (the first of the two in the order of the import paths)"},
                         {"exit": obs[0], "x/a_b.v_starts": kept[:300], "stderr": obs[1][-300:]})
                    break
            elif obs != firstc:
                what = "exit status" if obs[0] != firstc[0] else "error text" if obs[1] != firstc[1] else "files"
                viol("packages whose output paths coincide: the %s differs between runs" % what,
                     {"packages": {d: {f: t[:200] for f, t in fs.items()} for d, fs in colm.items()}, "patterns": ["./..."], "GOMAXPROCS": gmp, "output_directory": "fresh" if fresh else "left from the previous run"},
                     "the same outcome on every run", {"run_1": {"exit": firstc[0], "stderr": firstc[1][-300:], "files": sorted(firstc[2])},
                                                      "run_%d" % (r + 1): {"exit": obs[0], "stderr": obs[1][-300:], "files": sorted(obs[2]),
                                                                           "first_definitions": {k: v.decode()[:160] for k, v in obs[2].items() if firstc[2].get(k) != v}}})
                break
        # what an earlier run left in the output directory must not matter (also for a package with an FFI prelude, whose file has no footer)
        rt_pkgs = dict(gomod.RT_PACKAGE)
        rt_pkgs["dk"] = {"d.go": "package dk\n\nimport \"github.com/goose-lang/goose/machine/disk\"\n\nfunc Blocks() uint64 {\n\treturn disk.Size()\n}\n\nfunc Last() uint64 {\n\treturn disk.Size() - 1\n}\n"}
        found = gomod.retranslate_stream(ctx, scratch, "goose output depends on what an earlier run left in the output directory", found, pkgs=rt_pkgs)
        # race detector
        nrace = 6 if ctx.tier == "quick" else 40
        for r in range(nrace):
            out = os.path.join(scratch, "out")
            shutil.rmtree(out, ignore_errors=True)
            rc, so, se = gomod.run_goose(root, ["-ignore-errors"], ["./..."], out=out, binary=os.path.join(C.BIN, "goose-race"),
                                         env_extra={"GOMAXPROCS": rnd.choice(["2", "4", "8"]), "GORACE": "halt_on_error=0"})
            stats["race_runs"] += 1
            if "DATA RACE" in se:
                i = se.index("WARNING: DATA RACE")
                viol("the race detector reports a data race", {"patterns": ["./..."], "binary": "goose built with -race"}, "no data race", se[i:i + 2500])
                break
    finally:
        shutil.rmtree(scratch, ignore_errors=True)
    C.report_broken_obligations(ctx, build, found)
    ctx.coverage.update({
        "evaluations": stats["solo_runs"] + stats["group_runs"] + stats["race_runs"],
        "distinct_nontrivial": stats["group_runs"] // max(1, (2 if ctx.tier == "quick" else 8)) + stats["solo_runs"],
        "rule": "one generated module of %d packages (two files each; the first function of every package calls 3-6 helpers declared later, half of "
                "them in the other file; a third of the packages contain an untranslatable declaration); each package is translated alone "
                "(reference), then the module is translated with ./..., random subsets, shuffled pattern orders and a 3-package prefix under "
                "GOMAXPROCS 1/2/3/16, each plan repeated; finally a -race build runs ./... several times. distinct = distinct (plan, GOMAXPROCS) "
                "pairs + solo runs" % ndirs,
        "samples": [{"package_dir": dirs[1], "files": pkgs[dirs[1]], "errors_alone": ref_errs[dirs[1]]}],
        "stats": dict(stats),
    })
    if ctx.tier == "thorough" and not build.broken:
        ok, out = C.leanchecker("GooseVerif.Props.C06")
        ctx.coverage["leanchecker"] = "ok" if ok else out
    ctx.assumptions += [
        "go/packages returns the same syntax trees for the same sources (the loader is outside the translator)",
        "data-race freedom is runtime behaviour: the model shows the workers write disjoint slots and share no globals; the -race runs are supporting evidence (partial)",
    ]
    return ctx.finish(build)


def replay(ctx, path):
    return check(ctx)
