"""Second stream of C02: functions of the subset generator (pylib/gogen.py) with one catalogue
statement spliced in front of a randomly chosen statement, so that out-of-subset constructs meet
arbitrary surrounding code (loops, early returns, closures, shadowed names)."""
import os
import random
import re

import c02cat
import gogen
import k4


def splice(src, rnd):
    """returns (new source, [(function, entry id)])"""
    out = []
    tagged = []
    entries = sorted(c02cat.STMTS)
    for decl in re.split(r"\n(?=func |type )", src):
        m = re.match(r"func (f\d+)\(", decl)
        if not m or rnd.random() < 0.3:
            out.append(decl)
            continue
        lines = decl.split("\n")
        start = next((i for i, l in enumerate(lines) if l.strip() == "_ = acc"), None)
        if start is None:
            out.append(decl)
            continue
        cands = [i for i in range(start + 1, len(lines) - 1)
                 if re.match(r"^\t+[^\t}]", lines[i]) and not lines[i].strip().startswith(("} else", "case ", "default:"))
                 and not lines[i - 1].rstrip().endswith((",", "("))]
        if not cands:
            out.append(decl)
            continue
        i = rnd.choice(cands)
        depth = len(lines[i]) - len(lines[i].lstrip("\t"))
        eid = rnd.choice(entries)
        stmt = c02cat.indent("{\n\ta := acc + 1\n\tb := acc + 2\n\t_ = a\n\t_ = b\n" + c02cat.indent(c02cat.STMTS[eid], 1) + "\n}", depth)
        lines[i:i] = stmt.split("\n")
        out.append("\n".join(lines))
        tagged.append((m.group(1), eid))
    return "\n".join(out), tagged


def run(ctx, scratch, known):
    n = 6 if ctx.tier == "quick" else 150
    seeds = range(ctx.seed * 1000 + 500000, ctx.seed * 1000 + 500000 + n)
    tags = {}

    def make(seed):
        files, calls = gogen.package(seed, nfuncs=10)
        rnd = random.Random(seed ^ 0x5EED)
        src, tagged = splice(files["p/p.go"], rnd)
        files = dict(files)
        files["p/p.go"] = src + "\n" + c02cat.HELPERS_REST
        tags[seed] = dict(tagged)
        return files, calls
    for seed, files, calls, r in k4.campaign(seeds, scratch, make):
        res = {"functions": 0, "rejected": 0, "faithful": 0, "known": [], "violation": None}
        tg = tags[seed]
        if r["parse_error"]:
            res["violation"] = {"what": "C02 splice: the emitted file cannot be read back as GooseLang", "input": {"proto": "k4-splice", "seed": seed, "package": files["p/p.go"][:12000]},
                                "expected": "well-formed output", "observed": r["parse_error"]}
            yield res
            continue
        bad = {}
        for m in r["mismatches"]:
            bad.setdefault(m["fn"], m)
        for fn in sorted({c[1] for c in calls}):
            res["functions"] += 1
            if fn in r["rejected"] or fn in r.get("tainted", ()):
                res["rejected"] += 1
                if fn not in tg and fn in r["rejected"] and res["violation"] is None:
                    res["violation"] = {"what": "C02 splice: an unmodified subset function is rejected", "input": {"proto": "k4-splice", "seed": seed, "function": fn, "go_source": k4.func_source(files, fn)},
                                        "expected": "accepted", "observed": r["goose_stderr"][-800:]}
                continue
            if fn in bad:
                eid = tg.get(fn)
                if eid not in known:
                    # it may call a function that contains a spliced construct of a listed finding
                    seen, todo = set(), [fn]
                    while todo:
                        g = todo.pop()
                        if g in seen:
                            continue
                        seen.add(g)
                        if g != fn and tg.get(g) in known and (g in bad or g in r["rejected"]):
                            eid = tg[g]
                            break
                        todo += re.findall(r"\b(f\d+)\(", k4.func_source(files, g) or "")
                if eid in known:
                    res["known"].append((eid, "spliced into generated code"))
                    continue
                if res["violation"] is None:
                    m = bad[fn]
                    res["violation"] = {"what": "C02 splice: goose accepts a function containing an out-of-subset construct and the emitted GooseLang does not behave like Go",
                                        "input": {"proto": "k4-splice", "seed": seed, "entry": eid, "function": fn, "go_source": k4.func_source(files, fn),
                                                  "emitted": k4.emitted_def(r["text"], fn), "args": m["args"]},
                                        "expected": {"go": m["go"], "or": "a conversion error"}, "observed": {"gooselang": m["gl"]}}
            else:
                res["faithful"] += 1
        yield res
