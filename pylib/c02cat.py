"""Catalogue for C02 (DESIGN Appendix B): out-of-subset and look-alike constructs, each inserted at
every position of a set of subset contexts.  Every (entry, context) pair is one Go function
`func(a uint64, b uint64) uint64`; goose must either reject it or translate it faithfully.

Statement entries act on `acc` (declared `var acc uint64`), may read the parameters a and b, may use
the package-level helpers below, and are valid, terminating, panic-free Go at every context."""

HELPERS_S0 = '''
type S0 struct {
	a uint64
	b bool
}

func (s *S0) getA() uint64 {
	return s.a
}

func (s *S0) addA(v uint64) {
	s.a = s.a + v
}

func (s S0) valA() uint64 {
	return s.a + 1
}

'''

HELPERS_REST = '''
func add1(p *uint64) {
	*p = *p + 1
}

func two() (uint64, uint64) {
	return 10, 20
}

func id(x uint64) uint64 {
	return x
}

func (s *S0) add2m(x uint64, y uint64) uint64 {
	return s.a + x*3 + y
}

func add2(x uint64, y uint64) uint64 {
	return x*3 + y
}

func sum3(xs ...uint64) uint64 {
	var t uint64
	for _, x := range xs {
		t = t + x
	}
	return t
}

type E0 struct {
	S0
	c uint64
}

type M0 struct {
	x, y uint64
}

type U16 uint16

type Nm string

type H0 struct {
	cb func(uint64) uint64
	n  uint64
}
'''

HELPERS = HELPERS_S0 + HELPERS_REST

# id -> statement text (lines joined with \n; indented by the context)
STMTS = {
    "shl-assign": "acc <<= 3",
    "shr-assign": "acc >>= 1",
    "mul-assign": "acc *= 3",
    "quo-assign": "acc /= 3",
    "rem-assign": "acc %= 7",
    "andnot-assign": "acc &^= 5",
    "switch-tag": "switch acc % 3 {\ncase 0:\n\tacc = 5\ncase 1:\n\tacc = 6\ndefault:\n\tacc = 7\n}",
    "switch-notag": "switch {\ncase acc > 5:\n\tacc = 1\ndefault:\n\tacc = 2\n}",
    "defer": "dx := new(uint64)\ndefer add1(dx)\n*dx = *dx * 2\nacc += *dx + 3",
    "goto": "goto done\ndone:\n\tacc += 1",
    "labelled-continue": "outer:\n\tfor i := uint64(0); i < 3; i++ {\n\t\tfor j := uint64(0); j < 3; j++ {\n\t\t\tif j == 1 {\n\t\t\t\tcontinue outer\n\t\t\t}\n\t\t\tacc += 1\n\t\t}\n\t}",
    "labelled-break": "outer:\n\tfor i := uint64(0); i < 3; i++ {\n\t\tfor j := uint64(0); j < 3; j++ {\n\t\t\tif j == 1 {\n\t\t\t\tbreak outer\n\t\t\t}\n\t\t\tacc += 1\n\t\t}\n\t}",
    "if-init": "if t := acc + 1; t > 3 {\n\tacc = t + 5\n}",
    "for-two-vars": "for i, j := uint64(0), uint64(5); i < j; i++ {\n\tacc += j\n}",
    "for-init-assign": "var fi uint64\nfor fi = 2; fi < 4; fi++ {\n\tacc += fi\n}",
    "for-post-opassign": "for i := uint64(0); i < 5; i += 2 {\n\tacc += i\n}",
    "for-post-decl-other": "var fo uint64\nfor i := uint64(0); i < 3; fo++ {\n\ti = i + 1\n\tacc += fo\n}",
    "slice-literal-multi": "sl := []uint64{1, 2, 3}\nacc += sl[1]",
    "slice-literal-empty": "sl := []uint64{}\nacc += uint64(len(sl))",
    "map-literal": "ml := map[uint64]uint64{1: 2}\nacc += ml[1]",
    "array-var": "var arr [3]uint64\narr[2] = 4\nacc += arr[2]",
    "array-literal": "arr := [3]uint64{1, 2, 3}\nacc += arr[2]",
    "struct-unkeyed": "su := S0{3, true}\nacc += su.a",
    "struct-anonymous": "sa := struct{ a uint64 }{a: 3}\nacc += sa.a",
    "slice3": "s3 := make([]uint64, 3)\nt3 := append(s3[0:1:1], 7)\nacc += s3[1] + t3[1]",
    "slice3-low-omitted": "s3 := make([]uint64, 3)\nt3 := append(s3[:1:1], 7)\nacc += s3[1] + t3[1]",
    "slice-full": "sf := make([]uint64, 3)\ntf := sf[:]\ntf[0] = 5\nacc += sf[0]",
    "string-slice": "str := \"hello\"\nacc += uint64(len(str[1:]))",
    "string-escaped-quote-hex": "str := \"a\\x22\\x22b\"\nacc += uint64(len(str))",
    "string-escaped-quote-octal": "str := \"a\\042\\042b\"\nacc += uint64(len(str))",
    "string-escaped-quote-unicode": "str := \"a\\u0022\\u0022b\"\nacc += uint64(len(str))",
    "string-escaped-quote-plain": "str := \"a\\\"\\\"b\"\nacc += uint64(len(str))",
    "string-raw-quote": "str := `a\"\"b`\nacc += uint64(len(str))",
    "string-newline": "str := \"a\\nb\"\nacc += uint64(len(str))",
    "rune-literal": "var ru rune = 'a'\nacc += uint64(ru)",
    "float": "fl := 1.5\nacc += uint64(fl * 2)",
    "assign-to-define-local": "xd := uint64(5)\nxd = 6\nacc += xd",
    "incdec-define-local": "xd := uint64(5)\nxd++\nacc += xd",
    "opassign-define-local": "xd := uint64(5)\nxd += 2\nacc += xd",
    "incdec-field": "pf := &S0{a: 1}\npf.a++\nacc += pf.a",
    "incdec-element": "se := make([]uint64, 1)\nse[0]++\nacc += se[0]",
    "incdec-deref": "wd := new(uint64)\n*wd++\nacc += *wd",
    "opassign-deref": "wd := new(uint64)\n*wd += 4\nacc += *wd",
    "multi-var-decl": "var mx, my uint64 = 1, 2\nacc += mx + my",
    "var-group": "var (\n\tgx uint64 = 1\n\tgy uint64 = 2\n)\nacc += gx + gy",
    "local-const": "const kc = 3\nacc += kc",
    "local-type": "type LT struct {\n\tq uint64\n}\nlt := LT{q: 4}\nacc += lt.q",
    "unary-minus": "acc = -acc",
    "unary-plus": "acc = +acc",
    "unary-xor": "acc = ^acc",
    "andnot": "acc = acc &^ 6",
    "type-assert-ok": "var ia interface{} = acc\nva, oka := ia.(uint64)\nif oka {\n\tacc = va + 1\n}",
    "type-assert": "var ia interface{} = acc\nacc = ia.(uint64) + 1",
    "type-switch": "var ia interface{} = acc\nswitch ia.(type) {\ncase uint64:\n\tacc = 1\ndefault:\n\tacc = 2\n}",
    "interface-var-copy": "var ia interface{} = acc\nib := ia\nif ib != nil {\n\tacc += 1\n}",
    "int-from-len": "sn := make([]uint64, 0)\nnn := len(sn)\nif nn-1 < 0 {\n\tacc += 1\n} else {\n\tacc += 2\n}",
    "int-arith": "var zi int = 3\nzi = zi - 5\nif zi < 0 {\n\tacc += 1\n}",
    "uint16": "var h16 uint16 = 65535\nh16 += 1\nacc += uint64(h16)",
    "named-uint16": "var h16 U16 = 65535\nh16 = h16 + 1\nacc += uint64(h16)",
    "field-store-on-value": "tv := S0{a: 1}\ntv.a = 2\nacc += tv.a",
    "addr-of-define-local": "xa := uint64(1)\npa := &xa\n*pa = 4\nacc += xa",
    "value-method-on-pointer": "pv := &S0{a: 2}\nacc += pv.valA()",
    "value-method-on-new": "pn := new(S0)\npn.a = 4\nacc += pn.valA()",
    "pointer-method-on-value": "tv := S0{a: 1}\ntv.addA(5)\nacc += tv.a",
    "method-value": "pm := &S0{a: 2}\ngm := pm.getA\nacc += gm()",
    "variadic-call": "acc += sum3(1, 2, 3)",
    "variadic-spread": "sv := make([]uint64, 2)\nsv[0] = 4\nacc += sum3(sv...)",
    "tuple-assign-swap": "var u uint64 = 1\nvar v uint64 = 2\nu, v = v, u\nacc += u*10 + v",
    "redeclare-var-in-define": "var rx uint64 = 1\nrx, rz := two()\nacc += rx + rz",
    "channel": "ch := make(chan uint64, 1)\nch <- 5\nacc += <-ch",
    "range-string": "for _, c := range \"abc\" {\n\tacc += uint64(c)\n}",
    "range-break": "sr := make([]uint64, 3)\nfor _, v := range sr {\n\tif v == 1 {\n\t\tbreak\n\t}\n\tacc += 1\n}",
    "range-int": "for i := range 3 {\n\tacc += uint64(i)\n}",
    "map-bool-key": "mb := make(map[bool]uint64)\nmb[true] = 3\nacc += mb[true]",
    "map-string-key": "ms := make(map[string]uint64)\nms[\"k\"] = 3\nacc += ms[\"k\"] + ms[\"z\"]",
    "embedded-field": "e0 := &E0{c: 2}\ne0.a = 5\nacc += e0.a + e0.c",
    "multi-name-field": "m0 := &M0{x: 1, y: 2}\nacc += m0.x + m0.y*2",
    "func-literal-call": "acc += func() uint64 {\n\treturn 9\n}()",
    "copy-builtin": "cs := make([]uint64, 2)\ncd := make([]uint64, 1)\ncs[0] = 8\ncopy(cd, cs)\nacc += cd[0]",
    "append-spread": "as := make([]uint64, 1)\nas[0] = 3\nad := append(make([]uint64, 0), as...)\nacc += ad[0]",
    "new-struct": "ns := new(S0)\nns.a = 6\nacc += ns.a",
    "shift-narrow-count": "acc = acc << uint32(b%8)",
    "string-opassign": "var sp string = \"a\"\nsp += \"bc\"\nacc += uint64(len(sp))",
    "string-compare-lt": "if \"a\" < \"b\" {\n\tacc += 1\n}",
    "string-index": "si := \"abc\"\nacc += uint64(si[1])",
    "len-of-literal": "acc += uint64(len(\"abcd\"))",
    "nil-slice-compare": "var ns []uint64\nif ns == nil {\n\tacc += 1\n}",
    "min-builtin": "acc += min(a, 3)",
    "clear-builtin": "mc := make(map[uint64]uint64)\nmc[1] = 1\nclear(mc)\nacc += uint64(len(mc))",
    "string-of-byte": "sb := string(byte(a%26 + 65))\nacc += uint64(len(sb)) + uint64(sb[0])",
    "string-of-byte-len-only": "sb := string(byte(a%26 + 65))\nacc += uint64(len(sb))",
    "string-of-uint64-direct": "su := string(a%26 + 65)\nacc += uint64(len(su)) + 3",
    "string-of-uint32-direct": "var c32 uint32 = 233\nsu := string(c32)\nacc += uint64(len(su))",
    "string-of-uint64": "su := string(rune(a%26 + 65))\nacc += uint64(len(su))",
    "string-of-named-string": "type NS string\nvar ns NS = \"ab\"\nacc += uint64(len(string(ns)))",
    "bytes-of-named-string": "type NS string\nvar ns NS = \"ab\"\nacc += uint64(len([]byte(ns)))",
    "local-closure-named-cap": "cap := func(s []uint64) uint64 {\n\treturn 77\n}\ncs := make([]uint64, 2)\nacc += cap(cs)",
    "local-type-named-uint32": "type uint32 uint64\nvar big uint64 = 1 << 40\nacc += uint64(uint32(big))",
    "conv-via-int64": "acc += uint64(int64(a))",
    "conv-to-uint16": "acc += uint64(uint16(a))",
    "compare-uint16-conversions": "if uint16(a|65536) == uint16(a&65535) {\n\tacc += 1\n}",
    "compare-int64-conversions": "if int64(a) < int64(1) {\n\tacc += 1\n}",
    "append-two-elements": "var at []uint64\nat = append(at, 1, 2)\nacc += uint64(len(at))",
    "funclit-named-result-bare-return": "fb := func() (r uint64) {\n\treturn\n}\nacc += fb() + 1",
    "range-assign-form": "rs := make([]uint64, 2)\nrs[1] = 7\nvar rv uint64\nfor _, rv = range rs {\n}\nacc += rv",
    "range-assign-form-map": "rm := make(map[uint64]uint64)\nrm[4] = 7\nvar rk uint64\nfor rk = range rm {\n}\nacc += rk",
    "string-slice-take": "st := \"hello\"\nacc += uint64(len(st[:2]))",
    "string-slice-skip": "st := \"hello\"\nacc += uint64(len(st[2:]))",
    "map-lookup-assign-form": "mm := make(map[uint64]uint64)\nmm[1] = 8\nvar mv uint64\nvar mok bool\nmv, mok = mm[1]\nif mok {\n\tacc += mv\n}",
    "map-lookup-parenthesised": "mm := make(map[uint64]uint64)\nmm[1] = 8\nmv, mok := (mm[1])\nif mok {\n\tacc += mv\n}",
    "multi-value-call-as-arguments": "acc += add2(two())",
    "bytes-of-string-via-uint8": "bu := []uint8(\"abc\")\nacc += uint64(len(bu))",
    "const-fold-wide": "var cw uint64 = (1 << 70) >> 68\nacc += cw",
    "slice-of-functions-call": "fs := make([]func(uint64) uint64, 1)\nfs[0] = id\nacc += fs[0](3)",
    "bytes-of-named-string": "var nm Nm = \"abcd\"\nnb := []byte(nm)\nacc += uint64(len(nb))",
    "bytes-of-string-parenthesised-type": "ps := \"abcde\"\npb := ([]byte)(ps)\nacc += uint64(len(pb))",
    "uint64-parenthesised-type": "var pw uint32 = 7\nacc += (uint64)(pw)",
    "pointer-slice-literal-elided-address": "pl := []*S0{{a: 3}}\nacc += pl[0].a",
    "tuple-assign-index-uses-assigned": "tm := make(map[uint64]uint64)\nvar tk uint64\ntk, tm[tk] = two()\nacc += tm[0] + tk",
    "tuple-assign-index-reads-stored-element": "te := make(map[uint64]uint64)\nte[0], te[te[0]] = two()\nacc += te[0] + te[10]*3",
    "tuple-assign-index-reads-through-pointer": "tx := new(uint64)\ntn := make(map[uint64]uint64)\n*tx, tn[*tx] = two()\nacc += tn[0] + tn[10]*3 + *tx",
    "tuple-assign-field-then-index-by-field": "tf := &S0{a: 0}\ntg := make(map[uint64]uint64)\ntf.a, tg[tf.a] = two()\nacc += tg[0] + tg[10]*3 + tf.a",
    "tuple-assign-first-target-indexed": "th := make(map[uint64]uint64)\nvar ti uint64 = 2\nth[ti], ti = two()\nacc += th[2] + ti",
    "tuple-assign-fields-of-one-struct": "tj := &S0{a: 1}\nvar tb uint64\ntj.a, tb = two()\nacc += tj.a + tb",
    "tuple-assign-pointer-then-store": "tp := new(uint64)\ntq := new(uint64)\nvar tr *uint64 = tp\ntr, *tr = tq, 5\nacc += *tp + *tq + *tr",
    "function-field-as-value": "h0 := &H0{cb: id, n: 4}\nhf := h0.cb\nacc += hf(h0.n) + add2(h0.cb(1), 2)",
    "multi-value-call-as-method-arguments": "pq := &S0{a: 1}\nacc += pq.add2m(two())",
    "funclit-blank-named-result": "fb := func() (_ uint64) {\n\treturn\n}\nacc += fb() + 1",
    "funclit-two-blank-named-results": "fc := func(t bool) (_, _ uint64) {\n\tif t {\n\t\treturn 1, 2\n\t}\n\treturn\n}\nf1, f2 := fc(acc > 100000)\nacc += f1 + f2 + 1",
    "bool-to-var-opassign": "var bo uint64 = 6\nbo |= 9\nbo &= 12\nbo ^= 5\nacc += bo",
}

# statements that need a function-level context of their own (they contain return statements)
SHAPES = {
    "early-return-with-else-and-rest": "var acc uint64 = a\nif a > 1 {\n\treturn 1\n} else {\n\tacc += 2\n}\nacc += 3\nreturn acc",
    "nested-early-return-no-else": "if a > 1 {\n\tif b > 1 {\n\t\treturn 1\n\t}\n}\nreturn 2",
    "nested-early-return-then-rest": "var acc uint64 = a\nif a > 1 {\n\tif b > 1 {\n\t\treturn 1\n\t}\n\tacc += 5\n}\nreturn acc",
    "return-in-loop": "for i := uint64(0); i < 5; i++ {\n\tif i == a {\n\t\treturn i + 100\n\t}\n}\nreturn 7",
    "return-in-range": "s := make([]uint64, 3)\nfor i := range s {\n\tif uint64(i) == a {\n\t\treturn 50\n\t}\n}\nreturn 7",
    "break-nested-no-else": "var acc uint64 = a\nfor i := uint64(0); i < 5; i++ {\n\tif i > 1 {\n\t\tif b > 1 {\n\t\t\tbreak\n\t\t}\n\t}\n\tacc += 1\n}\nreturn acc",
    "continue-then-rest": "var acc uint64 = a\nfor i := uint64(0); i < 5; i++ {\n\tif i == 2 {\n\t\tcontinue\n\t} else {\n\t\tacc += 10\n\t}\n\tacc += 1\n}\nreturn acc",
    "return-middle-of-block": "var acc uint64 = a\nif a > 100 {\n\tacc += 1\n\treturn acc\n}\nacc += 2\nreturn acc",
    "early-return-else-if": "if a == 0 {\n\treturn 10\n} else if a == 7 {\n\treturn 20\n}\nreturn 30",
    "loop-break-in-else": "var acc uint64 = a\nfor {\n\tif acc < 100 {\n\t\tacc += 40\n\t} else {\n\t\tbreak\n\t}\n}\nreturn acc",
    "loop-body-ends-in-if-no-control": "var acc uint64 = a\nfor i := uint64(0); i < 3; i++ {\n\tif i == 1 {\n\t\tacc += 5\n\t}\n}\nreturn acc",
    "for-cond-only-assign": "var acc uint64 = a % 5\nfor acc < 20 {\n\tacc = acc * 2 + 1\n}\nreturn acc",
}

# id -> (extra declarations, signature and body of `c_<id>`): constructs at declaration level
DECLS = {
    "param-named-len": ("func callLen_HOLE(len func([]uint64) uint64) uint64 {\n\ts := make([]uint64, 2)\n\treturn len(s)\n}\n\nfunc seven_HOLE(s []uint64) uint64 {\n\treturn 7\n}\n",
                        "(a uint64, b uint64) uint64 {\n\treturn callLen_HOLE(seven_HOLE) + a\n}"),
    "named-results": ("", "(a uint64, b uint64) (r uint64) {\n\tr = a + 1\n\treturn\n}"),
    "blank-named-result": ("func blankres_HOLE() (_ uint64) {\n\treturn\n}\n", "(a uint64, b uint64) uint64 {\n\treturn blankres_HOLE() + a + 1\n}"),
    "named-results-explicit": ("", "(a uint64, b uint64) (r uint64) {\n\tr = a + 1\n\treturn r + b\n}"),
    "variadic-declared": ("", "(a uint64, b uint64) uint64 {\n\treturn sum3(a, b)\n}"),
    "unnamed-params": ("func first_HOLE(uint64, uint64) uint64 {\n\treturn 4\n}\n", "(a uint64, b uint64) uint64 {\n\treturn first_HOLE(a, b)\n}"),
    "grouped-params": ("", "(a, b uint64) uint64 {\n\treturn a*2 + b\n}"),
    "recursion": ("func fact_HOLE(n uint64) uint64 {\n\tif n == 0 {\n\t\treturn 1\n\t}\n\treturn n * fact_HOLE(n-1)\n}\n", "(a uint64, b uint64) uint64 {\n\treturn fact_HOLE(a % 6)\n}"),
    "global-var": ("var glob_HOLE uint64 = 5\n", "(a uint64, b uint64) uint64 {\n\treturn glob_HOLE + a\n}"),
    "const-pair": ("const cA_HOLE, cB_HOLE uint64 = 1, 2\n", "(a uint64, b uint64) uint64 {\n\treturn cA_HOLE + cB_HOLE*10 + a\n}"),
    "const-iota": ("const (\n\ti0_HOLE uint64 = iota\n\ti1_HOLE\n\ti2_HOLE\n)\n", "(a uint64, b uint64) uint64 {\n\treturn i0_HOLE + i1_HOLE*10 + i2_HOLE*100 + a\n}"),
    "const-expr": ("const ce_HOLE uint64 = 1<<10 - 1\n", "(a uint64, b uint64) uint64 {\n\treturn ce_HOLE + a\n}"),
    "const-negative-intermediate": ("const cn_HOLE uint64 = (3-5)/2 + 2\n", "(a uint64, b uint64) uint64 {\n\treturn cn_HOLE + a\n}"),
    "const-string": ("const cs_HOLE = \"xy\"\n", "(a uint64, b uint64) uint64 {\n\treturn uint64(len(cs_HOLE)) + a\n}"),
    "method-on-named-int": ("type NI_HOLE uint64\n\nfunc (n NI_HOLE) twice() uint64 {\n\treturn uint64(n) * 2\n}\n", "(a uint64, b uint64) uint64 {\n\treturn NI_HOLE(a).twice()\n}"),
    "value-receiver-mutation": ("type VR_HOLE struct {\n\tv uint64\n}\n\nfunc (r VR_HOLE) set(x uint64) {\n\tr.v = x\n}\n", "(a uint64, b uint64) uint64 {\n\tr := VR_HOLE{v: 1}\n\tr.set(5)\n\treturn r.v + a\n}"),
    "struct-copy-by-value": ("", "(a uint64, b uint64) uint64 {\n\tp := &S0{a: 1}\n\tv := *p\n\tp.a = 9\n\treturn v.a + a\n}"),
    "struct-param-by-value": ("func bumpS_HOLE(s S0) uint64 {\n\treturn s.a + 1\n}\n", "(a uint64, b uint64) uint64 {\n\tv := S0{a: a}\n\treturn bumpS_HOLE(v)\n}"),
    "closure-mutates-captured-var": ("", "(a uint64, b uint64) uint64 {\n\tvar n uint64 = a\n\tg := func() {\n\t\tn = n + 1\n\t}\n\tg()\n\tg()\n\treturn n\n}"),
    "func-param": ("func apply_HOLE(f func(uint64) uint64, x uint64) uint64 {\n\treturn f(x) + 1\n}\n", "(a uint64, b uint64) uint64 {\n\treturn apply_HOLE(id, a)\n}"),
    "interface-method-call": ("type Getter_HOLE interface {\n\tgetA() uint64\n}\n\nfunc useG_HOLE(g Getter_HOLE) uint64 {\n\treturn g.getA() + 1\n}\n", "(a uint64, b uint64) uint64 {\n\treturn useG_HOLE(&S0{a: a})\n}"),
    "interface-conversion-second-parameter": ("type Getter2_HOLE interface {\n\tgetA() uint64\n}\n\nfunc useG2_HOLE(k uint64, g Getter2_HOLE) uint64 {\n\treturn g.getA() + k\n}\n", "(a uint64, b uint64) uint64 {\n\treturn useG2_HOLE(a, &S0{a: b})\n}"),
    "slice-of-struct-values": ("", "(a uint64, b uint64) uint64 {\n\ts := make([]S0, 2)\n\ts[1] = S0{a: a, b: true}\n\treturn s[1].a + s[0].a\n}"),
    "slice-elem-field-store": ("", "(a uint64, b uint64) uint64 {\n\ts := make([]S0, 2)\n\ts[1].a = a + 3\n\treturn s[1].a\n}"),
    "map-of-slices": ("", "(a uint64, b uint64) uint64 {\n\tm := make(map[uint64][]uint64)\n\tm[1] = append(m[1], a)\n\treturn m[1][0] + uint64(len(m[2]))\n}"),
    "nested-pointer": ("", "(a uint64, b uint64) uint64 {\n\tw := new(uint64)\n\tpp := new(*uint64)\n\t*pp = w\n\t**pp = a + 2\n\treturn *w\n}"),
    "pointer-to-field": ("", "(a uint64, b uint64) uint64 {\n\tp := &S0{a: 1}\n\tq := &p.a\n\t*q = a + 4\n\treturn p.a\n}"),
    "global-pointer": ("var gp_HOLE = new(uint64)\n", "(a uint64, b uint64) uint64 {\n\t*gp_HOLE = a + 5\n\treturn *gp_HOLE\n}"),
    "global-map": ("var gm_HOLE = make(map[uint64]uint64)\n", "(a uint64, b uint64) uint64 {\n\tgm_HOLE[1] = a + 5\n\treturn gm_HOLE[1]\n}"),
    "global-struct-with-pointer-field": ("type GS_HOLE struct {\n\tp *uint64\n\tn uint64\n}\n\nvar gs_HOLE = GS_HOLE{p: new(uint64), n: 1}\n",
                                         "(a uint64, b uint64) uint64 {\n\t*gs_HOLE.p = a + 5\n\treturn *gs_HOLE.p + gs_HOLE.n\n}"),
    "global-struct-of-numbers": ("type GN_HOLE struct {\n\tx uint64\n\ty uint64\n}\n\nvar gn_HOLE = GN_HOLE{x: 3, y: 4}\n", "(a uint64, b uint64) uint64 {\n\treturn gn_HOLE.x + gn_HOLE.y*10 + a\n}"),
    "pointer-to-element": ("", "(a uint64, b uint64) uint64 {\n\ts := make([]uint64, 2)\n\tq := &s[1]\n\t*q = a + 4\n\treturn s[1]\n}"),
}

# look-alikes: each is a package of its own; `F()` must return `want` or the package must be rejected
LOOKALIKES = {
    "user-len": ("package p\n\nfunc len(s []uint64) uint64 {\n\treturn 77\n}\n\nfunc F() uint64 {\n\ts := make([]uint64, 2)\n\treturn len(s)\n}\n", {}),
    "user-cap": ("package p\n\nfunc cap(s []uint64) uint64 {\n\treturn 77\n}\n\nfunc F() uint64 {\n\ts := make([]uint64, 2)\n\treturn cap(s)\n}\n", {}),
    "user-append": ("package p\n\nfunc append(s []uint64, x uint64) []uint64 {\n\treturn s\n}\n\nfunc F() uint64 {\n\ts := make([]uint64, 0)\n\tt := append(s, 5)\n\tvar n uint64\n\tfor range t {\n\t\tn = n + 1\n\t}\n\treturn n\n}\n", {}),
    "user-uint64": ("package p\n\nfunc uint32(x uint64) uint64 {\n\treturn x + 1000\n}\n\nfunc F() uint64 {\n\tvar big uint64 = 1 << 40\n\treturn uint32(big)\n}\n", {}),
    "user-delete": ("package p\n\nfunc delete(m map[uint64]uint64, k uint64) {\n}\n\nfunc F() uint64 {\n\tm := make(map[uint64]uint64)\n\tm[1] = 5\n\tdelete(m, 1)\n\treturn m[1]\n}\n", {}),
    "user-new": ("package p\n\nfunc new(x uint64) *uint64 {\n\tvar y uint64 = x + 3\n\treturn &y\n}\n\nfunc F() uint64 {\n\tp := new(4)\n\treturn *p\n}\n", {}),
    "user-panic": ("package p\n\nfunc panic(s string) {\n}\n\nfunc F() uint64 {\n\tpanic(\"no\")\n\treturn 3\n}\n", {}),
    "user-copy": ("package p\n\nfunc copy(d []uint64, s []uint64) uint64 {\n\treturn 9\n}\n\nfunc F() uint64 {\n\td := make([]uint64, 1)\n\ts := make([]uint64, 1)\n\ts[0] = 5\n\tcopy(d, s)\n\treturn d[0]\n}\n", {}),
    "user-make": ("package p\n\nfunc make(n uint64) []uint64 {\n\treturn nil\n}\n\nfunc F() uint64 {\n\ts := make(3)\n\tvar n uint64\n\tfor range s {\n\t\tn = n + 1\n\t}\n\treturn n\n}\n", {}),
    "local-shadows-len": ("package p\n\nfunc F() uint64 {\n\tlen := func(s []uint64) uint64 {\n\t\treturn 77\n\t}\n\ts := make([]uint64, 2)\n\treturn len(s)\n}\n", {}),
    "user-package-machine": ("package p\n\nimport \"example.com/m/machine\"\n\nfunc F() uint64 {\n\tb := make([]byte, 8)\n\tb[0] = 1\n\treturn machine.UInt64Get(b)\n}\n",
                             {"machine": {"m.go": "package machine\n\nfunc UInt64Get(b []byte) uint64 {\n\treturn 4242\n}\n"}}),
    "user-package-sync": ("package p\n\nimport \"example.com/m/sync\"\n\nfunc F() uint64 {\n\tm := new(sync.Mutex)\n\tm.Lock()\n\tm.Lock()\n\treturn m.N\n}\n",
                          {"sync": {"s.go": "package sync\n\ntype Mutex struct {\n\tN uint64\n}\n\nfunc (m *Mutex) Lock() {\n\tm.N = m.N + 1\n}\n"}}),
    "user-package-disk": ("package p\n\nimport \"example.com/m/disk\"\n\nfunc F() uint64 {\n\treturn disk.Size()\n}\n",
                          {"disk": {"d.go": "package disk\n\nfunc Size() uint64 {\n\treturn 4242\n}\n"}}),
    "user-package-disk-type": ("package p\n\nimport \"example.com/m/disk\"\n\nfunc F() uint64 {\n\td := disk.Disk{Base: 40}\n\treturn d.Read(2) + d.Size()\n}\n",
                               {"disk": {"d.go": "package disk\n\ntype Disk struct {\n\tBase uint64\n}\n\nfunc (d Disk) Read(a uint64) uint64 {\n\treturn d.Base + a\n}\n\nfunc (d Disk) Size() uint64 {\n\treturn 100\n}\n"}},
                               # the interpreter session holds one file: judged on the emitted text (the user's own methods, qualified by the user's package)
                               ["disk.Disk__Read \"d\" #2", "disk.Disk__Size \"d\"", "struct.mk disk.Disk"]),
    "user-package-async-disk-type": ("package p\n\nimport \"example.com/m/async_disk\"\n\nfunc F() uint64 {\n\td := async_disk.Disk{Base: 7}\n\treturn d.Read(2)\n}\n",
                                     {"async_disk": {"d.go": "package async_disk\n\ntype Disk struct {\n\tBase uint64\n}\n\nfunc (d Disk) Read(a uint64) uint64 {\n\treturn d.Base * a\n}\n"}},
                                     ["async_disk.Disk__Read \"d\" #2", "struct.mk async_disk.Disk"]),
    "user-type-named-disk": ("package p\n\ntype Disk struct {\n\tbase uint64\n}\n\nfunc (d Disk) Read(a uint64) uint64 {\n\treturn d.base + a\n}\n\nfunc F() uint64 {\n\td := Disk{base: 5}\n\treturn d.Read(3)\n}\n", {}),
    "variable-named-like-package": ("package p\n\ntype T struct {\n\tN uint64\n}\n\nfunc (t *T) UInt64Get(b []byte) uint64 {\n\treturn t.N\n}\n\nfunc F() uint64 {\n\tmachine := &T{N: 31}\n\tb := make([]byte, 8)\n\treturn machine.UInt64Get(b)\n}\n", {}),
    "user-type-named-mutex": ("package p\n\ntype Mutex struct {\n\tn uint64\n}\n\nfunc (m *Mutex) Lock() {\n\tm.n = m.n + 1\n}\n\nfunc F() uint64 {\n\tm := new(Mutex)\n\tm.Lock()\n\tm.Lock()\n\treturn m.n\n}\n", {}),
}

# contexts for statement entries: {S} is the entry, indented to the position's depth
CONTEXTS = {
    "plain": "var acc uint64 = a\n{S0}\nreturn acc + b",
    "loop-body": "var acc uint64 = a\nfor i := uint64(0); i < 2; i++ {\n{S1}\n}\nreturn acc + b",
    "if-branch": "var acc uint64 = a\nif b > 1 {\n{S1}\n} else {\n\tacc = acc + 1\n}\nreturn acc + b",
    "else-branch": "var acc uint64 = a\nif b > 1 {\n\tacc = acc + 1\n} else {\n{S1}\n}\nreturn acc + b",
    "nested-block": "var acc uint64 = a\n{\n{S1}\n}\nacc = acc + 2\nreturn acc + b",
    "closure-body": "var acc uint64 = a\ng := func() {\n{S1}\n}\ng()\nreturn acc + b",
    "after-early-return": "var acc uint64 = a\nif a == 7 {\n\treturn 0\n}\n{S0}\nreturn acc + b",
    "tail-else": "var acc uint64 = a\nif a == 7 {\n\treturn 0\n} else {\n{S1}\n\treturn acc + b\n}",
    "range-body": "var acc uint64 = a\nrs := make([]uint64, 2)\nfor range rs {\n{S1}\n}\nreturn acc + b",
}

ARGS = [(0, 0), (7, 2), (3, 5), (2 ** 64 - 1, 1), (6, 0)]


def indent(text, n):
    return "\n".join(("\t" * n + l if l else l) for l in text.split("\n"))


def functions():
    """[(name, entry id, context id, source)]"""
    out = []
    k = 0
    for eid, stmt in STMTS.items():
        for cid, ctx in CONTEXTS.items():
            if ("defer" in eid or "goto" in eid or "labelled" in eid) and cid in ("closure-body",) and False:
                continue
            body = ctx.replace("{S0}", indent(stmt, 0)).replace("{S1}", indent(stmt, 1))
            name = "c%d" % k
            k += 1
            out.append((name, eid, cid, "func %s(a uint64, b uint64) uint64 {\n%s\n}\n" % (name, indent(body, 1))))
    for eid, body in SHAPES.items():
        name = "c%d" % k
        k += 1
        out.append((name, eid, "function", "func %s(a uint64, b uint64) uint64 {\n%s\n}\n" % (name, indent(body, 1))))
        # the same shape inside a closure and as a method body
        name = "c%d" % k
        k += 1
        out.append((name, eid, "closure", "func %s(a uint64, b uint64) uint64 {\n\tg := func() uint64 {\n%s\n\t}\n\treturn g()\n}\n" % (name, indent(body, 2))))
    for eid, (decls, rest) in DECLS.items():
        name = "c%d" % k
        k += 1
        out.append((name, eid, "declaration", decls.replace("_HOLE", "_%s" % name) + ("\n" if decls else "") + "func %s%s\n" % (name, rest.replace("_HOLE", "_%s" % name))))
    return out
