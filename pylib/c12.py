"""C12 — MemFs ≡ DirFs ≡ reference model on all valid histories.

Proof: Props/C12.lean. Correspondence: the same valid history (generated with a reference state
so that every documented precondition holds) is run on the real MemFs and DirFs, directly and
through the package-level wrappers, and on the compiled reference model `Ref`; results are
canonicalised (descriptors by creation index, List sorted). A disagreement with `Ref` is a
counterexample to the property, shrunk by delta debugging.
"""
import collections
import json
import os
import shutil

import common as C

LEVEL = "proof"
IMPLS = ["mem", "dir", "gmem", "gdir"]


# directed histories (run after the generated ones): names that look like temporary files next to the name being created
# atomically, hard links to them, and directory listings before and after a link or delete that crosses directories
DIRECTED = [
    "newfs", "mkdir d1", "atomic d1 e.tmp aa01", "link d1 e.tmp d1 keep", "atomic d1 e bb02bb", "open d1 e.tmp", "readat 0 0 100", "open d1 keep", "readat 1 0 100",
    "open d1 e", "readat 2 0 100", "list d1", "create d1 e.tmp", "atomic d1 e cc", "open d1 e.tmp", "readat 3 0 100", "list d1",
    "newfs", "mkdir d1", "create d1 a.tmp", "append 0 0102", "atomic d1 a 0a0b0c", "append 0 03", "close 0", "open d1 a.tmp", "readat 1 0 100", "open d1 a", "readat 2 0 100", "list d1",
    "newfs", "mkdir d1", "mkdir d2", "atomic d1 a 11", "list d2", "list d1", "link d1 a d2 b", "list d2", "list d1", "delete d1 a", "list d1", "list d2",
    "open d2 b", "readat 0 0 10", "link d2 b d1 c", "list d1", "list d2", "delete d2 b", "list d2", "list d1", "create d2 b", "list d2",
    "newfs", "mkdir d1", "mkdir d2", "list d1", "list d2", "create d1 x", "list d1", "list d2", "link d1 x d2 x", "list d2", "link d1 x d2 x", "delete d1 x", "list d1", "list d2",
    "atomic d2 y 01", "list d2", "list d1",
    # directory names that are prefixes of each other
    "newfs", "mkdir d", "mkdir d1", "mkdir d12", "create d1 a", "create d12 b", "list d", "list d1", "list d12", "atomic d x 01", "list d", "list d1", "list d12",
    "link d x d1 x", "list d", "list d1", "delete d x", "list d", "list d1",
    # a name that is replaced atomically while it is linked and open elsewhere: the link and the open descriptor keep the old version
    "newfs", "mkdir d1", "atomic d1 a 11", "link d1 a d1 l", "open d1 a", "atomic d1 a 2222", "readat 0 0 10", "open d1 l", "readat 1 0 10", "open d1 a", "readat 2 0 10",
    "list d1", "atomic d1 a -", "readat 2 0 10", "readat 0 0 10", "open d1 a", "readat 3 0 10", "open d1 l", "readat 4 0 10",
    # a link names the SAME file: what is appended after the link (through the descriptor Create returned) is read through both names
    "newfs", "mkdir e", "create e log", "append 0 6f6e652c", "link e log e log.lnk", "append 0 74776f2c", "open e log.lnk", "readat 1 0 100", "open e log", "readat 2 0 100",
    "delete e log", "append 0 33", "readat 1 0 100", "open e log.lnk", "readat 3 0 100", "close 0", "list e",
]
# a descriptor that stays open while more than 1024 others are opened and closed (any fixed-size or wrapping descriptor table)
DIRECTED += ["newfs", "mkdir w", "create w keep", "append 0 6b31", "atomic w other 6f"]
for _k in range(1100):
    DIRECTED += ["open w other", "close %d" % (_k + 1)]
DIRECTED += ["append 0 6b32", "open w keep", "readat 1101 0 100", "append 0 6b33", "readat 1101 0 100", "close 0", "list w"]


def is_start(op):
    return op == "newfs"


def run_real(impl, ops, scratch):
    args = ["-impl", impl]
    if impl in ("dir", "gdir"):
        args += ["-scratch", scratch]
    out = C.hcorr("fs", "run", args, input="\n".join(ops) + "\n", timeout=1800)
    if len(out) != len(ops):
        raise C.Infra("fs run %s answered %d lines for %d ops" % (impl, len(out), len(ops)))
    return out


def model_run(which, ops):
    out = C.run([C.DRIVER, "fs", which], input="\n".join(ops) + "\n", env=os.environ.copy()).stdout.splitlines()
    if len(out) != len(ops):
        raise C.Infra("driver fs %s answered %d lines for %d ops" % (which, len(out), len(ops)))
    return out


def renumber(ops):
    """After ops were dropped by the shrinker, descriptor indices may dangle; a candidate is only
    meaningful if the reference model still finds it valid (no `invalid` reply)."""
    return "invalid" not in " ".join(model_run("ref", ops))


def shrink(impl, hist, scratch):
    def fails(cand):
        ref = model_run("ref", cand)
        if any(r == "invalid" or r == "bad-op" for r in ref):
            return False
        return run_real(impl, cand, scratch) != ref
    return C.shrink_history(hist, fails)


def match_known(prop, impl, ops, got, want):
    for e in C.load_known(prop):
        if e.get("status") != "known":
            continue
        m = e.get("match", {})
        if m.get("impls") and impl not in m["impls"]:
            continue
        if m.get("ops") == ops:
            return e
    return None


def check(ctx, prop="C12"):
    build = C.ensure_built(prop, ["fs"])
    scratch = C.scratch()
    found = False
    stats = collections.Counter()
    samples = []
    distinct = set()
    opmix = collections.Counter()
    replies = collections.Counter()
    known_hits = {}
    try:
        ops = C.hcorr("fs", "gen", ["-seed", str(ctx.seed), "-tier", ctx.tier]) + DIRECTED
        ref = model_run("ref", ops) if build.driver_ok else None
        hs = C.split_histories(ops, is_start)
        stats["ops"] = len(ops)
        stats["histories"] = len(hs)
        for idxs in hs:
            distinct.add("\n".join(ops[i] for i in idxs))
        for o in ops:
            opmix[o.split()[0]] += 1
        if ref is not None:
            stats["invalid_ops_generated"] = sum(1 for r in ref if r in ("invalid", "bad-op"))
        for impl in IMPLS:
            real = run_real(impl, ops, scratch)
            for r in real:
                replies[r.split()[0]] += 1
            if not samples:
                k = hs[min(2, len(hs) - 1)]
                samples.append({"impl": impl, "history": [{"op": ops[i][:80], "code": real[i][:80]} for i in k[:16]]})
            if ref is None:
                continue
            fh = C.failing_histories(ops, real, ref, is_start)
            stats["disagreeing_histories_" + impl] = len(fh)
            reported = 0
            seen_small = set()
            for hist, _ in fh[:6]:
                small = shrink(impl, hist, scratch)
                key = "\n".join(small)
                if key in seen_small:
                    continue
                seen_small.add(key)
                rr = run_real(impl, small, scratch)
                ss = model_run("ref", small)
                if rr == ss:
                    # the history fails only after the histories before it in the stream (state that survives `newfs`: in the
                    # implementation or in the harness); report it as it happened, with the stream that reproduces it
                    small = hist
                    ss = model_run("ref", hist)
                    rr = run_real(impl, hist, scratch)
                    if rr == ss:
                        stats["context_dependent_failures"] += 1
                        if reported == 0 and not found:
                            reported += 1
                            found = True
                            ctx.violation("counterexample", "fs (%s): a history disagrees with the reference model only when it runs after the earlier histories of the stream" % impl,
                                          {"proto": "fs-stream", "impl": impl, "seed": ctx.seed, "tier": ctx.tier, "ops": hist,
                                           "how": "hcorr fs gen -seed %d -tier %s | hcorr fs run -impl %s" % (ctx.seed, ctx.tier, impl)},
                                          expected=ss, observed="differs in the stream run; equal when the history runs alone")
                        continue
                e = match_known(prop, impl, small, rr, ss)
                if e is not None:
                    known_hits.setdefault(e["key"], e)
                    continue
                if reported >= 1:
                    continue
                reported += 1
                found = True
                ctx.violation("counterexample", "fs (%s): real implementation vs reference model Ref" % impl,
                              {"proto": "fs", "impl": impl, "ops": small}, expected=ss, observed=rr)
    finally:
        shutil.rmtree(scratch, ignore_errors=True)
    for k, e in known_hits.items():
        ctx.known("%s — %s" % (k, e["what"]))
    C.report_broken_obligations(ctx, build, found)
    ctx.coverage.update({
        "evaluations": stats["ops"],
        "distinct_nontrivial": len(distinct),
        "rule": "valid histories drawn by `hcorr fs gen` (one splitmix64 stream): 1-3 directories, name pool of 4, "
                "Create/Append/Close/Open/ReadAt/Delete/Link/AtomicCreate/List with data sizes 0..3*4096+1, offsets/lengths "
                "around the file size and chunk boundaries, several opens of one file, open while the creator appends, "
                "link/delete/recreate, AtomicCreate over existing and open files; passed and returned slices are overwritten "
                "after each call; a final sweep lists every directory and reads every name; each history is executed on "
                "mem, dir, gmem, gdir; distinct_nontrivial = distinct histories (each has >= 6 ops)",
        "samples": samples,
        "op_mix": dict(opmix),
        "reply_kinds_observed": dict(replies),
        "stats": dict(stats),
    })
    if ctx.tier == "thorough" and not build.broken:
        ok, out = C.leanchecker("GooseVerif.Props." + prop)
        ctx.coverage["leanchecker"] = "ok" if ok else out
    ctx.assumptions += [
        "Linux openat/write/pread/unlinkat/linkat/renameat/getdents on the scratch file system behave as the reference model expects (sampled)",
        "only histories inside the documented preconditions are generated (the generator tracks a reference state; `invalid` replies are counted)",
    ]
    return ctx.finish(build)


def replay(ctx, path):
    obj = json.load(open(path))
    C.ensure_built(ctx.prop, ["fs"])
    inp = obj["input"]
    if "ops" not in inp:
        return check(ctx)
    scratch = C.scratch()
    try:
        rr = run_real(inp["impl"], inp["ops"], scratch)
    finally:
        shutil.rmtree(scratch, ignore_errors=True)
    ss = model_run("ref", inp["ops"])
    for o, s, r in zip(inp["ops"], ss, rr):
        print("%-40s ref=%-30s code=%s%s" % (o[:40], s[:30], r[:30], "" if s == r else "   <-- differs"))
    return 1 if rr != ss else 0
