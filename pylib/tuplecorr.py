"""Correspondence stream for the model of multiple assignments (Model/TupleAssign.lean, Props/C02Tuple.lean).

A case is a list of assignment targets in the driver's encoding
    _ | v:<name> | d:<atom> | i:<atom>:<atom> | f:<atom>:<n>         atoms: l<n> | i<name> | m<name>
It is (1) given to the Lean driver (`tuple …` → guard true|false: Model.TupleAssign.guard) and (2) turned into a Go function
    func cN() uint64 { declarations; t0, t1, … = results(); return digest of everything the statement can have changed }
translated by the real goose.  The tie, both ways:
  * goose accepts the function  ⇔  the model's guard says true;
  * when it accepts, the emitted GooseLang returns what Go returns (the guarded case of `tuple_assign_faithful`, observed).
Names carry the kind of the variable: p… pointer to uint64, g… map[uint64]uint64, k… uint64, s… pointer to a two-field struct.
"""
import os
import random

import common as C
import gogen
import k4

STRUCT = "type T2 struct {\n\tx uint64\n\ty uint64\n}\n"
RESULTS = {1: None,
           2: "func res2() (uint64, uint64) {\n\treturn 1, 2\n}\n",
           3: "func res3() (uint64, uint64, uint64) {\n\treturn 1, 2, 3\n}\n",
           4: "func res4() (uint64, uint64, uint64, uint64) {\n\treturn 1, 2, 3, 0\n}\n"}
KEYS = [0, 1, 2, 3, 5]


def atom(r, kind, allow_lit=False):
    """(encoding, name or None, mutable?)"""
    if allow_lit and r.random() < 0.25:
        n = r.choice(KEYS)
        return "l%d" % n, None, False
    name = "%s%d" % (kind, r.randrange(2))
    mut = r.random() < 0.45
    return ("m" if mut else "i") + name, name, mut


def gen_case(r):
    n = r.choice([2, 2, 3, 3, 4])
    targets, decl = [], {}        # decl: name -> mutable? (a name is declared mutable if it is used as a target or as an m-atom anywhere)

    def use(enc, name, mut):
        if name is not None:
            decl[name] = decl.get(name, False) or mut
        return enc
    for i in range(n):
        c = r.random()
        if c < 0.08:
            targets.append("_")
        elif c < 0.40:
            name = "k%d" % r.randrange(2)
            decl[name] = True
            targets.append("v:" + name)
        elif c < 0.58:
            targets.append("d:" + use(*atom(r, "p")))
        elif c < 0.85:
            targets.append("i:" + use(*atom(r, "g")) + ":" + use(*atom(r, "k", allow_lit=True)))
        else:
            targets.append("f:" + use(*atom(r, "s")) + ":%d" % r.randrange(2))
    # an atom tagged i… for a name that is declared mutable elsewhere in the case would not be what the Go program says: re-tag
    fixed = []
    for t in targets:
        parts = t.split(":")
        for j in range(1, len(parts)):
            a = parts[j]
            if a and a[0] in "im" and a[1:] in decl:
                parts[j] = ("m" if decl[a[1:]] else "i") + a[1:]
        fixed.append(":".join(parts))
    return fixed, decl


def go_function(name, targets, decl, alias=False):
    """alias: every pointer pN points to the re-assignable variable kN when there is one (a store through the pointer changes the variable)"""
    lines = []
    for v in sorted(decl, key=lambda x: (x[0] == "p", x)):          # pointers last: they may point to a variable declared before them
        mut = decl[v]
        kind = v[0]
        idx = int(v[1:])
        init = {"p": "new(uint64)", "g": "make(map[uint64]uint64)", "k": "uint64(%d)" % (idx * 2), "s": "&T2{x: %d, y: %d}" % (idx, idx + 1)}[kind]
        if kind == "p" and alias and decl.get("k%d" % idx):
            init = "&k%d" % idx
        ty = {"p": "*uint64", "g": "map[uint64]uint64", "k": "uint64", "s": "*T2"}[kind]
        if mut:
            lines.append("\tvar %s %s = %s" % (v, ty, init))
        else:
            lines.append("\t%s := %s" % (v, init))
    # pointers hold small numbers that are also map keys, so that `g[*p]`-like dependencies matter; here: *p0 = 0, *p1 = 1
    for v in sorted(decl):
        if v[0] == "p" and not (alias and decl.get("k%d" % int(v[1:]))):
            lines.append("\t*%s = %d" % (v, int(v[1:])))
    lhs = []
    for t in targets:
        parts = t.split(":")

        def go_atom(a):
            return a[1:] if a[0] in "im" else a[1:]
        if t == "_":
            lhs.append("_")
        elif parts[0] == "v":
            lhs.append(parts[1])
        elif parts[0] == "d":
            lhs.append("*" + go_atom(parts[1]))
        elif parts[0] == "i":
            lhs.append("%s[%s]" % (go_atom(parts[1]), go_atom(parts[2])))
        else:
            lhs.append("%s.%s" % (go_atom(parts[1]), "xy"[int(parts[2])]))
    lines.append("\t%s = res%d()" % (", ".join(lhs), len(targets)))
    # digest: everything the statement can have changed, with distinct weights
    lines.append("\tvar acc uint64 = 0")
    w = 1
    for v in sorted(decl):
        if v[0] == "p":
            lines.append("\tacc = acc + *%s*%d" % (v, w))
            w = w * 3 + 1
        elif v[0] == "k" and decl[v]:
            lines.append("\tacc = acc + %s*%d" % (v, w))
            w = w * 3 + 1
        elif v[0] == "k":
            lines.append("\tacc = acc + %s" % v)
        elif v[0] == "s":
            lines.append("\tacc = acc + %s.x*%d + %s.y*%d" % (v, w, v, w * 3 + 1))
            w = (w * 3 + 1) * 3 + 1
        elif v[0] == "g":
            for kk in KEYS:
                lines.append("\tacc = acc + %s[%d]*%d" % (v, kk, w))
                w = w * 3 + 1
    lines.append("\treturn acc")
    return "func %s() uint64 {\n%s\n}\n" % (name, "\n".join(lines))


def run(seed, n, scratch):
    """returns (stats, bad): bad = list of dicts describing disagreements"""
    r = random.Random(seed * 7919 + 13)
    cases = []
    seen = set()
    # directed cases first (the shapes the property text and the repairs name), then random ones
    directed = [["v:k0", "i:ig0:mk0"], ["i:ig0:mk0", "v:k0"], ["v:k0", "i:ig0:ik1"], ["d:ip0", "i:ig0:mk0"], ["d:ip0", "i:ig0:ik0"],
                ["i:ig0:l0", "i:ig0:l1"], ["f:is0:0", "i:ig0:ik0"], ["v:k0", "v:k1", "i:ig0:mk1"], ["_", "i:ig0:mk0"], ["v:k0", "_", "d:mp0"],
                ["d:mp0", "v:k0"], ["v:k0", "d:ip0", "f:is0:1", "v:k1"], ["i:mg0:l0", "v:k0"], ["v:k1", "i:mg0:l0"], ["d:ip0", "i:mg0:l0"]]
    for t in directed:
        decl = {}
        for tt in t:
            parts = tt.split(":")
            if parts[0] == "v":
                decl[parts[1]] = True
            for a in parts[1:]:
                if a and a[0] in "im" and not a[1:].isdigit() and parts[0] != "v":
                    decl[a[1:]] = decl.get(a[1:], False) or a[0] == "m"
        # re-tag consistently
        fixed = []
        for tt in t:
            parts = tt.split(":")
            if parts[0] != "v":
                for j in range(1, len(parts)):
                    a = parts[j]
                    if a and a[0] in "im" and a[1:] in decl:
                        parts[j] = ("m" if decl[a[1:]] else "i") + a[1:]
            fixed.append(":".join(parts))
        cases.append((fixed, decl))
    while len(cases) < n:
        t, d = gen_case(r)
        key = " ".join(t)
        if key in seen:
            continue
        seen.add(key)
        cases.append((t, d))
    fns = []
    for i, (t, d) in enumerate(cases):
        fns.append(("t%d" % i, t, go_function("t%d" % i, t, d, alias=(i % 2 == 1))))
    # the directed cases in both variants
    for j, (t, d) in enumerate(cases[:len(directed)]):
        fns.append(("u%d" % j, t, go_function("u%d" % j, t, d, alias=(j % 2 == 0))))
    src = "package p\n\n" + STRUCT + "\n" + "\n".join(x for x in RESULTS.values() if x) + "\n" + "\n".join(f[2] for f in fns)
    runner = [gogen.PRINTER, "func RunAll() {"] + ['\tcall("%s#0", func() string { return show(%s()) })' % (f[0], f[0]) for f in fns] + ["}"]
    files = {"p/p.go": src, "p/run.go": "\n".join(runner), "cmd/main.go": "package main\n\nimport \"example.com/m/p\"\n\nfunc main() {\n\tp.RunAll()\n}\n"}
    calls = [(f[0] + "#0", f[0], []) for f in fns]
    res = k4.run_package(files, calls, os.path.join(scratch, "tuple"))
    if res["parse_error"]:
        raise C.Infra("tuple stream: emitted file unreadable: %s" % res["parse_error"])
    guards = C.driver("tuple", ["tuple " + " ".join(f[1]) for f in fns])
    stats = {"tuple_cases": len(fns), "tuple_accepted": 0, "tuple_rejected": 0, "tuple_guard_true": 0}
    bad = []
    rejected = set(res["rejected"])
    mism = {m["fn"]: m for m in res["mismatches"]}
    for (name, t, fsrc), g in zip(fns, guards):
        if g not in ("guard true", "guard false"):
            raise C.Infra("tuple driver: %r for %r" % (g, t))
        accepted = name not in rejected
        stats["tuple_accepted" if accepted else "tuple_rejected"] += 1
        stats["tuple_guard_true"] += g == "guard true"
        if accepted and name in mism:
            # (whatever the model's guard says: an accepted statement whose translation computes something else is a counterexample)
            bad.append({"kind": "semantics", "targets": t, "go_source": fsrc, "go": mism[name]["go"], "gooselang": mism[name]["gl"],
                        "emitted": k4.emitted_def(res["text"], name), "model_guard": g})
        elif accepted != (g == "guard true"):
            bad.append({"kind": "guard", "targets": t, "go_source": fsrc, "model_guard": g, "goose_accepts": accepted,
                        "emitted": k4.emitted_def(res["text"], name), "go_result": res["native"].get(name + "#0")})
    return stats, bad
