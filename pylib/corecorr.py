"""Correspondence for Model/Core.lean (the composed model of C01: control flow + scoping + uint64 arithmetic).

Random MiniGo functions `func sK(p uint64) uint64` — `:=`, `var`, assignment, op-assignment, ++/--, nested
blocks, if / else / else-if with conditions built from comparisons, &&, ||, !, all eight shapes of the for
statement (init / cond / post present or not) with bounded trip counts, break / continue, early returns,
tail ifs whose branches return, a seven-name pool so that shadowing of every kind is constant, and a small
fraction of programs goose must reject — plus the fixed list DIRECTED of shapes the generator reaches rarely
(else-if chains of returns, loops as last binding of a block or branch, an endless loop in a branch that
must return, sequential loops reusing a variable, break/continue in nested tail blocks, wrap-around, …) are
written as Go; the package is built and run natively on the parameter values PVALS; the REAL goose
translates it.  Per function:

 (a) the parse tree of what goose emits (canonical S-expression of the Lean parser) must be EXACTLY what
     `driver core` (Model.Core.tr) prints; a function goose rejects must be rejected by the model with the
     same message;
 (b) the native value must be the value of the model's Go semantics (`driver corego`), of the model's target
     semantics on the model's translation (`driver coreeval`), and of the Lean reference interpreter on the
     emitted text (`driver gl` eval).  Where the side condition of the correctness theorem fails (`driver
     corewf` says `loopvar-hides`: known finding `loop-variable-scope`), a difference between native Go and
     the emitted program is counted, not reported.

Standalone:  cd /verif && python3 pylib/corecorr.py <seed> <nfuncs> [<nseeds>]
"""
import os
import random
import re
import shutil
import sys

import common as C
import gomod
import gogen
import k4
import c07

NAMES = ["x", "y", "z", "a", "b", "i", "j"]
PVALS = [0, 20, 45, 70, 100, 130, 2 ** 64 - 1]
BINOPS = ["+", "-", "*", "&", "|", "^", "<<", ">>"]
ASSIGNABLE = ["+", "-", "|", "&", "^"]
CMPS = ["<", "<=", ">", ">=", "==", "!="]
BIG = [2 ** 64 - 1, 2 ** 63, 2 ** 32, 4294967297]


class Gen:
    def __init__(self, r):
        self.r = r
        self.stats = {}

    def hit(self, k):
        self.stats[k] = self.stats.get(k, 0) + 1

    # ---- expressions and conditions
    def lit(self):
        r = self.r
        return ("lit", r.choice(BIG) if r.random() < 0.06 else r.randrange(0, 12))

    def expr(self, vis, depth=2):
        r = self.r
        names = list(vis)
        c = r.randrange(5)
        if depth <= 0 or c == 0:
            return ("var", r.choice(names)) if r.random() < 0.7 else self.lit()
        if c == 1:
            return ("var", r.choice(names))
        op = r.choice(BINOPS[:6]) if r.random() < 0.92 else r.choice(["<<", ">>"])
        if op in ("<<", ">>"):
            return ("bin", op, self.nonconst(vis, depth - 1), ("lit", r.randrange(0, 64)))
        a = self.expr(vis, depth - 1)
        b = self.expr(vis, depth - 1)
        if a[0] == "lit" and b[0] == "lit":       # Go folds (and range-checks) constant expressions: keep one variable
            a = ("var", r.choice(names))
        return ("bin", op, a, b)

    def nonconst(self, vis, depth):
        e = self.expr(vis, depth)
        return ("var", self.r.choice(list(vis))) if e[0] == "lit" else e

    def cond(self, vis, depth=1):
        r = self.r
        c = r.randrange(10)
        if depth > 0 and c == 0:
            return ("and", self.cond(vis, depth - 1), self.cond(vis, depth - 1))
        if depth > 0 and c == 1:
            return ("or", self.cond(vis, depth - 1), self.cond(vis, depth - 1))
        if depth > 0 and c == 2:
            return ("not", self.cond(vis, depth - 1))
        if c == 3 and r.random() < 0.15:
            return ("tt",) if r.random() < 0.5 else ("ff",)
        if r.random() < 0.6:
            # comparisons of acc-like values with small constants take both truth values over PVALS
            return ("cmp", r.choice(CMPS), self.nonconst(vis, 1), ("lit", r.choice([0, 3, 10, 30, 60, 90, 120, 200])))
        return ("cmp", r.choice(CMPS), self.nonconst(vis, 1), self.expr(vis, 1))

    # ---- statements
    def assignment(self, vis):
        """an assignment-like statement to a variable; mostly to a pointer-wrapped, non-frozen one"""
        r = self.r
        ok = [x for x, (k, fz) in vis.items() if k == "var" and not fz]
        bad = [x for x, (k, fz) in vis.items() if k == "def"]
        wrong = r.random() < 0.035
        cands = bad if wrong and bad else ok
        if not cands:
            return None
        x = r.choice(cands)
        c = r.randrange(8)
        if c < 3:
            return ("set", x, self.expr(vis))
        if c < 6:
            op = r.choice(ASSIGNABLE) if r.random() < 0.985 else r.choice(["*", "<<", ">>"])
            e = ("lit", r.randrange(0, 60)) if op in ("<<", ">>") else self.expr(vis, 1)
            return ("op", x, op, e)
        return ("inc", x) if c == 6 else ("dec", x)

    def fresh_name(self, here, vis=None, unseen=False):
        free = [x for x in NAMES if x not in here and (not unseen or x not in vis)]
        return self.r.choice(free) if free else None

    def loop(self, vis, here, depth, tail):
        """returns a list of statements: [counter declaration], the loop, [use of the counter]"""
        r = self.r
        k = r.randrange(1, 6)
        shape = r.randrange(8)
        has_init = shape in (0, 4, 5, 6)
        pre, post_use = [], []
        inner = dict(vis)
        if has_init:
            hide = r.random() < 0.04
            n = self.fresh_name(set(), vis, unseen=True)
            if hide:
                hidden = [x for x in vis if x in NAMES]
                n = r.choice(hidden) if hidden else n
            if n is None:
                return None
            if hide:
                self.hit("loopvar_hides_generated")
            e0 = self.lit() if r.random() < 0.7 else self.expr(vis, 1)
            init = (n, e0)
            inner[n] = ("var", True)
        else:
            n = self.fresh_name(here)
            if n is None:
                return None
            e0 = ("lit", r.randrange(0, 3)) if r.random() < 0.7 else self.expr(vis, 1)
            pre = [("var", n, e0)]
            vis[n] = ("var", False)
            here.add(n)
            inner = dict(vis)
            inner[n] = ("var", True)
            post_use = [("op", "acc", "+", ("var", n))]
            init = None
        step = r.choice([("inc", n), ("op", n, "+", ("lit", r.randrange(1, 3))), ("set", n, ("bin", "+", ("var", n), ("lit", 1)))])
        cond_lt = ("cmp", "<", ("var", n), ("lit", k))
        guard = ("if", ("cmp", ">=", ("var", n), ("lit", k)), [("brk",)], [])
        # shape: 0 init+cond+post | 1 cond | 2 none | 3 cond+post | 4 init+post | 5 init+cond | 6 init | 7 post
        has_cond = shape in (0, 1, 3, 5)
        has_post = shape in (0, 3, 4, 7)
        body = self.stmts(inner, depth - 1, r.randrange(0, 4), True, False)
        if r.random() < 0.3:
            body.append(r.choice([("cont",), ("brk",)]) if r.random() < 0.5 else ("if", self.cond(inner), [r.choice([("cont",), ("brk",)])], []))
        head = []
        if has_post:
            if not has_cond:
                head = [guard]
        else:
            head = [step] if has_cond else [step, ("if", ("cmp", ">", ("var", n), ("lit", k)), [("brk",)], [])]
        self.hit("loop_shape_%d" % shape)
        return pre + [("for", init, cond_lt if has_cond else None, step if has_post else None, head + body)] + post_use

    def stmts(self, vis, depth, n, in_loop, tail):
        """vis: name -> (kind 'def'|'var', frozen); returns a list of statements"""
        r = self.r
        out = []
        vis = dict(vis)
        here = set()
        for _ in range(n):
            c = r.randrange(20)
            if c < 4:
                x = self.fresh_name(here)
                if x is None:
                    continue
                kind = "def" if c < 2 else "var"
                out.append((kind, x, self.expr(vis)))
                vis[x] = (kind, False)
                here.add(x)
                out.append(("op", "acc", r.choice(["+", "^", "+"]), ("var", x)) if r.random() < 0.7 else ("set", "acc", ("bin", "+", ("var", "acc"), ("var", x))))
            elif c < 9:
                s = self.assignment(vis)
                if s:
                    out.append(s)
            elif c < 11 and depth > 0:
                out.append(("blk", self.stmts(vis, depth - 1, r.randrange(1, 4), in_loop, False)))
                self.hit("block")
            elif c < 14 and depth > 0:
                els = self.stmts(vis, depth - 1, r.randrange(1, 3), in_loop, False) if r.random() < 0.5 else []
                if els and r.random() < 0.3:
                    els = [("if", self.cond(vis), self.stmts(vis, depth - 1, r.randrange(1, 3), in_loop, False),
                            self.stmts(vis, depth - 1, r.randrange(1, 3), in_loop, False) if r.random() < 0.5 else [])]
                    self.hit("else_if")
                out.append(("if", self.cond(vis), self.stmts(vis, depth - 1, r.randrange(1, 3), in_loop, False), els))
                self.hit("if")
            elif c < 16 and depth > 0:
                l = self.loop(vis, here, depth, tail)
                if l:
                    out += l
            elif c == 16 and in_loop:
                # break / continue under a condition, the rest of the list follows (goes into the else branch)
                out.append(("if", self.cond(vis), self.stmts(vis, 0, r.randrange(0, 2), in_loop, False) + [r.choice([("brk",), ("cont",)])],
                            [("op", "acc", "+", ("lit", 1))] if r.random() < 0.04 else []))
                self.hit("cond_break_continue")
            elif c == 17 and (tail or r.random() < 0.03):
                # early return: accepted where the enclosing lists are in tail position
                out.append(("if", self.cond(vis), self.stmts(vis, 0, r.randrange(0, 2), in_loop, False) + [("ret", self.expr(vis))],
                            [("op", "acc", "+", ("lit", 1))] if r.random() < 0.04 else []))
                self.hit("early_return")
            elif c == 18 and r.random() < 0.12:
                out.append(r.choice([("brk",), ("cont",)]) if in_loop else ("ret", self.expr(vis)))     # in the middle of a list: rejected
                self.hit("bare_control")
            elif c == 19 and tail and depth > 0 and r.random() < 0.5:
                # a block whose inside is still in tail position only if it is the last statement: goose decides
                out.append(("blk", self.stmts(vis, depth - 1, r.randrange(1, 3), in_loop, False)))
        return out

    def tail(self, vis, depth):
        """the end of the function body: `return e`, or an if whose branches both end like that"""
        r = self.r
        if depth > 0 and r.random() < 0.3:
            self.hit("tail_if")
            t = self.stmts(vis, 1, r.randrange(0, 3), False, True)
            e = self.stmts(vis, 1, r.randrange(0, 3), False, True)
            return [("if", self.cond(vis), self.with_tail(vis, t, depth - 1), self.with_tail(vis, e, depth - 1))]
        if depth > 0 and r.random() < 0.08:
            self.hit("tail_block")
            return [("blk", self.with_tail(vis, self.stmts(vis, 1, r.randrange(0, 3), False, True), depth - 1))]
        return [("ret", ("bin", "+", ("var", "acc"), self.expr(vis, 1)))]

    def with_tail(self, vis, ss, depth):
        # declarations of `ss` are visible in the tail
        v = dict(vis)
        for s in ss:
            if s[0] in ("def", "var"):
                v[s[1]] = (s[0], False)
        return ss + self.tail(v, depth)

    def program(self):
        r = self.r
        vis = {"p": ("def", False), "acc": ("var", False)}
        body = [("var", "acc", ("var", "p"))] + self.stmts(vis, 3, r.randrange(2, 7), False, True)
        return self.with_tail(vis, body, 2)


# ---- token syntax of the `core` protocol

def etoks(e):
    if e[0] == "lit":
        return [str(e[1])]
    if e[0] == "var":
        return [e[1]]
    return [e[1]] + etoks(e[2]) + etoks(e[3])


def ctoks(c):
    if c[0] == "cmp":
        return [c[1]] + etoks(c[2]) + etoks(c[3])
    if c[0] == "and":
        return ["&&"] + ctoks(c[1]) + ctoks(c[2])
    if c[0] == "or":
        return ["||"] + ctoks(c[1]) + ctoks(c[2])
    if c[0] == "not":
        return ["!"] + ctoks(c[1])
    return ["true"] if c[0] == "tt" else ["false"]


def stoks(s):
    k = s[0]
    if k in ("def", "var", "set"):
        return [k, s[1]] + etoks(s[2])
    if k == "op":
        return ["op", s[1], s[2]] + etoks(s[3])
    if k in ("inc", "dec"):
        return [k, s[1]]
    if k == "ret":
        return ["ret"] + etoks(s[1])
    if k in ("brk", "cont"):
        return [k]
    if k == "blk":
        return ["blk", "["] + toks(s[1]) + ["]"]
    if k == "if":
        return ["if"] + ctoks(s[1]) + ["["] + toks(s[2]) + ["]", "["] + toks(s[3]) + ["]"]
    if k == "for":
        init = ["_"] if s[1] is None else ["init", s[1][0]] + etoks(s[1][1])
        cond = ["_"] if s[2] is None else ctoks(s[2])
        post = ["_"] if s[3] is None else stoks(s[3])
        return ["for"] + init + cond + post + ["["] + toks(s[4]) + ["]"]
    raise ValueError(s)


def toks(ss):
    out = []
    for i, s in enumerate(ss):
        if i:
            out.append(";")
        out += stoks(s)
    return out


# ---- Go source

def go_e(e):
    if e[0] == "lit":
        return str(e[1])
    if e[0] == "var":
        return e[1]
    return "(%s %s %s)" % (go_e(e[2]), e[1], go_e(e[3]))


def go_c(c):
    if c[0] == "cmp":
        return "%s %s %s" % (go_e(c[2]), c[1], go_e(c[3]))
    if c[0] == "and":
        return "(%s) && (%s)" % (go_c(c[1]), go_c(c[2]))
    if c[0] == "or":
        return "(%s) || (%s)" % (go_c(c[1]), go_c(c[2]))
    if c[0] == "not":
        return "!(%s)" % go_c(c[1])
    return "true" if c[0] == "tt" else "false"


def go_simple(s):
    k = s[0]
    if k == "def":
        return "%s := uint64(%s)" % (s[1], go_e(s[2]))
    if k == "set":
        return "%s = %s" % (s[1], go_e(s[2]))
    if k == "op":
        return "%s %s= %s" % (s[1], s[2], go_e(s[3]))
    if k == "inc":
        return "%s++" % s[1]
    if k == "dec":
        return "%s--" % s[1]
    raise ValueError(s)


def go_src(ss, ind):
    pad = "\t" * ind
    out = []
    for s in ss:
        k = s[0]
        if k in ("def", "set", "op", "inc", "dec"):
            out.append(pad + go_simple(s))
        elif k == "var":
            out.append("%svar %s uint64 = %s" % (pad, s[1], go_e(s[2])))
        elif k == "ret":
            out.append("%sreturn %s" % (pad, go_e(s[1])))
        elif k == "brk":
            out.append(pad + "break")
        elif k == "cont":
            out.append(pad + "continue")
        elif k == "blk":
            out += [pad + "{"] + go_src(s[1], ind + 1) + [pad + "}"]
        elif k == "if":
            out += go_if(s, ind, pad + "if ")
        elif k == "for":
            init = "" if s[1] is None else "%s := uint64(%s)" % (s[1][0], go_e(s[1][1]))
            cond = "" if s[2] is None else go_c(s[2])
            post = "" if s[3] is None else go_simple(s[3])
            if s[1] is None and s[3] is None:
                head = "for %s{" % (cond + " " if cond else "")
            else:
                head = "for %s; %s; %s {" % (init, cond, post)
            out += [pad + head] + go_src(s[4], ind + 1) + [pad + "}"]
        else:
            raise ValueError(s)
    return out


def go_if(s, ind, lead):
    pad = "\t" * ind
    out = ["%s%s {" % (lead, go_c(s[1]))] + go_src(s[2], ind + 1)
    els = s[3]
    if len(els) == 1 and els[0][0] == "if":
        out += go_if(els[0], ind, pad + "} else if ")       # the model reads `else if` as a one-element else list
        return out
    if els:
        out += [pad + "} else {"] + go_src(els, ind + 1)
    out.append(pad + "}")
    return out


def V(x):
    return ("var", x)


def L(n):
    return ("lit", n)


ACC = [("var", "acc", V("p"))]
RET = [("ret", V("acc"))]
LT = lambda a, b: ("cmp", "<", a, b)
GT = lambda a, b: ("cmp", ">", a, b)
ADD = lambda x, e: ("op", x, "+", e)

# shapes the random generator reaches rarely or never (every one compiles as Go)
DIRECTED = [
    # else-if chain of returns as the last statement
    ACC + [("if", LT(V("p"), L(10)), [("ret", L(1))], [("if", LT(V("p"), L(50)), [("ret", L(2))], [("ret", V("acc"))])])],
    # … and in the middle of a list: early return in if with an else branch
    ACC + [("if", LT(V("p"), L(10)), [("ret", L(1))], [("if", LT(V("p"), L(50)), [("ret", L(2))], [ADD("acc", L(1))])])] + RET,
    # the then-branch always returns through a nested if/else; the rest moves into the else branch
    ACC + [("if", LT(V("p"), L(60)), [("if", LT(V("p"), L(30)), [("ret", L(1))], [("ret", L(2))])], []), ADD("acc", L(5))] + RET,
    # a then-branch that returns only sometimes, followed by more code: rejected
    ACC + [("if", LT(V("p"), L(60)), [("if", LT(V("p"), L(30)), [("ret", L(1))], [])], []), ADD("acc", L(5))] + RET,
    # an endless loop as the last statement of a branch that must return
    ACC + [("if", LT(V("p"), L(0)), [("for", None, None, None, [("inc", "acc")])], [("ret", V("acc"))])],
    # a loop as the last statement of a block / branch in the middle of a list (usage local, printed as last binding)
    ACC + [("blk", [("for", ("i", L(0)), LT(V("i"), L(3)), ("inc", "i"), [ADD("acc", V("i"))])]), ADD("acc", L(1))] + RET,
    ACC + [("var", "n", L(0)), ("if", LT(V("p"), L(60)), [("for", None, LT(V("n"), L(3)), None, [("inc", "n")])], [ADD("acc", L(2))]), ADD("acc", V("n"))] + RET,
    # two loops one after the other with the same variable; a loop variable declared again afterwards
    ACC + [("for", ("i", L(0)), LT(V("i"), L(3)), ("inc", "i"), [ADD("acc", V("i"))]),
           ("for", ("i", L(1)), LT(V("i"), L(4)), ("op", "i", "+", L(2)), [ADD("acc", V("i"))]),
           ("def", "i", ("bin", "*", V("acc"), L(3))), ADD("acc", V("i"))] + RET,
    # nested loops with different variables; break and continue at the end of branches
    ACC + [("for", ("i", L(0)), LT(V("i"), L(3)), ("inc", "i"),
            [("for", ("j", L(0)), LT(V("j"), L(4)), ("inc", "j"),
              [("if", ("cmp", "==", V("j"), V("i")), [("cont",)], []), ("if", GT(V("j"), L(2)), [("brk",)], [ADD("acc", V("j"))])])])] + RET,
    # break / continue inside a nested block at the end of the body; a block in tail position of the function
    ACC + [("var", "n", L(0)), ("for", None, LT(V("n"), L(5)), None, [("inc", "n"), ADD("acc", V("n")), ("blk", [("if", GT(V("n"), L(3)), [("brk",)], [("cont",)])])]),
           ("blk", [ADD("acc", V("n")), ("ret", V("acc"))])],
    # break in a nested block that is not last: rejected
    ACC + [("var", "n", L(0)), ("for", None, LT(V("n"), L(5)), None, [("inc", "n"), ("blk", [("if", GT(V("n"), L(3)), [("brk",)], [])]), ADD("acc", V("n"))]), ADD("acc", V("n"))] + RET,
    # assignment to the parameter; to a := variable shadowing a var; ++ on the loop variable in the body
    ACC + [("set", "p", L(3))] + RET,
    ACC + [("var", "x", L(1)), ("blk", [("def", "x", L(2)), ("set", "x", L(3)), ADD("acc", V("x"))]), ADD("acc", V("x"))] + RET,
    ACC + [("for", ("i", L(0)), LT(V("i"), L(6)), ("inc", "i"), [("inc", "i"), ("op", "i", "|", L(1)), ADD("acc", V("i"))])] + RET,
    # shadowing of acc itself by := inside a block, conditions with && || ! true false
    ACC + [("blk", [("def", "acc", ("bin", "+", V("acc"), L(1))), ("if", ("and", ("or", ("tt",), ("ff",)), ("not", LT(V("acc"), L(50)))), [("ret", V("acc"))], [])]), ADD("acc", L(7))] + RET,
    # return inside a loop body (rejected), also under a condition
    ACC + [("var", "n", L(0)), ("for", None, LT(V("n"), L(5)), None, [("inc", "n"), ("if", GT(V("n"), L(3)), [("ret", V("n"))], [])])] + RET,
    # the loop variable hides an outer variable that is used after the loop: known finding loop-variable-scope
    ACC + [("def", "i", L(5)), ADD("acc", V("i")), ("for", ("i", L(0)), LT(V("i"), L(2)), ("inc", "i"), [ADD("acc", V("i"))]), ("ret", ("bin", "+", V("acc"), V("i")))],
    # wrap-around
    [("ret", ("bin", "+", ("bin", "*", V("p"), V("p")), ("bin", "-", L(0), V("p"))))],
    ACC + [("dec", "acc"), ("op", "acc", "-", L(18446744073709551615)), ("ret", ("bin", "<<", V("acc"), L(63)))],
]


def run(seed, nfuncs, scratch, keep=False, directed=True):
    """Returns (stats dict, first disagreement or None)."""
    r = random.Random(seed)
    funcs = []
    gstats = {}
    for i in range(nfuncs):
        g = Gen(r)
        body = g.program()
        funcs.append(("s%d" % i, body))
        for k, v in g.stats.items():
            gstats[k] = gstats.get(k, 0) + v
    if directed:
        funcs += [("d%d" % i, body) for i, body in enumerate(DIRECTED)]
        gstats["directed"] = len(DIRECTED)
        nfuncs += len(DIRECTED)
    src = ["package p", ""]
    line_of = {}
    for name, body in funcs:
        start = len(src) + 1
        src.append("func %s(p uint64) uint64 {" % name)
        src += go_src(body, 1)
        src += ["}", ""]
        line_of[name] = (start, len(src))
    runner = [gogen.PRINTER, "func RunAll() {"] + ['\tcall("%s#%d", func() string { return show(%s(%d)) })' % (n, j, n, pv)
                                                   for n, _ in funcs for j, pv in enumerate(PVALS)] + ["}"]
    files = {"p/p.go": "\n".join(src), "p/run.go": "\n".join(runner),
             "cmd/main.go": "package main\n\nimport \"example.com/m/p\"\n\nfunc main() {\n\tp.RunAll()\n}\n"}
    root = os.path.join(scratch, "core")
    gomod.write_module(root, k4.split_files(files))
    nat, nerr = k4.native(root)
    if nat is None:
        raise C.Infra("corecorr: generated package does not build: " + nerr)
    rc, gerr, text = k4.translate(root)
    if text is None:
        raise C.Infra("corecorr: goose wrote nothing: " + gerr[-500:])
    errs = c07.parse_errors(gerr)
    lines = [" ".join(toks(body)) for _, body in funcs]
    model = C.driver("core", lines)
    wf = C.driver("corewf", lines)
    pl = ["%d %s" % (pv, l) for l in lines for pv in PVALS]
    model_go = C.driver("corego", pl)
    model_ev = C.driver("coreeval", pl)
    reps = k4.gl_session(text, ["names"])
    if reps[0].startswith("parse-error"):
        return {"functions": nfuncs}, {"what": "emitted file does not parse", "detail": k4.unhex(reps[0])}
    emitted = set(reps[1][6:].split(",")) if reps[1] != "names -" else set()
    present = [n for n, _ in funcs if n in emitted]
    canon = dict(zip(present, k4.gl_session(text, ["canon " + n for n in present])[1:]))
    evq = [(n, j) for n in present for j in range(len(PVALS))]
    evals = dict(zip(evq, k4.gl_session(text, ["eval %s u64:%d" % (n, PVALS[j]) for n, j in evq])[1:]))
    stats = {"functions": nfuncs, "accepted": 0, "rejected": 0, "value_checks": 0, "loopvar_hides": 0, "known_loop_variable_scope_differences": 0}
    stats.update(gstats)
    bad = None
    for fi, ((name, body), m, w) in enumerate(zip(funcs, model, wf)):
        lo, hi = line_of[name]
        gosrc = "\n".join(src[lo - 1:hi])
        if m == "error parse" or w == "error parse":
            raise C.Infra("corecorr: the driver cannot parse its own token syntax: " + lines[fi])
        # the model's Go semantics against native Go, for every function (accepted or not)
        for j, pv in enumerate(PVALS):
            want = nat.get("%s#%d" % (name, j))
            mg = model_go[fi * len(PVALS) + j]
            stats["value_checks"] += 1
            if bad is None and want != "u64:" + mg:
                bad = {"what": "the model's Go semantics differs from native Go", "function": name, "go": gosrc, "argument": pv,
                       "native_go": want, "model_go_semantics": mg, "tokens": lines[fi]}
        if w == "loopvar-hides":
            stats["loopvar_hides"] += 1
        if name in emitted:
            stats["accepted"] += 1
            mm = re.match(r"canon \(func %s \[\] \(rec \w+ \[70\] (.*)\)\)$" % name, canon[name])
            got = mm.group(1) if mm else "unreadable: " + canon[name][:100]
            if got != m and bad is None:
                bad = {"what": "the emitted tree differs from Model.Core.tr", "function": name, "go": gosrc, "model": m, "goose": got,
                       "emitted": k4.emitted_def(text, name), "tokens": lines[fi]}
            for j, pv in enumerate(PVALS):
                want = nat.get("%s#%d" % (name, j))
                gl = k4.unhex(evals[(name, j)])
                me = model_ev[fi * len(PVALS) + j]
                # the model's target semantics and the reference interpreter must agree in any case
                same = (gl == "value u64:" + me) or (gl.startswith("stuck") and me == "stuck")
                if not same and bad is None:
                    bad = {"what": "the model's target semantics differs from the interpreter on the emitted text", "function": name, "go": gosrc,
                           "argument": pv, "interpreter_on_emitted": gl, "model_target_semantics": me, "tokens": lines[fi]}
                if gl != "value " + want or want != "u64:" + me:
                    if w == "loopvar-hides":
                        stats["known_loop_variable_scope_differences"] += 1
                        continue
                    if bad is None:
                        bad = {"what": "values differ", "function": name, "go": gosrc, "argument": pv, "native_go": want,
                               "interpreter_on_emitted": gl, "model_target_semantics": me, "emitted": k4.emitted_def(text, name), "tokens": lines[fi]}
        else:
            stats["rejected"] += 1
            msgs = [msg for cat, msg, f, ln in errs if ln is not None and lo <= ln <= hi]
            ok = m.startswith("error ") and any(x.replace(" ", "-").startswith(m[6:]) for x in msgs)
            kind = m[6:] if m.startswith("error ") else "accepted-by-model"
            kind = re.sub(r"variable-\w+-is", "variable-X-is", kind)
            stats["rejected:" + kind] = stats.get("rejected:" + kind, 0) + 1
            if not ok and bad is None:
                bad = {"what": "goose rejects, the model says `%s`" % m[:200], "function": name, "go": gosrc, "goose_errors": msgs[:3], "tokens": lines[fi]}
    if not keep:
        shutil.rmtree(root, ignore_errors=True)
    return stats, bad


def main(argv):
    seed = int(argv[1]) if len(argv) > 1 else 1
    nfuncs = int(argv[2]) if len(argv) > 2 else 30
    nseeds = int(argv[3]) if len(argv) > 3 else 1
    scratch = C.scratch("corecorr.")
    total = {}
    rc = 0
    try:
        for s in range(seed, seed + nseeds):
            st, bad = run(s, nfuncs, scratch)
            for k, v in st.items():
                total[k] = total.get(k, 0) + v
            print("seed %d: %s" % (s, {k: st[k] for k in ("functions", "accepted", "rejected", "loopvar_hides", "known_loop_variable_scope_differences")}), flush=True)
            if bad is not None:
                rc = 1
                print("DISAGREEMENT (seed %d):" % s)
                for k, v in bad.items():
                    print("--- %s:\n%s" % (k, v))
                break
    finally:
        shutil.rmtree(scratch, ignore_errors=True)
    print("total:", total)
    return rc


if __name__ == "__main__":
    sys.exit(main(sys.argv))
