"""C15 — integer encoding is little-endian, framed and invertible.

Proof: Props/C15.lean over the interpreter of the tables regenerated from encoding/binary
and the delegations regenerated from machine/prims.go.
Correspondence: the real machine.UInt{64,32}{Put,Get} vs the Lean driver on the same lines;
a disagreement is judged by the table-free executable specification (spec-* ops).
"""
import collections
import json

import common as C

LEVEL = "proof"


def classify(op):
    w = op.split()
    n = 0 if w[1] == "-" else len(w[1]) // 2
    need = 8 if w[0].endswith("64") else 4
    return w[0], n, n >= need


def run_ops(ctx, build, ops, corpus=False):
    real = C.hcorr("enc", "run", input="\n".join(ops) + "\n")
    if len(real) != len(ops):
        raise C.Infra("enc run answered %d lines for %d ops" % (len(real), len(ops)))
    spec = C.driver("enc", ["spec-" + o for o in ops]) if build.driver_ok else None
    model = C.driver("enc", ops) if build.driver_ok else None
    bad_spec, bad_model = [], []
    for i, op in enumerate(ops):
        if spec is not None and real[i] != spec[i]:
            bad_spec.append((op, spec[i], real[i]))
        elif model is not None and real[i] != model[i]:
            bad_model.append((op, model[i], real[i]))
    return real, bad_spec, bad_model


def check(ctx):
    build = C.ensure_built("C15", ["prims"])
    ops = C.hcorr("enc", "gen", ["-seed", str(ctx.seed), "-tier", ctx.tier])
    real, bad_spec, bad_model = run_ops(ctx, build, ops)
    # a process that DECODES before it has encoded anything (a program reading a header written by an earlier run): the decoding
    # operations of the stream alone, in a fresh process
    gets = [o for o in ops if o.split()[0] in ("get64", "get32")][:400]
    if gets:
        _, bad_first, _ = run_ops(ctx, build, gets)
        bad_spec = [(o + "   (first codec call of a fresh process: no Put before it)", w, g) for o, w, g in bad_first[:1]] + bad_spec
    found = False
    seen_kinds = set()
    for op, want, got in bad_spec:
        kind = op.split()[0]
        if kind in seen_kinds:
            continue
        seen_kinds.add(kind)
        found = True
        ctx.violation("counterexample", "machine codec vs little-endian specification (Spec.check)",
                      {"proto": "enc", "ops": [op.split("   (")[0]], "note": op.split("   (")[1][:-1] if "   (" in op else None}, expected=want, observed=got)
    if bad_model and not found:
        # code and specification agree but the model does not: the model no longer describes the
        # code — the correspondence is broken although no input violates the property
        build.broken.append({"kind": "correspondence", "name": "enc: Lean model vs machine codecs",
                             "detail": "%d disagreeing ops, e.g. %s: model %s, code %s" % ((len(bad_model),) + bad_model[0])})
    C.report_broken_obligations(ctx, build, found)

    kinds = collections.Counter()
    lens = collections.Counter()
    nontrivial = set()
    panics = 0
    for op, r in zip(ops, real):
        k, n, ok = classify(op)
        kinds[k] += 1
        lens[min(n, 17)] += 1
        if r.startswith("panic"):
            panics += 1
        if ok:
            nontrivial.add(op)
    ctx.coverage.update({
        "evaluations": len(ops),
        "distinct_nontrivial": len(nontrivial),
        "rule": "ops drawn by hcorr enc gen from one splitmix64 stream (VERIF_SEED): all buffer lengths 0..16 for each "
                "operation, then random lengths (0..16, sometimes up to 64), boundary and random values; an op is "
                "non-trivial when the buffer is long enough for the operation to succeed; distinct = distinct op text",
        "samples": [{"op": o, "code": r} for o, r in list(zip(ops, real))[60:66]],
        "op_mix": dict(kinds),
        "buffer_length_histogram(17=longer)": {str(k): v for k, v in sorted(lens.items())},
        "refusals_observed": panics,
        "spec_disagreements": len(bad_spec),
        "model_disagreements": len(bad_model),
    })
    if ctx.tier == "thorough" and not build.broken:
        ok, out = C.leanchecker("GooseVerif.Props.C15")
        ctx.coverage["leanchecker"] = "ok" if ok else out
        if not ok:
            build.broken.append({"kind": "leanchecker", "name": "GooseVerif.Props.C15", "detail": out})
            C.report_broken_obligations(ctx, build, False)
    ctx.assumptions += [
        "Go's semantics of the straight-line byte/shift code in encoding/binary is what Model/Codec.lean's interpreter says (validated by the correspondence on every run)",
        "slices are modelled as lists: capacity and aliasing are not part of this property",
    ]
    return ctx.finish(build)


def replay(ctx, path):
    obj = json.load(open(path))
    build = C.ensure_built("C15", ["prims"])
    ops = obj["input"].get("ops", [])
    if not ops:
        print("replay file names a broken obligation, not an input: re-running the full check")
        return check(ctx)
    real, bad_spec, bad_model = run_ops(ctx, build, ops)
    for op, want, got in bad_spec:
        print("still fails: %s expected %s observed %s" % (op, want, got))
    return 1 if bad_spec else 0
