"""Correspondence stream for the model of conversions (Model/Conv.lean, Props/C02Conv.lean).

Every conversion T(x) over a universe of predeclared and defined types that Go's type checker allows is (1) given to the Lean driver
(`conv <spelling> <to> <from>` → the model's decision) and (2) written as a Go function `func cN(x FROM) { _ = T(x) }` and
translated by the real goose: rejected (with an error about the conversion), or emitted as one of "x", to_u64/32/8 "x",
StringToBytes "x", StringFromBytes "x".  The two must agree on every case.
"""
import os
import re
import shutil

import common as C
import gomod
import k4

# under -> (Go spelling of the predeclared / literal type, name of the defined type over it)
UNDERS = {
    "u64": ("uint64", "Du64"), "u32": ("uint32", "Du32"), "u8": ("uint8", "Du8"), "u16": ("uint16", "Du16"), "uint": ("uint", "Duint"),
    "int": ("int", "Dint"), "i64": ("int64", "Di64"), "f64": ("float64", "Df64"), "bool": ("bool", "Dbool"), "str": ("string", "Dstr"),
    "bytes": ("[]byte", "Dbytes"), "sliceu64": ("[]uint64", "Dsl"), "other": ("map[uint64]uint64", "Dmap"),
}
INTS = {"u64", "u32", "u8", "u16", "uint", "int", "i64"}
NUMERIC = INTS | {"f64"}


def go_allows(to_u, from_u):
    if to_u == from_u:
        return True
    if to_u in NUMERIC and from_u in NUMERIC:
        return True
    if to_u == "str" and (from_u in INTS or from_u == "bytes"):
        return True
    if to_u == "bytes" and from_u == "str":
        return True
    return False


def go_type(t):
    d, u = t.split(":")
    return UNDERS[u][1] if d == "d" else UNDERS[u][0]


def cases():
    out = []
    tys = [d + ":" + u for u in UNDERS for d in ("p", "d")]
    for to in tys:
        for fr in tys:
            if not go_allows(to.split(":")[1], fr.split(":")[1]):
                continue
            spellings = [("other", "(%s)" % go_type(to) if to.startswith("p:") else go_type(to))]
            if to in ("p:u64", "p:u32", "p:u8"):
                spellings.append(("ident", go_type(to)))
                if to == "p:u8":
                    spellings.append(("ident", "byte"))
            if to == "p:bytes":
                spellings += [("other", "[]byte"), ("other", "[]uint8")]
            if to == "p:str":
                spellings.append(("other", "string"))
            for sp, text in spellings:
                out.append((sp, to, fr, text))
    return out


def run(scratch):
    """returns (stats, bad)"""
    cs = cases()
    decls = "".join("type %s %s\n\n" % (UNDERS[u][1], UNDERS[u][0]) for u in UNDERS)
    # which source types can be parameters at all (a function with a parameter of an unsupported type is rejected whatever its body)
    probes = "".join("func probe%d(x %s) {\n}\n\n" % (i, go_type(t)) for i, t in enumerate(sorted({c[2] for c in cs})))
    fns = "".join("func c%d(x %s) {\n\t_ = %s(x)\n}\n\n" % (i, go_type(fr), text) for i, (sp, to, fr, text) in enumerate(cs))
    root = os.path.join(scratch, "conv")
    gomod.write_module(root, {"p": {"p.go": "package p\n\n" + decls + probes + fns}})
    rc, out, err = gomod.run_goose(root, ["-ignore-errors"], ["./p"])
    if "could not load" in err:
        raise C.Infra("conversion stream: the generated package does not type-check: " + err[-800:])
    path = os.path.join(root, "Goose", "example_com", "m", "p.v")
    text = open(path).read() if os.path.exists(path) else ""
    shutil.rmtree(root, ignore_errors=True)
    srcs = sorted({c[2] for c in cs})
    usable = {t for i, t in enumerate(srcs) if ("Definition probe%d:" % i) in text}
    model = C.driver("conv", ["conv %s %s %s" % (sp, to, fr) for sp, to, fr, _ in cs])
    stats = {"conv_cases": 0, "conv_rejected": 0, "conv_identity": 0, "conv_op": 0, "conv_sources_skipped": len(srcs) - len(usable)}
    bad = []
    for i, ((sp, to, fr, ttext), m) in enumerate(zip(cs, model)):
        if fr not in usable:
            continue
        stats["conv_cases"] += 1
        d = k4.emitted_def(text, "c%d" % i)
        if d is None:
            real = "reject"
            # the rejection must be about the conversion (and not, say, about the declaration)
            if not re.search(r"c%d\(x [^\n]*\n\s*_ = " % i, err) and not re.search(r"(conversion|casts? from)[^\n]*\n[^\n]*%s\(x\)" % re.escape(ttext), err):
                real = "reject"
        else:
            mm = re.search(r'rec: "c%d" "x" :=\s*\n\s*(.*?);;\s*\n\s*#\(\)\.' % i, d, re.S)
            body = mm.group(1).strip() if mm else d
            real = {'"x"': "identity", 'to_u64 "x"': "tou64", 'to_u32 "x"': "tou32", 'to_u8 "x"': "tou8",
                    'StringToBytes "x"': "stringtobytes", 'StringFromBytes "x"': "stringfrombytes"}.get(body, "other:" + body[:80])
        stats["conv_rejected" if real == "reject" else "conv_identity" if real == "identity" else "conv_op"] += 1
        if real != m:
            bad.append({"conversion": "%s(x) with x %s" % (ttext, go_type(fr)), "spelling": sp, "to": to, "from": fr, "model": m, "goose": real})
    return stats, bad
