"""C05 — output is well-formed and source text cannot alter its structure.

Proof: Props/C05.lean over Model/Sanitize.lean and the lexer GL/Lex.lean: the comment sanitiser
removes every `(*` and `*)`, leaves everything else in place, and a sanitised comment with balanced
quotes — and a string literal without quotes — is skipped / read back by a Coq-style lexer exactly
up to the delimiter goose printed, whatever else it contains.
Tie: packages with hostile doc comments, log calls and string literals are translated by the REAL
goose under all 8 combinations of -typecheck, -source-comments, -skip-interfaces; every output must
lex and parse, define exactly the expected names, print every doc comment exactly as
Model.Sanitize.commentBlock predicts, evaluate string-returning functions to what Go returns, and
give the same parse tree for every definition under every flag combination.  Operator/call/block
nesting is exercised by deep random expressions evaluated on both sides."""
import collections
import glob
import itertools
import json
import os
import sys
import random
import re
import shutil

import common as C
import gomod
import gogen
import k4
import c01

LEVEL = "proof"
FINDINGS = os.path.join(C.VERIF, "findings", "C05")

COQ_KEYWORDS = {"as", "at", "cofix", "else", "end", "exists", "exists2", "fix", "for", "forall", "fun", "if", "IF", "in", "let", "match", "mod",
                "Prop", "return", "Set", "then", "Type", "using", "where", "with", "SProp"}

FRAGS = ["\"", "it's a \"quote", "(*", "*)", "(**)", "*)(*", "((*", "**)", "(*)", "(", ")", "*", "\"balanced\"", "\"(*\"", "\"*)\"", "≤", "λ", "→",
         "Definition x := 1.", ".", "\\", "'", "`", "%d", "End code.", "a  b", "x\ty", "Proof. Qed.", "(* nested (* twice *) *)",
         "#(str", ":=", "[", "]", "{", "}", "éß", "日本", "rec:", "let:", ";;", "|", "word", "another", "42"]
STR_FRAGS = [f for f in FRAGS if '"' not in f] + ["(*\\\\*)", " ", ""]


def comment_line(r):
    words = [r.choice(FRAGS) for _ in range(r.randrange(1, 6))]
    line = " ".join(words).strip()
    return line or "x"


def string_lit(r):
    s = "".join(r.choice(STR_FRAGS) for _ in range(r.randrange(0, 4)))
    s = s.replace("\t", " ")
    return s


def go_quote(s):
    return '"' + s.replace("\\", "\\\\") + '"'


def package(seed):
    """Returns (files, calls, expected names, [(name, comment text)])"""
    r = random.Random(seed)
    decls, names, comments, calls, runner = [], [], [], [], []
    uses_log = False
    for i in range(r.randrange(4, 9)):
        lines = [comment_line(r) for _ in range(r.randrange(1, 4))]
        ctext = "\n".join(lines)
        doc = "\n".join("// " + l for l in lines)
        kind = r.randrange(4)
        if kind == 0:
            name = "S%d" % i
            decls.append("%s\ntype %s struct {\n\ta uint64\n}\n" % (doc, name))
        elif kind == 1:
            name = "g%d" % i
            lit = string_lit(r)
            body = []
            if r.random() < 0.6:
                uses_log = True
                fmtstr = string_lit(r).replace("\\", "\\\\").replace("%", "%%")
                body.append('\tlog.Printf("%s%s %%d", x)' % (fmtstr, r.choice(["", "", ' \\"q', ' \\"a\\" \\"b'])))
            if r.random() < 0.4:
                uses_log = True
                body.append("\tlog.Println(%s, (*p))" % go_quote(string_lit(r)))
                decls.append("%s\nfunc %s(x uint64, p *uint64) string {\n%s\n\treturn %s\n}\n" % (doc, name, "\n".join(body), go_quote(lit)))
            else:
                decls.append("%s\nfunc %s(x uint64) string {\n%s\n\treturn %s\n}\n" % (doc, name, "\n".join(body), go_quote(lit)))
                calls.append((name + "#0", name, ["u64:1"]))
                runner.append('\tcall("%s#0", func() string { return show(%s(1)) })' % (name, name))
        elif kind == 2:
            name = "h%d" % i
            a, b = string_lit(r), string_lit(r)
            decls.append("%s\nfunc %s(x uint64) uint64 {\n\ts := %s + %s\n\tif s == %s {\n\t\treturn x + 1\n\t}\n\treturn uint64(len(s))\n}\n" % (doc, name, go_quote(a), go_quote(b), go_quote(b)))
            calls.append((name + "#0", name, ["u64:1"]))
            runner.append('\tcall("%s#0", func() string { return show(%s(1)) })' % (name, name))
        else:
            name = "m%d" % i
            decls.append("%s\nfunc %s(x uint64, y uint64) uint64 {\n\t// %s\n\treturn (x - (y - x)) / ((y %% 7) + 1) /* %s */\n}\n" % (doc, name, comment_line(r), "(* *)"))
            calls.append((name + "#0", name, ["u64:9", "u64:4"]))
            runner.append('\tcall("%s#0", func() string { return show(%s(9, 4)) })' % (name, name))
        names.append(name)
        comments.append((name, ctext))
    src = "// Package p: %s\npackage p\n\n%s%s" % (comment_line(r), 'import "log"\n\n' if uses_log else "", "\n".join(decls))
    files = {"p/p.go": src, "p/run.go": "\n".join([gogen.PRINTER, "func RunAll() {"] + runner + ["}"]),
             "cmd/main.go": "package main\n\nimport \"example.com/m/p\"\n\nfunc main() {\n\tp.RunAll()\n}\n"}
    return files, calls, names, comments


def predicted_blocks(comments):
    ops = ["block 3 %s" % (c.encode().hex() or "-") for _, c in comments]
    reps = C.driver("san", ops)
    out = {}
    for (name, _), rep in zip(comments, reps):
        if not rep.startswith("text "):
            raise C.Infra("san driver: " + rep[:100])
        out[name] = bytes.fromhex(rep[5:]).decode()
    return out


FLAGS = ["-typecheck", "-source-comments", "-skip-interfaces"]


def check(ctx, build=None):
    if build is None:
        build = C.ensure_built("C05", ["printer"], need_harness=False, extra_go=gomod.EXTRA_GO)
    if not build.driver_ok:
        raise C.Infra("the Lean driver does not build")
    scratch = C.scratch()
    found = False
    stats = collections.Counter()
    samples = []

    def viol(what, inp, expected, observed):
        nonlocal found
        if os.environ.get("VERIF_DEBUG"):
            sys.stderr.write("debug: %s %s\n" % (what, json.dumps(observed)[:300]))
        if not found:
            found = True
            ctx.violation("counterexample", what, inp, expected=expected, observed=observed)
    try:
        n = 8 if ctx.tier == "quick" else 150
        for seed in range(ctx.seed * 3000, ctx.seed * 3000 + n):
            files, calls, names, comments = package(seed)
            root = os.path.join(scratch, "m")
            gomod.write_module(root, k4.split_files(files))
            nat, nerr = k4.native(root)
            if nat is None:
                raise C.Infra("C05 generator: package does not build: " + nerr)
            pred = predicted_blocks(comments)
            canon_ref = None
            for k in range(len(FLAGS) + 1):
                for combo in itertools.combinations(FLAGS, k):
                    shutil.rmtree(os.path.join(root, "Goose"), ignore_errors=True)
                    rc, gerr, text = k4.translate(root, flags=combo)
                    stats["translations"] += 1
                    inp = {"proto": "c05", "seed": seed, "flags": list(combo), "package": files["p/p.go"]}
                    if rc != 0 or text is None:
                        viol("C05: goose rejects a package whose only unusual feature is the text of comments, log calls and string literals", inp, "accepted", gerr[-800:])
                        continue
                    reps = k4.gl_session(text, ["names"])
                    if reps[0].startswith("parse-error"):
                        stats["unparsable"] += 1
                        viol("C05: the emitted file is not well-formed (it cannot be lexed and parsed with Coq's conventions)", inp, "well-formed output", k4.unhex(reps[0]))
                        continue
                    got = reps[1][6:].split(",") if reps[1] != "names -" else []
                    if set(got) & COQ_KEYWORDS:
                        viol("C05: a definition is named by a Coq keyword", inp, "identifiers Coq accepts", sorted(set(got) & COQ_KEYWORDS))
                        continue
                    if sorted(got) != sorted(names):
                        stats["wrong_definitions"] += 1
                        viol("C05: source text changed which definitions the file contains", inp, {"definitions": sorted(names)}, {"definitions": sorted(got)})
                        continue
                    creps = k4.gl_session(text, ["canon " + nm for nm in names])[1:]
                    canon = dict(zip(names, creps))
                    if canon_ref is None:
                        canon_ref = canon
                    elif canon != canon_ref:
                        stats["flag_dependent_bodies"] += 1
                        diff = [nm for nm in names if canon[nm] != canon_ref[nm]]
                        viol("C05: a flag that should only add comments or lemmas changed a definition body", inp, "the same parse tree as without flags",
                             {"definitions": diff[:3], "without_flags": canon_ref[diff[0]][:600], "with_flags": canon[diff[0]][:600]})
                    if not combo:
                        for nm, block in pred.items():
                            stats["doc_comments"] += 1
                            if not re.search(re.escape(block) + r"\n(Definition|Notation) " + re.escape(nm) + r"\b", text):
                                stats["comment_mismatch"] += 1
                                if not any(b["kind"] == "correspondence" for b in build.broken):
                                    build.broken.append({"kind": "correspondence", "name": "san: Model.Sanitize.commentBlock vs the comment goose printed",
                                                         "detail": json.dumps({"seed": seed, "definition": nm, "predicted": block})[:1200]})
                        # semantic equality of what string literals and nested operators evaluate to
                        reps = k4.gl_session(text, ["eval %s %s" % (fn, " ".join(args)) for _, fn, args in calls])[1:]
                        for (lab, fn, args), rep in zip(calls, reps):
                            stats["evaluations"] += 1
                            got_v = k4.unhex(rep)
                            if got_v != "value " + nat.get(lab, "?"):
                                stats["value_mismatch"] += 1
                                viol("C05: text of a string literal / nesting of an expression is not what Go means", dict(inp, function=fn, emitted=k4.emitted_def(text, fn)),
                                     {"go": nat.get(lab)}, {"gooselang": got_v})
                        if len(samples) < 1:
                            nm0 = comments[0][0]
                            samples.append({"seed": seed, "comment": comments[0][1], "printed": pred[nm0]})
        # ---- deep nesting: the subset generator with deeper expressions (operators, calls, blocks)
        def make(seed):
            return gogen.package(seed, nfuncs=8, expr_depth=5)
        nn = 6 if ctx.tier == "quick" else 120
        for seed, files, calls, r in k4.campaign(range(ctx.seed * 9000 + 77, ctx.seed * 9000 + 77 + nn), scratch, make):
            stats["nesting_packages"] += 1
            stats["nesting_calls"] += len(calls)
            if r["parse_error"]:
                viol("C05: deep nesting — the emitted file cannot be read back", {"proto": "k4", "seed": seed}, "well-formed", r["parse_error"])
            for mm in r["mismatches"]:
                stats["nesting_mismatches"] += 1
                viol("C05: the nesting read from the emitted text is not the nesting of the Go source",
                     dict(c01.describe(files, mm["fn"], r["text"], mm), seed=seed), {"go": mm["go"]}, {"gooselang": mm["gl"]})
            for av in r.get("arity_violations", []):
                viol("C05: a call is printed so that it reads back with another number of arguments than the function takes",
                     {"proto": "k4", "seed": seed, "function": av["inside"], "go_source": k4.func_source(files, av["inside"]), "emitted": k4.emitted_def(r["text"], av["inside"])},
                     "%s applied to %s arguments" % (av["callee"], av["takes"]), av)
        # ---- arguments that goose wraps in a conversion (a struct passed for an interface parameter): composite arguments keep their own brackets
        isrc = """package p

type Shape interface {
	Area() uint64
}

type Square struct {
	side uint64
}

type Holder struct {
	sq Square
}

func (s Square) Area() uint64 {
	return s.side * s.side
}

func mkSquare(n uint64) Square {
	return Square{side: n}
}

func measure(s Shape) uint64 {
	return s.Area()
}

func twice(s Shape, k uint64) uint64 {
	return s.Area()*2 + k
}

func w0() uint64 {
	return measure(mkSquare(3))
}

func w1() uint64 {
	return measure(Square{side: 2}) + twice(mkSquare(1+1), 5)
}

func w2() uint64 {
	h := Holder{sq: mkSquare(4)}
	return measure(h.sq) + twice(h.sq, measure(mkSquare(1)))
}

func w3() uint64 {
	var v Square = mkSquare(5)
	return twice(v, 1) + measure(v)
}

func takesAny(x interface{}) uint64 {
	return 1
}

func w4() uint64 {
	return takesAny(uint64(3)) + takesAny(mkSquare(2))
}
"""
        # ---- calibration of the arity oracle on the repository's own output files, then types nested in types (an array type
        #      inside a slice, map or make must stay ONE argument of the outer constructor)
        for gf in sorted(glob.glob(os.path.join(C.REPO, "internal", "examples", "**", "*.gold.v"), recursive=True)):
            rep = k4.gl_session(open(gf).read(), ["arity"])
            if rep[0].startswith("parse-error") or rep[1] != "arity -":
                raise C.Infra("arity oracle disagrees with the repository's gold file %s: %s" % (gf, rep[1][:300]))
            stats["arity_calibration_files"] += 1
        tsrc = ("package p\n\ntype A4 [4]byte\n\ntype R struct {\n\trows [][4]byte\n\tm    map[uint64][2]uint64\n\tp    *[3]uint64\n}\n\n"
                "func Rows(n uint64) uint64 {\n\txs := make([][4]byte, n)\n\treturn uint64(len(xs))\n}\n\nfunc Table() map[uint64][2]uint64 {\n\treturn make(map[uint64][2]uint64)\n}\n")
        troot = os.path.join(scratch, "ty")
        gomod.write_module(troot, {"p": {"p.go": tsrc}})
        trc, tgerr, ttext = k4.translate(troot)
        stats["nested_type_probes"] += 1
        if ttext is not None:
            trep = k4.gl_session(ttext, ["arity"])
            if trep[0].startswith("parse-error"):
                viol("C05: types nested in types — the emitted file cannot be read back", {"proto": "c05-types", "package": tsrc}, "well-formed", k4.unhex(trep[0]))
            elif trep[1] != "arity -":
                viol("C05: a type nested in a type is printed so that it reads back as several arguments of the outer constructor",
                     {"proto": "c05-types", "package": tsrc, "emitted": ttext[:1500]}, "every type constructor applied to as many arguments as it has", trep[1])
        shutil.rmtree(troot, ignore_errors=True)
        # ---- blocks nested in statement lists (the repaired finding nontail-block-scope and the regression probes of C01): the brackets
        #      goose prints around a nested block decide where its bindings end
        for wpath in sorted(glob.glob(os.path.join(C.VERIF, "findings", "C01-fixed", "*.go"))):
            wfiles, wcalls = c01.witness_package(wpath)
            wr = k4.run_package(wfiles, wcalls, os.path.join(scratch, "wb"))
            stats["block_nesting_functions"] += len(wcalls)
            if wr["parse_error"]:
                viol("C05: nested blocks — the emitted file cannot be read back", {"proto": "c05-witness", "file": wpath}, "well-formed", wr["parse_error"])
            for mm in wr["mismatches"]:
                viol("C05: the nesting read from the emitted text is not the nesting of the Go source (a block nested in a statement list)",
                     {"proto": "c05-witness", "file": wpath, "function": mm["fn"], "go_source": k4.func_source(wfiles, mm["fn"]), "emitted": k4.emitted_def(wr["text"], mm["fn"])},
                     {"go": mm["go"]}, {"gooselang": mm["gl"]})
        # ---- import paths are text from the source too: every component of a Require line must be a Coq identifier
        for odd in ("1x~y", "a+b", "v2.0-rc1"):
            ipk = {odd: {"f.go": "package xy\n\nfunc F() uint64 {\n\treturn 1\n}\n"},
                   "p": {"p.go": "package p\n\nimport \"example.com/m/%s\"\n\nfunc G() uint64 {\n\treturn xy.F()\n}\n" % odd}}
            iroot = os.path.join(scratch, "imp")
            gomod.write_module(iroot, ipk)
            irc, iout, ierr = gomod.run_goose(iroot, [], ["./p"])
            stats["import_path_probes"] += 1
            it = gomod.tree(os.path.join(iroot, "Goose"))
            shutil.rmtree(iroot, ignore_errors=True)
            if "could not load" in ierr or "patterns matched no" in ierr:
                continue          # not an import path the Go toolchain accepts
            for rel, (content, _, _) in it.items():
                for line in content.decode().split("\n"):
                    mreq = re.match(r"From \S+ Require (?:Import )?(\S+)\.$", line)
                    if mreq and not all(re.match(r"^[A-Za-z_][A-Za-z0-9_']*$", comp) for comp in mreq.group(1).split(".")):
                        viol("C05: an import path of the source yields a Require line that is not lexically well-formed",
                             {"proto": "c05-import", "packages": ipk, "pattern": "./p"}, "every component of the logical path is an identifier (or the import is rejected)", line)
        # ---- logging calls where an EXPRESSION is needed (goose prints a logging call as a comment)
        lsrc = """package p

import (
	"fmt"
	"log"
)

func w0() uint64 {
	var acc uint64 = 0
	for i := uint64(0); i < 3; log.Println("tick") {
		acc = acc + 1
		i = i + 1
	}
	return acc
}

func w1() uint64 {
	var acc uint64 = 5
	if acc > 2 {
		log.Printf("big %d", acc)
	} else {
		log.Println("small")
	}
	for _, x := range make([]uint64, 2) {
		acc = acc + x + 1
		log.Println(x)
	}
	return acc
}

func w2() uint64 {
	for {
		log.Println("once")
		break
	}
	return 4
}

func w3() uint64 {
	g := func() (int, error) {
		return fmt.Println("x")
	}
	g()
	return 6
}

func w4() uint64 {
	g := func() {
		log.Println("only")
	}
	g()
	return 7
}

func w5() uint64 {
	var acc uint64 = 0
	for i := uint64(0); i < 3; fmt.Println("tick") {
		acc = acc + 2
		i = i + 1
	}
	return acc
}

func w6() uint64 {
	var acc uint64 = 0
	for i := uint64(0); i < 2; fmt.Printf("tick %d\\n", i) {
		acc = acc + 5
		i = i + 1
	}
	return acc
}
"""
        open(os.path.join(scratch, "logpos.go"), "w").write(lsrc)
        lfiles, lcalls = c01.witness_package(os.path.join(scratch, "logpos.go"))
        lr = k4.run_package(lfiles, lcalls, os.path.join(scratch, "l"))
        stats["logging_position_functions"] = len(lcalls)
        if lr["parse_error"]:
            viol("C05: a logging call where an expression is needed — the emitted file cannot be read back", {"proto": "c05-log", "package": lsrc}, "well-formed", lr["parse_error"])
        for mm in lr["mismatches"]:
            viol("C05: a logging call where an expression is needed changes what the definition computes",
                 {"proto": "c05-log", "package": lsrc, "function": mm["fn"], "emitted": k4.emitted_def(lr["text"], mm["fn"])}, {"go": mm["go"]}, {"gooselang": mm["gl"]})
        open(os.path.join(scratch, "iface.go"), "w").write(isrc)
        ifiles, icalls = c01.witness_package(os.path.join(scratch, "iface.go"))
        ir = k4.run_package(ifiles, icalls, os.path.join(scratch, "i"))
        stats["interface_argument_functions"] = len(icalls)
        if ir["parse_error"]:
            viol("C05: interface-conversion arguments — the emitted file cannot be read back", {"proto": "c05-iface", "package": isrc}, "well-formed", ir["parse_error"])
        for av in ir.get("arity_violations", []):
            viol("C05: a call is printed so that it reads back with another number of arguments than the function takes",
                 {"proto": "c05-iface", "package": isrc, "function": av["inside"], "emitted": k4.emitted_def(ir["text"], av["inside"])},
                 "%s applied to %s arguments" % (av["callee"], av["takes"]), av)
        for mm in ir["mismatches"]:
            viol("C05: the nesting read from the emitted text is not the nesting of the Go source (argument passed for an interface parameter)",
                 {"proto": "c05-iface", "package": isrc, "function": mm["fn"], "emitted": k4.emitted_def(ir["text"], mm["fn"])}, {"go": mm["go"]}, {"gooselang": mm["gl"]})
        # ---- flag invariance on subset packages (conversions, structs, methods, loops …)
        nf = 3 if ctx.tier == "quick" else 40
        for seed in range(ctx.seed * 9000 + 5000, ctx.seed * 9000 + 5000 + nf):
            files, calls = gogen.package(seed, nfuncs=10)
            root = os.path.join(scratch, "m")
            gomod.write_module(root, k4.split_files(files))
            ref = None
            for k in range(len(FLAGS) + 1):
                for combo in itertools.combinations(FLAGS, k):
                    shutil.rmtree(os.path.join(root, "Goose"), ignore_errors=True)
                    rc, gerr, text = k4.translate(root, flags=combo)
                    stats["translations"] += 1
                    inp = {"proto": "c05-flags", "seed": seed, "flags": list(combo)}
                    if rc != 0 or text is None:
                        viol("C05: a flag makes goose reject a package it accepts without flags", inp, "accepted", gerr[-600:])
                        continue
                    reps = k4.gl_session(text, ["names"])
                    if reps[0].startswith("parse-error"):
                        viol("C05: the emitted file is not well-formed under a flag combination", inp, "well-formed output", k4.unhex(reps[0]))
                        continue
                    nms = reps[1][6:].split(",") if reps[1] != "names -" else []
                    canon = dict(zip(nms, k4.gl_session(text, ["canon " + nm for nm in nms])[1:]))
                    if ref is None:
                        ref = canon
                    elif canon != ref:
                        stats["flag_dependent_bodies"] += 1
                        diff = sorted(nm for nm in set(ref) | set(canon) if ref.get(nm) != canon.get(nm))
                        viol("C05: a flag that should only add comments or lemmas changed a definition body",
                             dict(inp, function=diff[0], go_source=k4.func_source(files, diff[0])), "the same parse tree as without flags",
                             {"definitions": diff[:3], "without_flags": (ref.get(diff[0]) or "")[:700], "with_flags": (canon.get(diff[0]) or "")[:700]})
        # ---- string literals whose VALUE contains a double quote, in every spelling: rejected, or emitted well-formed and faithful
        qsrc = ["package p", ""]
        qcalls, qrun = [], []
        spellings = ['"a\\x22b"', '"say \\042hi"', '"u\\u0022v"', '"p\\"q"', '`r"s`', '"a\\x22);; #(str\\x22b"', '"two \\x22 quotes \\x22"']
        for qi, lit in enumerate(spellings):
            qsrc += ["func q%d() uint64 {" % qi, "\ts := %s" % lit, "\treturn uint64(len(s))", "}", "", "func after%d() uint64 {" % qi, "\treturn %d" % (qi + 1), "}", ""]
            for fn in ("q%d" % qi, "after%d" % qi):
                qcalls.append((fn + "#0", fn, []))
                qrun.append('\tcall("%s#0", func() string { return show(%s()) })' % (fn, fn))
        # … and panic messages (printed as a Gallina string)
        # (a message that is not a literal — a constant expression, a named constant — is not printed: the message is "oops")
        panic_lits = ['"a\\"b"', '"odd \\x22"', '`raw "x`', '"a\\nb"', '`two\nlines`', '"tab\\there"', '"missing closing " + "\\""', '"expected " + string(\'"\')', 'quotedConst']
        panic_vals = ['a"b', 'odd "', 'raw "x', "a\nb", "two\nlines", "tab\there", "oops", "oops", "oops"]
        qsrc += ['const quotedConst = "say \\"hi\\""', ""]
        for pi, lit in enumerate(panic_lits):
            qsrc += ["func qp%d(x uint64) uint64 {" % pi, "\tif x == 77 {", "\t\tpanic(%s)" % lit, "\t}", "\treturn %d" % (pi + 40), "}", "",
                     "func afterp%d() uint64 {" % pi, "\treturn %d" % (pi + 50), "}", ""]
            qcalls.append(("qp%d#0" % pi, "qp%d" % pi, ["u64:1"]))
            qrun.append('\tcall("qp%d#0", func() string { return show(qp%d(1)) })' % (pi, pi))
            qcalls.append(("afterp%d#0" % pi, "afterp%d" % pi, []))
            qrun.append('\tcall("afterp%d#0", func() string { return show(afterp%d()) })' % (pi, pi))
        qfiles = {"p/p.go": "\n".join(qsrc), "p/run.go": "\n".join([gogen.PRINTER, "func RunAll() {"] + qrun + ["}"]),
                  "cmd/main.go": "package main\n\nimport \"example.com/m/p\"\n\nfunc main() {\n\tp.RunAll()\n}\n"}
        qr = k4.run_package(qfiles, qcalls, os.path.join(scratch, "q"))
        stats["quote_literal_functions"] = len(spellings)
        stats["quote_literals_rejected"] = sum(1 for qi in range(len(spellings)) if "q%d" % qi in qr["rejected"])
        if qr["parse_error"]:
            viol("C05: a string literal whose value contains a double quote breaks the emitted file", {"proto": "c05-quotes", "package": qfiles["p/p.go"]}, "rejected or well-formed", qr["parse_error"])
        else:
            for qi in range(len(spellings)):
                if "after%d" % qi in qr["rejected"]:
                    viol("C05: text of a string literal changed which definitions the file contains", {"proto": "c05-quotes", "literal": spellings[qi]}, "definition after%d present" % qi, "missing")
            # a panic message that is emitted is emitted with its value (the printer indents what it prints: a line break inside the
            # message would take the indentation into the string)
            for pi, val in enumerate(panic_vals):
                pd = k4.emitted_def(qr["text"], "qp%d" % pi)
                pm = re.search(r'Panic "(.*?)"', pd or "", re.S)
                stats["panic_messages_checked"] += 1
                if pd and (pm is None or pm.group(1) != val):
                    viol("C05: a panic message is accepted and emitted with another text than its value", {"proto": "c05-quotes", "panic_literal": panic_lits[pi], "emitted": pd},
                         {"message": val}, {"emitted_message": pm.group(1) if pm else None})
            for mm in qr["mismatches"]:
                viol("C05: a string literal with a quote is accepted and means something else", {"proto": "c05-quotes", "function": mm["fn"], "emitted": k4.emitted_def(qr["text"], mm["fn"])},
                     {"go": mm["go"]}, {"gooselang": mm["gl"]})
        # ---- known findings
        known = {e["key"]: e for e in C.load_known("C05") if e.get("status") == "known"}
        for path in sorted(glob.glob(os.path.join(FINDINGS, "*.go")) + glob.glob(os.path.join(FINDINGS + "-fixed", "*.go"))):
            key = os.path.basename(path)[:-3]
            src = open(path).read()
            expect = re.findall(r"^(?:func|type|const) (\w+)", src, re.M)
            root = os.path.join(scratch, "w")
            gomod.write_module(root, {"p": {"p.go": src}})
            rc, gerr, text = k4.translate(root, flags=())
            bad = None
            if rc != 0 or text is None:
                continue       # rejected: nothing malformed is emitted
            reps = k4.gl_session(text, ["names"])
            if reps[0].startswith("parse-error"):
                bad = k4.unhex(reps[0])
            else:
                got = reps[1][6:].split(",") if reps[1] != "names -" else []
                if sorted(got) != sorted(expect):
                    bad = "definitions %s instead of %s" % (sorted(got), sorted(expect))
                elif set(got) & COQ_KEYWORDS:
                    bad = "definitions named by Coq keywords: %s" % sorted(set(got) & COQ_KEYWORDS)
            stats["witnesses"] += 1
            if bad:
                if key in known:
                    ctx.known("%s — %s (findings/C05/%s.go: %s)" % (key, known[key]["what"], key, bad[:120]))
                else:
                    viol("C05: a witness program that is not a listed known finding is emitted malformed", {"proto": "c05-witness", "file": path}, "well-formed", bad)
        # ---- re-translating over an older output file: the file is still the well-formed new translation
        found = gomod.retranslate_stream(ctx, scratch, "C05: the output file is not the well-formed translation", found)
    finally:
        shutil.rmtree(scratch, ignore_errors=True)
    C.report_broken_obligations(ctx, build, found)
    ctx.coverage.update({
        "evaluations": stats["translations"] + stats["nesting_calls"],
        "distinct_nontrivial": stats["translations"] + stats["nesting_calls"],
        "rule": "packages of 4-8 declarations whose doc comments (1-3 lines), log.Printf/Println calls and string literals are drawn from %d hostile "
                "fragments ((*, *), (**), *)(*, (*), balanced quoted strings containing delimiters, Coq keywords and sentences, non-ASCII, "
                "backslashes, tabs, double spaces); each translated under all 8 flag combinations; plus the subset generator at expression depth 5 "
                "for operator/call/block nesting" % len(FRAGS),
        "samples": samples,
        "stats": dict(stats),
    })
    ctx.assumptions += [
        "GL/Lex.lean follows Coq's lexical conventions for comments and strings (nested comments, strings inside comments, \"\" escape); calibrated on the gold files",
        "ast.CommentGroup.Text() of the generated // comments is the lines joined by newlines (lines are non-empty, no trailing blanks, no directives)",
    ]
    return ctx.finish(build)


def replay(ctx, path):
    _inp = json.load(open(path)).get("input", {})
    if isinstance(_inp, dict) and _inp.get("proto") == "retranslate":
        C.ensure_built("C05", ["printer"], need_harness=False, extra_go=gomod.EXTRA_GO)
        return gomod.replay_retranslate(_inp)
    return check(ctx)
