"""Correspondence for Model/Fun.lean (functions, multiple results, recursion, closures, methods, strings).

Random FunGo PACKAGES — helpers with 1-3 results of mixed types, a recursive function with a decreasing argument (early
return, tail if, accumulating if, fibonacci, a mutually recursive pair, a recursive method, recursion through a
closure), methods with value and pointer receivers on `T{a, b uint64}`, closures capturing `var` and `:=` variables
that are called before and after assignments to what they captured (and passed to higher-order helpers), string and
`[]byte` helpers, an entry function `func eK(p uint64) uint64` that calls the others and folds every result; names
of parameters, locals and top-level functions come from small overlapping pools so that shadowing is constant; some
packages carry one declaration goose must refuse, or one of the shapes listed as findings — are written as Go, built
and run natively on the argument values PVALS, and translated by the REAL goose.  Per function:

 (a) the parse tree of what goose emits (`driver gl` `canon <name>`) must be EXACTLY the entry `driver fun`
     (Model.Fun.tr / trGoose) prints for it; a function goose refuses must be refused by the model with the same
     message;
 (b) for the entry functions the native value must be the value of the model's Go semantics (`driver fungo`), of
     the model's target semantics on the model's translation (`driver funt`) and of the Lean reference interpreter
     on the emitted text (`driver gl` eval).  For the finding shapes the emitted program must be stuck in both
     target semantics while Go has a value (counted, not reported).

Expressions are generated so that Go's order of evaluation is not observable: at most one chain of nested calls per
expression, and the operands beside a call are literals and immutable variables (Go orders calls only; the order of
variable reads relative to calls is unspecified, the emitted code goes right to left — known finding
`evaluation-order`).

Standalone:  cd /tmp/funwork/verif && python3 pylib/funcorr.py <seed> <npkgs> [<nseeds>]
"""
import os
import random
import re
import shutil
import sys

sys.path.insert(0, os.path.dirname(os.path.abspath(__file__)))

import common as C
import gomod
import k4
import c07

if os.environ.get("FUNCORR_GOOSE"):          # a goose binary built from a private copy (seeded changes)
    gomod.GOOSE = os.environ["FUNCORR_GOOSE"]

NAMES = ["x", "y", "z", "a", "b", "g", "h", "s", "t", "v"]
GNAMES = ["f", "g", "h", "k", "m", "u", "w", "x", "y", "z", "s", "t"]
MNAMES = ["gt", "bump", "sum", "put", "mix", "g", "x"]
PVALS = [0, 1, 2, 3, 5]
STRS = ["", "a", "ab", "abc", "xy z", "go", "Q", "0123"]
BASE = ["u64", "bool", "str", "bytes", "T", "ptr"]


def fn_ty(ps, rs):
    return ("fn", tuple(ps), tuple(rs))


def is_fn(t):
    return isinstance(t, tuple)


class Fn:
    def __init__(self, name, params, results, recv=None, small=False):
        self.name = name            # Go name (method: its own name)
        self.params = params        # [(name, ty)]
        self.results = results      # [ty]
        self.recv = recv            # None | (rname, is_ptr)
        self.small = small          # the first parameter bounds a recursion: pass small values only
        self.body = None
        self.named = False
        self.expect = None          # None | ("error", message prefix) | ("finding", kind)
        self.entry = False

    @property
    def gname(self):
        return ("T__" + self.name) if self.recv else self.name


class Scope:
    def __init__(self, vis=None, here=None):
        self.vis = dict(vis or {})      # name -> (kind 'def'|'var', ty)
        self.here = set(here or ())     # names declared in the current Go block

    def child(self):
        return Scope(self.vis, ())

    def bind(self, x, kind, ty):
        self.vis[x] = (kind, ty)
        self.here.add(x)


class Gen:
    def __init__(self, r, pkgname):
        self.r = r
        self.pkg = pkgname
        self.fns = []
        self.cur = 0
        self.stats = {}

    def hit(self, k, n=1):
        self.stats[k] = self.stats.get(k, 0) + n

    # ------------------------------------------------------------------ expressions
    def vars_of(self, sc, ty, mode):
        return [x for x, (k, t) in sc.vis.items() if t == ty and (mode != "imm" or k == "def")]

    def lit(self, ty):
        r = self.r
        if ty == "u64":
            return ("lit", r.randrange(0, 9))
        if ty == "str":
            return ("slit", r.choice(STRS))
        if ty == "bool":
            return ("blit", r.random() < 0.5)
        raise ValueError(ty)

    def expr(self, ty, sc, depth, mode):
        """mode: imm (literals and immutable variables only) | pure (no calls) | call (may contain one chain of calls)"""
        r = self.r
        if is_fn(ty):
            cands = [("var", x) for x in self.vars_of(sc, ty, "pure")]
            cands += [("fref", f.name) for f in self.fns[:self.cur]
                      if not f.recv and f.name not in sc.vis and fn_ty([t for _, t in f.params], f.results) == ty and not f.small and not f.expect]
            return r.choice(cands) if cands else None
        if mode == "call" and depth > 0 and r.random() < 0.55:
            c = self.call([ty], sc, depth - 1)
            if c is not None:
                return c
        vs = self.vars_of(sc, ty, mode)
        leaf = depth <= 0 or r.random() < 0.3
        if ty == "u64":
            if leaf:
                return ("var", r.choice(vs)) if vs and r.random() < 0.75 else self.lit(ty)
            c = r.randrange(10)
            if c < 4:
                a = self.expr("u64", sc, depth - 1, mode)
                b = self.expr("u64", sc, depth - 1, "imm" if mode == "call" and self.has_call(a) else ("pure" if mode == "call" else mode))
                if r.random() < 0.5:
                    a, b = b, a
                return ("bin", "+", a, b)
            if c == 4:
                return ("bin", "*", self.expr("u64", sc, 0, "pure" if mode == "call" else mode), ("lit", r.randrange(1, 4)))
            if c == 5:
                return ("slen", self.nonconst_str(sc, depth - 1, mode))
            if c == 6:
                return ("blen", self.expr("bytes", sc, depth - 1, mode))
            if c == 7:
                return ("get", r.choice("ab"), self.expr("T", sc, depth - 1, mode))
            if c == 8 and mode != "imm":
                e = self.expr("ptr", sc, depth - 1, mode)
                return ("getp", r.choice("ab"), e)
            return ("var", r.choice(vs)) if vs else self.lit(ty)
        if ty == "bool":
            if vs and r.random() < 0.25:
                return ("var", r.choice(vs))
            if r.random() < 0.05:
                return self.lit(ty)
            sub = "pure" if mode == "call" else mode
            if r.random() < 0.25:
                return ("scmp", r.choice(["==", "!="]), self.expr("str", sc, depth - 1, sub), self.expr("str", sc, 0, sub))
            a = self.expr("u64", sc, depth - 1, sub)
            return ("cmp", r.choice(["==", "!=", "<", "<=", ">", ">="]), a, ("lit", r.choice([0, 1, 2, 3, 5, 8, 20])) if r.random() < 0.6 else self.expr("u64", sc, 0, sub))
        if ty == "str":
            if leaf:
                return ("var", r.choice(vs)) if vs and r.random() < 0.6 else self.lit(ty)
            c = r.randrange(4)
            if c < 2:
                a = self.expr("str", sc, depth - 1, mode)
                b = self.expr("str", sc, depth - 1, "imm" if mode == "call" and self.has_call(a) else ("pure" if mode == "call" else mode))
                if r.random() < 0.5:
                    a, b = b, a
                return ("bin", "+", a, b)
            if c == 2:
                return ("string", self.expr("bytes", sc, depth - 1, mode))
            return ("var", r.choice(vs)) if vs else self.lit(ty)
        if ty == "bytes":
            if vs and r.random() < 0.5:
                return ("var", r.choice(vs))
            return ("bytes", self.expr("str", sc, depth - 1, mode))
        if ty == "T":
            if vs and r.random() < 0.55:
                return ("var", r.choice(vs))
            sub = "pure" if mode == "call" else mode
            return ("mk", self.expr("u64", sc, depth - 1, sub), self.expr("u64", sc, 0, sub))
        if ty == "ptr":
            if vs and r.random() < 0.6:
                return ("var", r.choice(vs))
            sub = "pure" if mode == "call" else mode
            return ("new", self.expr("u64", sc, depth - 1, sub), self.expr("u64", sc, 0, sub))
        raise ValueError(ty)

    def is_const(self, e):
        return e[0] in ("lit", "slit", "blit") or (e[0] in ("bin", "cmp", "scmp") and self.is_const(e[2]) and self.is_const(e[3])) or \
            (e[0] == "conv" and self.is_const(e[1]))

    def nonconst_str(self, sc, depth, mode):
        """goose refuses len of a constant string expression ("length of object of type untyped string")"""
        e = self.expr("str", sc, depth, mode)
        if not self.is_const(e):
            return e
        vs = self.vars_of(sc, "str", mode)
        return ("var", self.r.choice(vs)) if vs else ("string", ("bytes", e))

    def has_call(self, e):
        if not isinstance(e, tuple):
            return False
        if e[0] in ("call", "mcall"):
            return True
        if e[0] == "fn":
            return False
        return any(self.has_call(x) for x in e[1:] if isinstance(x, tuple)) or \
            any(self.has_call(y) for x in e[1:] if isinstance(x, list) for y in x)

    def callables(self, rtys, sc):
        """[(kind, what)]: global functions, local closures and methods whose results are `rtys`"""
        out = []
        for f in self.fns[:self.cur]:
            if f.expect or f.results != rtys:
                continue
            if f.recv:
                want = "ptr" if f.recv[1] else "T"
                if self.vars_of(sc, want, "pure") or self.r.random() < 0.3:
                    out.append(("meth", f))
            elif f.name not in sc.vis:
                out.append(("glob", f))
        for x, (k, t) in sc.vis.items():
            if is_fn(t) and list(t[2]) == rtys:
                out.append(("clo", x))
        return out

    def call(self, rtys, sc, depth, allow_small_var=None):
        r = self.r
        cs = self.callables(rtys, sc)
        if not cs:
            return None
        kind, what = r.choice(cs)
        if kind == "clo":
            ptys = list(sc.vis[what][1][1])
            small = False
        else:
            ptys = [t for _, t in what.params]
            small = what.small
        args = self.args(ptys, sc, depth, small, recv_var=False)
        if args is None:
            return None
        if kind == "clo":
            self.hit("call_closure")
            return ("call", what, args)
        if kind == "glob":
            self.hit("call_global")
            return ("call", what.name, args)
        is_ptr = what.recv[1]
        want = "ptr" if is_ptr else "T"
        vs = self.vars_of(sc, want, "pure")
        if vs and r.random() < 0.85:
            x = r.choice(vs)
            recv = ("var", x)
            if sc.vis[x][0] == "var" and any(self.has_call(a) for a in args):
                args = self.args(ptys, sc, 0, small, recv_var=True)
                if args is None:
                    return None
        else:
            recv = self.expr(want, sc, 0, "imm")
            if any(self.has_call(a) for a in args) and self.has_getp(recv):
                return None
        self.hit("call_method_ptr" if is_ptr else "call_method_val")
        return ("mcall", is_ptr, what.name, recv, args)

    def has_getp(self, e):
        return isinstance(e, tuple) and (e[0] == "getp" or any(self.has_getp(x) for x in e[1:] if isinstance(x, tuple)))

    def args(self, ptys, sc, depth, small, recv_var):
        r = self.r
        args = []
        chain = r.randrange(len(ptys)) if ptys and depth > 0 and not recv_var and r.random() < 0.25 else None
        for i, t in enumerate(ptys):
            if i == 0 and small:
                args.append(("lit", r.randrange(0, 5)))
                continue
            if is_fn(t):
                e = self.expr(t, sc, 0, "pure")
                if e is None:
                    return None
                args.append(e)
                continue
            if chain is not None and i == chain:
                e = self.expr(t, sc, depth, "call")
            else:
                e = self.expr(t, sc, min(depth, 1), "imm" if chain is not None else "pure")
            args.append(e)
        if chain is not None and not self.has_call(args[chain]):
            # no call was generated: the other arguments may as well be richer, but they are fine as they are
            pass
        return args

    # ------------------------------------------------------------------ statements
    def fresh(self, sc, avoid=()):
        free = [x for x in NAMES if x not in sc.here and x not in avoid]
        return self.r.choice(free) if free else None

    def fold(self, x, ty, sc):
        """statements that add something depending on the variable `x` of type `ty` to acc"""
        A = lambda e: ("set", "acc", ("bin", "+", ("var", "acc"), e))
        r = self.r
        v = ("var", x)
        if ty == "u64":
            return [A(v)]
        if ty == "bool":
            return [("if", v, [A(("lit", 1))], [A(("lit", 2))] if r.random() < 0.5 else [])]
        if ty == "str":
            if r.random() < 0.3:
                return [("if", ("scmp", r.choice(["==", "!="]), v, ("slit", r.choice(STRS))), [A(("lit", 3))], []), A(("slen", v))]
            return [A(("slen", v))]
        if ty == "bytes":
            return [A(("blen", v))] if r.random() < 0.5 else [A(("slen", ("string", v)))]
        if ty == "T":
            return [A(("bin", "+", ("get", "a", v), ("bin", "*", ("get", "b", v), ("lit", 2))))]
        if ty == "ptr":
            return [A(("bin", "+", ("getp", "a", v), ("getp", "b", v)))]
        raise ValueError(ty)

    def use_closure(self, g, ty, sc, ncalls):
        """statements calling the closure variable g `ncalls` times and folding the results"""
        out = []
        ptys, rtys = list(ty[1]), list(ty[2])
        for _ in range(ncalls):
            args = self.args(ptys, sc, 0, False, recv_var=True)
            call = ("call", g, args)
            self.hit("call_closure")
            out += self.bind_call(call, rtys, sc)
        return out

    def bind_call(self, call, rtys, sc):
        """a statement that performs `call` and folds its results"""
        r = self.r
        if len(rtys) == 0:
            return [("do", call)]
        if len(rtys) == 1:
            if r.random() < 0.15:
                return [("do", call)]
            x = self.fresh(sc)
            if x is None:
                return [("do", call)]
            if rtys[0] == "u64" and r.random() < 0.3:
                ws = [y for y, (k, t) in sc.vis.items() if k == "var" and t == "u64" and y != "acc"]
                if ws:
                    return [("set", r.choice(ws), call)]
            if r.random() < 0.25:
                sc.bind(x, "var", rtys[0])
                return [("var", x, rtys[0], call)] + self.fold(x, rtys[0], sc)
            sc.bind(x, "def", rtys[0])
            return [("def", x, call)] + self.fold(x, rtys[0], sc)
        names, folds = [], []
        keep = r.randrange(len(rtys))
        for i, t in enumerate(rtys):
            x = self.fresh(sc, names)
            if x is None or (i != keep and r.random() < 0.25):
                names.append("_")
            else:
                names.append(x)
        if all(n == "_" for n in names):
            return [("do", call)]
        for n, t in zip(names, rtys):
            if n != "_":
                sc.bind(n, "def", t)
        self.hit("multi_define_%d" % len(rtys))
        if "_" in names:
            self.hit("blank_position")
        for n, t in zip(names, rtys):
            if n != "_":
                folds += self.fold(n, t, sc)
        return [("defn", names, call)] + folds

    def closure(self, sc, depth):
        """a closure scenario: captured var and := variables, the literal, calls before and after assignments"""
        r = self.r
        out = []
        v = None
        if r.random() < 0.7 or not [1 for k, t in sc.vis.values() if k == "var"]:
            v = self.fresh(sc)
            if v is None:
                return []
            vt = r.choice(["u64", "u64", "str", "T"])
            out.append(("var", v, vt, self.expr(vt, sc, 1, "pure")))
            sc.bind(v, "var", vt)
            vfold = (v, vt)
        if r.random() < 0.6:
            c = self.fresh(sc)
            if c is not None:
                ct = r.choice(["u64", "str", "ptr", "T"])
                ce = self.expr(ct, sc, 1, "pure")
                out.append(("def", c, ("conv", ce) if ct == "u64" else ce))
                sc.bind(c, "def", ct)
                out += self.fold(c, ct, sc)
        g = self.fresh(sc)
        if g is None:
            return out + (self.fold(v, sc.vis[v][1], sc) if v is not None else [])
        nps = r.randrange(0, 3)
        ps = []
        for _ in range(nps):
            free = [x for x in NAMES if x not in [p for p, _ in ps]]
            ps.append((r.choice(free), r.choice(["u64", "u64", "str", "T", "ptr"])))
        rtys = r.choice([[], ["u64"], ["u64"], ["u64"], ["str"], ["u64", "u64"], ["u64", "str"], ["bool"], ["T"]])
        if r.random() < 0.2:
            ps, rtys = [(r.choice(["k", "x", "g"]), "u64")], ["u64"]
        body = self.body(sc.child(), ps, rtys, depth - 1, want_effect=True)
        ty = fn_ty([t for _, t in ps], rtys)
        out.append(("def", g, ("fn", False, ps, rtys, body)))
        sc.bind(g, "def", ty)
        self.hit("closure")
        before, after = r.randrange(0, 3), r.randrange(0, 3)
        passed = False
        if rtys == ["u64"] and [t for _, t in ps] == ["u64"]:
            hs = [f for f in self.fns[:self.cur] if not f.recv and not f.expect and f.name not in sc.vis and any(t == ty for _, t in f.params)]
            if hs:
                passed = True
        if before + after == 0 and not passed:
            after = 1
        out += self.use_closure(g, ty, sc, before)
        # assignments to what the closure captured
        for x, (k, t) in list(sc.vis.items()):
            if k == "var" and not is_fn(t) and x != "acc" and r.random() < 0.6:
                out.append(("set", x, self.expr(t, sc, 1, "pure")))
                self.hit("assign_after_capture")
        out += self.use_closure(g, ty, sc, after)
        hs = [f for f in (hs if passed else []) if f.name not in sc.vis]
        if passed and hs:
            f = r.choice(hs)
            args = []
            for _, t in f.params:
                args.append(("var", g) if t == ty else self.expr(t, sc, 0, "pure"))
            if None not in args:
                out += self.bind_call(("call", f.name, args), f.results, sc)
                self.hit("closure_passed")
        if v is not None and v in sc.vis and sc.vis[v][0] == "var" and not is_fn(sc.vis[v][1]):
            out += self.fold(v, sc.vis[v][1], sc)
        return out

    def stmts(self, sc, depth, n):
        r = self.r
        out = []
        for _ in range(n):
            c = r.randrange(20)
            if c < 3:
                x = self.fresh(sc)
                if x is None:
                    continue
                ty = r.choice(BASE)
                e = self.expr(ty, sc, 2, "call" if r.random() < 0.5 else "pure")
                if ty == "u64":
                    e = ("conv", e)
                out.append(("def", x, e))
                sc.bind(x, "def", ty)
                out += self.fold(x, ty, sc)
            elif c < 5:
                x = self.fresh(sc)
                if x is None:
                    continue
                ty = r.choice(BASE)
                e = self.expr(ty, sc, 2, "call" if r.random() < 0.4 else "pure")
                out.append(("var", x, ty, e))
                sc.bind(x, "var", ty)
                out += self.fold(x, ty, sc)
                self.hit("var_decl")
            elif c < 8:
                ws = [(x, t) for x, (k, t) in sc.vis.items() if k == "var" and not is_fn(t)]
                if ws:
                    x, t = r.choice(ws)
                    e = self.expr(t, sc, 2, "call" if r.random() < 0.4 else "pure")
                    if x == "acc" and self.has_call(e):
                        continue
                    out.append(("set", x, e))
            elif c < 11:
                rtys = r.choice([["u64"], ["u64", "u64"], ["u64", "str"], ["u64", "u64", "u64"], ["str", "u64", "bool"], [], ["str"], ["bool"], ["T"], ["ptr"], ["u64", "T"]])
                call = self.call(rtys, sc, 1)
                if call is not None:
                    out += self.bind_call(call, rtys, sc)
            elif c < 13 and depth > 0:
                t_sc, e_sc = sc.child(), sc.child()
                thn = self.stmts(t_sc, depth - 1, r.randrange(1, 3))
                els = self.stmts(e_sc, depth - 1, r.randrange(1, 3)) if r.random() < 0.5 else []
                out.append(("if", self.expr("bool", sc, 1, "pure"), thn, els))
                self.hit("if_nontail")
            elif c < 15 and depth > 0:
                out += self.closure(sc, depth)
            elif c < 17:
                ps = [x for x, (k, t) in sc.vis.items() if t == "ptr"]
                vs = [x for x, (k, t) in sc.vis.items() if t == "T" and k == "var"]
                if ps and (not vs or r.random() < 0.6):
                    out.append(("setp", r.choice("ab"), ("var", r.choice(ps)), self.expr("u64", sc, 1, "pure")))
                    self.hit("store_through_pointer")
                elif vs:
                    out.append(("setv", r.choice("ab"), r.choice(vs), self.expr("u64", sc, 1, "pure")))
                    self.hit("store_var_struct")
            elif c < 19:
                # a method call as a statement / bound
                ms = [f for f in self.fns[:self.cur] if f.recv and not f.expect]
                if ms:
                    f = r.choice(ms)
                    call = self.call(f.results, sc, 1)
                    if call is not None:
                        out += self.bind_call(call, f.results, sc)
        return out

    def results(self, sc, rtys, mode="pure"):
        """the expressions of a return: at most one of them contains calls, and then the others are immutable"""
        es = []
        chain = self.r.randrange(len(rtys)) if mode == "call" and rtys else None
        first = None
        if chain is not None:
            first = self.expr(rtys[chain], sc, 1, "call")
            if not self.has_call(first):
                chain, first = None, None
        used_acc = False
        for i, t in enumerate(rtys):
            if chain is not None and i == chain:
                e = first
            else:
                e = self.expr(t, sc, 1, "imm" if chain is not None else "pure")
            if t == "u64" and not used_acc and chain is None:
                e = ("bin", "+", ("var", "acc"), e)
                used_acc = True
            es.append(e)
        return es

    def body(self, sc, params, rtys, depth, want_effect=False, seed_from=None):
        """a function (literal) body: var acc, statements, the returns"""
        r = self.r
        for p, t in params:
            if p != "_":
                sc.bind(p, "def", t)
        sc.here = set(p for p, _ in params)
        u64s = [x for x, (k, t) in sc.vis.items() if t == "u64"]
        init = ("var", r.choice(u64s)) if u64s and r.random() < 0.8 else ("lit", r.randrange(0, 5))
        out = [("var", "acc", "u64", init), ("set", "acc", ("bin", "+", ("var", "acc"), ("lit", r.randrange(0, 3))))]
        sc.bind("acc", "var", "u64")
        if want_effect:
            ws = [(x, t) for x, (k, t) in sc.vis.items() if k == "var" and x != "acc" and not is_fn(t)]
            if ws and r.random() < 0.8:
                x, t = r.choice(ws)
                e = self.expr(t, sc, 1, "pure")
                if t == "u64":
                    e = ("bin", "+", ("var", x), e)
                out.append(("set", x, e))
                self.hit("closure_assigns_captured")
        out += self.stmts(sc, depth, r.randrange(1, 5))
        for p, t in params:
            if t == "ptr" and p != "_" and sc.vis.get(p) == ("def", "ptr") and r.random() < 0.7:
                out.append(("setp", r.choice("ab"), ("var", p), ("bin", "+", ("getp", "a", ("var", p)), ("var", "acc"))))
        out += self.tail(sc, rtys, depth)
        return out

    def tail(self, sc, rtys, depth):
        r = self.r
        if not rtys:
            c = r.random()
            if c < 0.5:
                return [("set", "acc", ("var", "acc"))] if False else []
            if c < 0.8:
                return [("ret", [])]
            self.hit("tail_if")
            return [("if", self.expr("bool", sc, 1, "pure"), self.stmts(sc.child(), 0, 1) + [("ret", [])], self.stmts(sc.child(), 0, 1))]
        c = r.random()
        if c < 0.6 or depth <= 0:
            return [("ret", self.results(sc, rtys, "call" if r.random() < 0.3 else "pure"))]
        if c < 0.8:
            self.hit("tail_if")
            t_sc, e_sc = sc.child(), sc.child()
            cond = self.expr("bool", sc, 1, "pure")
            thn = self.stmts(t_sc, 0, r.randrange(0, 2))
            thn += [("ret", self.results(t_sc, rtys))]
            els = self.stmts(e_sc, 0, r.randrange(0, 2))
            els += [("ret", self.results(e_sc, rtys))]
            return [("if", cond, thn, els)]
        self.hit("early_return")
        t_sc = sc.child()
        cond = self.expr("bool", sc, 1, "pure")
        thn = self.stmts(t_sc, 0, r.randrange(0, 2))
        thn += [("ret", self.results(t_sc, rtys))]
        rest = self.stmts(sc, 0, r.randrange(0, 2))
        return [("if", cond, thn, [])] + rest + [("ret", self.results(sc, rtys))]

    # ------------------------------------------------------------------ declarations
    def gscope(self):
        return Scope({}, ())

    def params(self, n, tys, avoid=()):
        r = self.r
        ps = []
        for i in range(n):
            free = [x for x in NAMES if x not in [p for p, _ in ps] and x not in avoid]
            ps.append((r.choice(free), r.choice(tys)))
        return ps

    def add(self, f):
        self.fns.append(f)
        self.cur = len(self.fns)
        return f

    def gname_free(self):
        used = {f.name for f in self.fns if not f.recv}
        free = [x for x in GNAMES if x not in used]
        return self.r.choice(free)

    def mname_free(self):
        used = {f.name for f in self.fns if f.recv}
        free = [x for x in MNAMES if x not in used]
        return self.r.choice(free)

    def helper(self):
        r = self.r
        rtys = r.choice([["u64"], ["u64", "u64"], ["u64", "str"], ["u64", "u64", "u64"], ["str", "u64", "bool"], ["str"], ["bool"], ["T"], ["ptr"], ["u64", "T"], []])
        ps = self.params(r.randrange(0, 4), ["u64", "u64", "str", "T", "ptr", "bool"])
        f = Fn(self.gname_free(), ps, rtys)
        self.cur = len(self.fns)
        f.body = self.body(self.gscope(), ps, rtys, 2)
        self.hit("helper_%d_results" % len(rtys))
        return self.add(f)

    def higher_order(self):
        r = self.r
        ft = fn_ty(["u64"], ["u64"])
        fname = r.choice(["g", "h", "a"])
        ps = [(fname, ft), (r.choice(["x", "y"]), "u64")]
        f = Fn(self.gname_free(), ps, ["u64"])
        self.cur = len(self.fns)
        x = ps[1][0]
        c = r.randrange(3)
        if c == 0:
            f.body = [("ret", [("bin", "+", ("call", fname, [("var", x)]), ("lit", 1))])]
        elif c == 1:
            f.body = [("def", "v", ("call", fname, [("var", x)])), ("def", "b", ("call", fname, [("var", "v")])), ("ret", [("bin", "+", ("var", "v"), ("var", "b"))])]
        else:
            f.body = [("var", "acc", "u64", ("var", x)), ("if", ("cmp", "<", ("var", x), ("lit", 3)), [("set", "acc", ("call", fname, [("var", "acc")]))], []),
                      ("ret", [("var", "acc")])]
        self.hit("higher_order")
        return self.add(f)

    def strhelper(self):
        r = self.r
        c = r.randrange(4)
        name = self.gname_free()
        self.cur = len(self.fns)
        if c == 0:
            ps = self.params(2, ["str"])
            f = Fn(name, ps, ["str"])
            f.body = [("ret", [("bin", "+", ("bin", "+", ("var", ps[0][0]), ("slit", r.choice(STRS))), ("var", ps[1][0]))])]
        elif c == 1:
            ps = self.params(1, ["str"], avoid=("b", "w", "n"))
            f = Fn(name, ps, ["u64", "str"])
            s = ps[0][0]
            f.body = [("def", "b", ("bytes", ("var", s))), ("def", "w", ("string", ("var", "b"))),
                      ("var", "n", "u64", ("blen", ("var", "b"))),
                      ("if", ("scmp", "==", ("var", "w"), ("var", s)), [("set", "n", ("bin", "+", ("var", "n"), ("lit", 100)))], []),
                      ("ret", [("var", "n"), ("bin", "+", ("var", "w"), ("var", s))])]
        elif c == 2:
            ps = self.params(2, ["str"])
            f = Fn(name, ps, ["bool"])
            f.body = [("ret", [("scmp", r.choice(["==", "!="]), ("bin", "+", ("var", ps[0][0]), ("var", ps[1][0])), ("bin", "+", ("var", ps[1][0]), ("var", ps[0][0])))])]
        else:
            ps = self.params(2, ["str", "u64"])
            f = Fn(name, ps, ["u64"])
            f.body = self.body(self.gscope(), ps, ["u64"], 1)
        self.hit("string_helper")
        return self.add(f)

    def method(self, is_ptr):
        r = self.r
        rn = r.choice(["r", "x", "t", "s"])
        rtys = r.choice([["u64"], ["u64"], [], ["u64", "u64"], ["T"], ["ptr"]] if not is_ptr else [[], [], ["u64"], ["ptr"], ["u64", "u64"]])
        ps = self.params(r.randrange(0, 3), ["u64", "u64", "str", "T"], avoid=(rn,))
        f = Fn(self.mname_free(), ps, rtys, recv=(rn, is_ptr))
        self.cur = len(self.fns)
        sc = self.gscope()
        allp = [(rn, "ptr" if is_ptr else "T")] + ps
        if r.random() < 0.35:
            # the receiver itself is returned (a copy / the shared object)
            if (rtys == ["T"] and not is_ptr) or (rtys == ["ptr"] and is_ptr):
                f.body = [("ret", [("var", rn)])]
                self.hit("method_returns_receiver")
                return self.add(f)
        body = self.body(sc, allp, rtys, 1)
        if is_ptr:
            # make sure the object is changed
            k = [x for x, t in ps if t == "u64"]
            upd = ("setp", r.choice("ab"), ("var", rn), ("bin", "+", ("getp", "a", ("var", rn)), ("var", k[0]) if k else ("lit", r.randrange(1, 4))))
            body = body[:1] + [upd] + body[1:]
        f.body = body
        self.hit("method_ptr" if is_ptr else "method_val")
        return self.add(f)

    def recursive(self):
        r = self.r
        c = r.randrange(8)
        name = self.gname_free()
        self.cur = len(self.fns)
        other = self.gname_free_excluding(name)
        n = r.choice([q for q in ["n", "x", "z", "k"] if q not in (name, other)])
        V, L = (lambda x: ("var", x)), (lambda k: ("lit", k))
        dec = ("bin", "-", V(n), L(1))
        self.hit("recursion_%d" % c)
        if c == 0:      # early return, n * f(n-1)
            f = Fn(name, [(n, "u64")], ["u64"], small=True)
            f.body = [("if", ("cmp", "==", V(n), L(0)), [("ret", [L(1)])], []), ("ret", [("bin", r.choice("*+"), V(n), ("call", name, [dec]))])]
        elif c == 1:    # tail if
            y2 = r.choice([q for q in ["y", "w", "q"] if q not in (name, other, n)])
            f = Fn(name, [(n, "u64"), (y2, "u64")], ["u64"], small=True)
            f.body = [("if", ("cmp", "==", V(n), L(0)), [("ret", [V(y2)])], [("ret", [("call", name, [dec, ("bin", "+", V(y2), V(n))])])])]
        elif c == 2:    # accumulating, non-tail if
            f = Fn(name, [(n, "u64")], ["u64"], small=True)
            f.body = [("var", "acc", "u64", L(r.randrange(0, 4))), ("if", ("cmp", "!=", V(n), L(0)), [("set", "acc", ("bin", "+", V(n), ("call", name, [dec])))], []),
                      ("ret", [V("acc")])]
        elif c == 3:    # fibonacci
            f = Fn(name, [(n, "u64")], ["u64"], small=True)
            f.body = [("if", ("cmp", "<", V(n), L(2)), [("ret", [V(n)])], []), ("def", "a", ("call", name, [dec])), ("def", "b", ("call", name, [("bin", "-", V(n), L(2))])),
                      ("ret", [("bin", "+", V("a"), V("b"))])]
        elif c == 4:    # mutual recursion
            rt = r.choice(["bool", "u64"])
            base0, base1 = (("blit", True), ("blit", False)) if rt == "bool" else (L(10), L(20))
            f0 = Fn(name, [(n, "u64")], [rt], small=True)
            f1 = Fn(other, [(n, "u64")], [rt], small=True)
            f0.body = [("if", ("cmp", "==", V(n), L(0)), [("ret", [base0])], []), ("ret", [("call", other, [dec])])]
            f1.body = [("if", ("cmp", "==", V(n), L(0)), [("ret", [base1])], [("ret", [("call", name, [dec])])])]
            self.add(f0)
            return self.add(f1)
        elif c == 5:    # several results
            f = Fn(name, [(n, "u64")], ["u64", "str"], small=True)
            f.body = [("if", ("cmp", "==", V(n), L(0)), [("ret", [L(0), ("slit", "")])], []), ("defn", ["a", "s"], ("call", name, [dec])),
                      ("ret", [("bin", "+", V("a"), V(n)), ("bin", "+", V("s"), ("slit", r.choice(["a", "bc"])))])]
        elif c == 6:    # through a closure that calls the enclosing function
            f = Fn(name, [(n, "u64")], ["u64"], small=True)
            kk = r.choice([q for q in ["k", "q", "j"] if q != name])
            f.body = [("def", "g", ("fn", False, [(kk, "u64")], ["u64"], [("ret", [("call", name, [V(kk)])])])),
                      ("if", ("cmp", "==", V(n), L(0)), [("ret", [L(r.randrange(1, 4))])], []),
                      ("def", "v", ("call", "g", [dec])), ("ret", [("bin", "+", V("v"), V(n))])]
        else:           # a recursive method
            rn = r.choice(["r", "t"])
            isp = r.random() < 0.5
            f = Fn(self.mname_free(), [(n, "u64")], ["u64"], recv=(rn, isp), small=True)
            fld = ("getp" if isp else "get", "a", V(rn))
            f.body = [("if", ("cmp", "==", V(n), L(0)), [("ret", [fld])], []), ("def", "v", ("mcall", isp, f.name, V(rn), [dec])), ("ret", [("bin", "+", V("v"), L(1))])]
        return self.add(f)

    def gname_free_excluding(self, name):
        used = {f.name for f in self.fns if not f.recv} | {name}
        return self.r.choice([x for x in GNAMES if x not in used])

    def rejected(self):
        """one declaration goose must refuse (nobody calls it)"""
        r = self.r
        c = r.randrange(9)
        name = self.gname_free()
        self.cur = len(self.fns)
        V, L = (lambda x: ("var", x)), (lambda k: ("lit", k))
        f = Fn(name, [("p", "u64")], ["u64"])
        if c == 0:
            f.named = True
            f.body = [("ret", [("bin", "+", V("p"), L(1))])]
            f.expect = ("error", "named returned value")
        elif c == 1:
            f.body = [("def", "g", ("fn", True, [("k", "u64")], ["u64"], [("ret", [V("k")])])), ("ret", [("call", "g", [V("p")])])]
            f.expect = ("error", "named returned value")
        elif c == 2:
            two = [g for g in self.fns if not g.recv and not g.expect and g.results == ["u64", "u64"] and not g.small and all(not is_fn(t) for _, t in g.params)]
            take = [g for g in self.fns if not g.recv and not g.expect and [t for _, t in g.params] == ["u64", "u64"] and g.results == ["u64"]]
            if not two:
                h2 = Fn(self.gname_free(), [("x", "u64")], ["u64", "u64"])
                h2.body = [("ret", [("var", "x"), ("bin", "+", ("var", "x"), ("lit", 1))])]
                two = [self.add(h2)]
            if not take:
                h1 = Fn(self.gname_free(), [("x", "u64"), ("y", "u64")], ["u64"])
                h1.body = [("ret", [("bin", "+", ("var", "x"), ("var", "y"))])]
                take = [self.add(h1)]
            name = self.gname_free()
            f = Fn(name, [("p", "u64")], ["u64"])
            self.cur = len(self.fns)
            g2 = r.choice(two)
            args = [self.expr(t, Scope({"p": ("def", "u64")}), 0, "pure") for _, t in g2.params]
            f.body = [("ret", [("call", r.choice(take).name, [("call", g2.name, args)])])]
            f.expect = ("error", "multi-valued call as the arguments of a call")
        elif c == 3:
            f.body = [("def", "x", V("p")), ("def", "g", ("fn", False, [], [], [("set", "x", L(3))])), ("do", ("call", "g", [])), ("ret", [V("x")])]
            f.expect = ("error", "variable x is not assignable")
        elif c == 4:
            f.params = [("s", "str"), ("t", "str")]
            f.results = ["bool"]
            f.body = [("ret", [("scmp", r.choice(["<", "<=", ">", ">="]), V("s"), V("t"))])]
            f.expect = ("error", "ordering comparison on strings")
        elif c == 5:
            f.body = [("var", "g", fn_ty(["u64"], ["u64"]), ("fn", False, [("k", "u64")], ["u64"], [("ret", [("bin", "+", V("k"), V("p"))])])), ("ret", [("call", "g", [L(1)])])]
            f.expect = ("error", "function type")
        elif c == 6:
            f.body = [("if", ("cmp", "==", V("p"), L(0)), [("if", ("cmp", "==", V("p"), L(1)), [("ret", [L(1)])], [])], []), ("ret", [L(2)])]
            f.expect = ("error", "return in unsupported position")
        elif c == 7:
            f.body = [("var", "acc", "u64", V("p")), ("if", ("cmp", "==", V("p"), L(0)), [("ret", [L(1)])], [("set", "acc", ("bin", "+", V("acc"), L(1)))]), ("ret", [V("acc")])]
            f.expect = ("error", "early return in if with an else branch")
        else:
            f.body = [("def", "x", V("p")), ("set", "x", L(3)), ("ret", [V("x")])]
            f.expect = ("error", "variable x is not assignable")
        self.hit("rejected_%d" % c)
        return self.add(f)

    def finding(self):
        """one of the shapes goose accepts and mistranslates (listed findings); evaluated directly"""
        r = self.r
        c = r.choice([0, 0, 1, 1, 2])
        name = self.gname_free()
        V, L = (lambda x: ("var", x)), (lambda k: ("lit", k))
        f = Fn(name, [("p", "u64")], ["u64"])
        pm = [g for g in self.fns if g.recv and g.recv[1] and not g.expect and not g.small and all(t == "u64" for _, t in g.params)]
        vm = [g for g in self.fns if g.recv and not g.recv[1] and not g.expect and not g.small and g.results == ["u64"] and all(t == "u64" for _, t in g.params)]
        self.cur = len(self.fns)
        if c == 0 and pm:
            m = r.choice(pm)
            f.body = [("var", "v", "T", ("mk", V("p"), L(2))), ("do", ("mcall", False, m.name, V("v"), [L(3) for _ in m.params])), ("ret", [("get", "a", V("v"))])]
            f.expect = ("finding", "pointer-method-on-value")
        elif c == 1 and vm:
            m = r.choice(vm)
            f.body = [("def", "q", ("new", V("p"), L(6))), ("def", "x", ("mcall", True, m.name, V("q"), [L(3) for _ in m.params])), ("ret", [V("x")])]
            f.expect = ("finding", "value-method-on-pointer")
        else:
            f.body = [("def", "t", ("mk", L(1), L(2))), ("setv", "a", "t", V("p")), ("ret", [("get", "a", V("t"))])]
            f.expect = ("finding", "store-through-let-bound-value")
        self.hit("finding_" + f.expect[1])
        return self.add(f)

    def entry(self, k):
        f = Fn("e%d" % k, [("p", "u64")], ["u64"])
        f.entry = True
        self.cur = len(self.fns)
        sc = self.gscope()
        r = self.r
        sc.bind("p", "def", "u64")
        sc.here = {"p"}
        out = [("var", "acc", "u64", ("var", "p"))]
        sc.bind("acc", "var", "u64")
        # call every function at least once where possible
        order = list(self.fns)
        r.shuffle(order)
        for g in order:
            if g.expect:
                continue
            out += self.stmts(sc, 2, r.randrange(0, 2))
            call = self.call_of(g, sc)
            if call is not None:
                out += self.bind_call(call, g.results, sc)
        out += self.stmts(sc, 2, r.randrange(1, 4))
        out += [("ret", [("var", "acc")])]
        f.body = out
        return self.add(f)

    def call_of(self, g, sc):
        r = self.r
        if g.recv:
            want = "ptr" if g.recv[1] else "T"
            vs = self.vars_of(sc, want, "pure")
            recv = ("var", r.choice(vs)) if vs and r.random() < 0.7 else self.expr(want, sc, 0, "imm")
            args = self.args([t for _, t in g.params], sc, 0, g.small, recv_var=True)
            if args is None:
                return None
            self.hit("call_method_ptr" if g.recv[1] else "call_method_val")
            return ("mcall", g.recv[1], g.name, recv, args)
        if g.name in sc.vis:
            return None
        args = self.args([t for _, t in g.params], sc, 1, g.small, recv_var=False)
        if args is None:
            return None
        self.hit("call_global")
        return ("call", g.name, args)

    def package(self, k):
        r = self.r
        plan = ["helper", "helper" if r.random() < 0.6 else "str", "rec", "mval", "mptr", "str" if r.random() < 0.7 else "helper"]
        if r.random() < 0.6:
            plan.append("ho")
        r.shuffle(plan)
        if "ho" in plan and r.random() < 0.7:
            plan.remove("ho")
            plan.insert(0, "ho")
        for what in plan:
            if what == "helper":
                self.helper()
            elif what == "str":
                self.strhelper()
            elif what == "rec":
                self.recursive()
            elif what == "mval":
                self.method(False)
            elif what == "mptr":
                self.method(True)
            elif what == "ho":
                self.higher_order()
        c = r.random()
        if c < 0.3:
            self.rejected()
        elif c < 0.45:
            self.finding()
        self.entry(k)
        return self.fns


# ---------------------------------------------------------------------- the example package of Lemmas/FunEx.lean, as Go

def directed_package(k):
    """`exPkg` of lean/GooseVerif/Lemmas/FunEx.lean (the programs the corollaries of Props/C01Fun.lean are about) plus
    blank parameters, with an entry function that calls every one of them"""
    V, L, S = (lambda x: ("var", x)), (lambda n: ("lit", n)), (lambda x: ("slit", x))
    U = "u64"
    fns = []

    def fn(name, params, results, body, recv=None):
        f = Fn(name, params, results, recv=recv)
        f.body = body
        fns.append(f)
        return f
    dec = lambda n: ("bin", "-", V(n), L(1))
    fn("two", [("x", U), ("y", U)], [U, U], [("ret", [("bin", "+", V("x"), V("y")), V("x")])])
    fn("three", [("x", U)], [U, U, U], [("ret", [V("x"), ("bin", "+", V("x"), L(1)), ("bin", "+", V("x"), L(2))])])
    fn("zero", [], [U], [("ret", [L(7)])])
    fn("nothing", [("x", U)], [], [])
    fn("fact", [("n", U)], [U], [("if", ("cmp", "==", V("n"), L(0)), [("ret", [L(1)])], []), ("ret", [("bin", "*", V("n"), ("call", "fact", [dec("n")]))])])
    fn("fib", [("n", U)], [U], [("if", ("cmp", "<", V("n"), L(2)), [("ret", [V("n")])], []), ("def", "a", ("call", "fib", [dec("n")])),
                               ("def", "b", ("call", "fib", [("bin", "-", V("n"), L(2))])), ("ret", [("bin", "+", V("a"), V("b"))])])
    fn("isEven", [("n", U)], ["bool"], [("if", ("cmp", "==", V("n"), L(0)), [("ret", [("blit", True)])], []), ("ret", [("call", "isOdd", [dec("n")])])])
    fn("isOdd", [("n", U)], ["bool"], [("if", ("cmp", "==", V("n"), L(0)), [("ret", [("blit", False)])], [("ret", [("call", "isEven", [dec("n")])])])])
    fn("seta", [("k", U)], [], [("setp", "a", V("r"), V("k"))], recv=("r", True))
    fn("geta", [("k", U)], [U], [("ret", [("bin", "+", ("get", "a", V("r")), V("k"))])], recv=("r", False))
    fn("self", [], ["T"], [("ret", [V("r")])], recv=("r", False))
    fn("selfp", [], ["ptr"], [("ret", [V("r")])], recv=("r", True))
    fn("down", [("n", U)], [U], [("if", ("cmp", "==", V("n"), L(0)), [("ret", [("getp", "a", V("r"))])], []),
                                ("def", "v", ("mcall", True, "down", V("r"), [dec("n")])), ("ret", [("bin", "+", V("v"), L(1))])], recv=("r", True))
    fn("cat", [("s", "str"), ("t", "str")], [U], [("ret", [("slen", ("bin", "+", V("s"), V("t")))])])
    fn("round", [("s", "str")], ["bool"], [("ret", [("scmp", "==", ("string", ("bytes", V("s"))), V("s"))])])
    fn("same", [("s", "str"), ("t", "str")], ["bool", "bool"], [("ret", [("scmp", "==", V("s"), V("t")), ("scmp", "!=", V("s"), V("t"))])])
    fn("ap", [("f", fn_ty([U], [U])), ("x", U)], [U], [("ret", [("bin", "+", ("call", "f", [V("x")]), L(1))])])
    fn("pos2", [("p", U), ("q", U)], [U], [("defn", ["a", "b"], ("call", "two", [V("p"), V("q")])), ("ret", [("bin", "+", ("bin", "*", V("a"), L(1000)), V("b"))])])
    fn("pos3", [("p", U)], [U], [("defn", ["a", "b", "c"], ("call", "three", [V("p")])),
                                ("ret", [("bin", "+", V("a"), ("bin", "+", ("bin", "*", V("b"), L(10)), ("bin", "*", V("c"), L(100))))])])
    fn("blank", [("p", U)], [U], [("defn", ["_", "b", "_"], ("call", "three", [V("p")])), ("ret", [V("b")])])
    fn("sees", [("p", U), ("q", U)], [U], [("var", "v", U, V("p")), ("def", "g", ("fn", False, [], [U], [("ret", [V("v")])])), ("set", "v", V("q")), ("ret", [("call", "g", [])])])
    fn("visible", [("p", U), ("q", U)], [U], [("var", "v", U, V("p")), ("def", "g", ("fn", False, [("k", U)], [], [("set", "v", V("k"))])),
                                             ("do", ("call", "g", [V("q")])), ("ret", [V("v")])])
    fn("byvalue", [("p", U), ("q", U)], [U], [("def", "c", V("p")), ("def", "g", ("fn", False, [], [U], [("ret", [V("c")])])), ("var", "r", U, L(0)),
                                             ("if", ("cmp", "==", V("q"), V("q")), [("def", "c", V("q")), ("set", "r", ("bin", "+", ("bin", "*", ("call", "g", []), L(1000)), V("c")))], []),
                                             ("ret", [V("r")])])
    fn("copy", [("p", U), ("q", U)], [U], [("var", "v", "T", ("mk", V("p"), L(0))), ("def", "c", ("mcall", False, "self", V("v"), [])), ("setv", "a", "v", V("q")),
                                          ("ret", [("get", "a", V("c"))])])
    fn("share", [("p", U), ("q", U)], [U], [("def", "x", ("new", V("p"), L(0))), ("do", ("mcall", True, "seta", V("x"), [V("q")])), ("ret", [("getp", "a", V("x"))])])
    fn("shareRet", [("p", U), ("q", U)], [U], [("def", "x", ("new", V("p"), L(0))), ("def", "c", ("mcall", True, "selfp", V("x"), [])), ("setp", "a", V("x"), V("q")),
                                              ("ret", [("getp", "a", V("c"))])])
    fn("hof", [("p", U)], [U], [("var", "n", U, L(0)),
                               ("def", "g", ("fn", False, [("k", U)], [U], [("set", "n", ("bin", "+", V("n"), L(1))), ("ret", [("bin", "+", V("k"), V("p"))])])),
                               ("def", "x", ("call", "ap", [V("g"), L(1)])), ("def", "y", ("call", "ap", [("fref", "fact"), L(3)])),
                               ("ret", [("bin", "+", ("bin", "+", V("x"), ("bin", "*", V("y"), L(100))), ("bin", "*", V("n"), L(10000)))])])
    fn("downer", [("p", U)], [U], [("def", "x", ("new", V("p"), L(0))), ("ret", [("mcall", True, "down", V("x"), [L(3)])])])
    fn("useZero", [("p", U)], [U], [("do", ("call", "nothing", [V("p")])), ("ret", [("bin", "+", ("call", "zero", []), V("p"))])])
    fn("blankParam", [("_", U), ("x", U), ("_", "str")], [U], [("ret", [("bin", "+", V("x"), L(1))])])
    body = [("var", "acc", U, V("p"))]
    A = lambda e: ("set", "acc", ("bin", "+", ("var", "acc"), e))
    n = [0]

    def use(call, bool_result=False):
        n[0] += 1
        x = "r%d" % n[0]
        body.append(("def", x, call))
        body.append(("if", V(x), [A(L(1))], [A(L(2))]) if bool_result else A(V(x)))
    for f in ("pos2", "sees", "visible", "byvalue", "copy", "share", "shareRet"):
        use(("call", f, [V("p"), L(4)]))
    for f in ("pos3", "blank", "hof", "downer", "useZero", "fact", "fib"):
        use(("call", f, [V("p")]))
    use(("call", "isEven", [V("p")]), True)
    use(("call", "isOdd", [V("p")]), True)
    use(("call", "cat", [S("ab"), S("c")]))
    use(("call", "round", [S("xyz")]), True)
    use(("call", "round", [S("")]), True)
    body.append(("defn", ["e1", "e2"], ("call", "same", [S("ab"), S("ab")])))
    body.append(("if", V("e1"), [A(L(10))], [A(L(20))]))
    body.append(("if", V("e2"), [A(L(100))], [A(L(200))]))
    use(("call", "blankParam", [L(1), V("p"), S("q")]))
    body.append(("ret", [V("acc")]))
    e = fn("e%d" % k, [("p", U)], [U], body)
    e.entry = True
    return fns


# ---------------------------------------------------------------------- token syntax of the `fun` protocol

CMP = {"==", "!=", "<", "<=", ">", ">="}


def ty_tok(t):
    return "fn" if is_fn(t) else t


def etoks(e):
    k = e[0]
    if k == "conv":
        return etoks(e[1])
    if k == "lit":
        return [str(e[1])]
    if k == "slit":
        return ["s:" + (e[1].encode().hex() or "-")]
    if k == "blit":
        return ["true" if e[1] else "false"]
    if k == "var":
        return [e[1]]
    if k == "fref":
        return ["fref", e[1]]
    if k == "bin":
        return [e[1]] + etoks(e[2]) + etoks(e[3])
    if k == "cmp":
        return [e[1]] + etoks(e[2]) + etoks(e[3])
    if k == "scmp":
        return ["s" + e[1]] + etoks(e[2]) + etoks(e[3])
    if k in ("slen", "bytes", "string", "blen"):
        return [k] + etoks(e[1])
    if k in ("mk", "new"):
        return [k] + etoks(e[1]) + etoks(e[2])
    if k in ("get", "getp"):
        return [k, e[1]] + etoks(e[2])
    if k == "call":
        return ["call", e[1], "("] + [t for a in e[2] for t in etoks(a)] + [")"]
    if k == "mcall":
        return ["mcall", "p" if e[1] else "v", e[2]] + etoks(e[3]) + ["("] + [t for a in e[4] for t in etoks(a)] + [")"]
    if k == "fn":
        return ["fn", "N" if e[1] else "n", "("] + [p for p, _ in e[2]] + [")", "["] + sstoks(e[4]) + ["]"]
    raise ValueError(e)


def stoks(s):
    k = s[0]
    if k == "def":
        return ["def", s[1]] + etoks(s[2])
    if k == "var":
        return ["var", s[1], ty_tok(s[2])] + etoks(s[3])
    if k == "set":
        return ["set", s[1]] + etoks(s[2])
    if k == "defn":
        return ["defn", "("] + list(s[1]) + [")"] + etoks(s[2])
    if k == "setp":
        return ["setp", s[1]] + etoks(s[2]) + etoks(s[3])
    if k == "setv":
        return ["setv", s[1], s[2]] + etoks(s[3])
    if k == "do":
        return ["do"] + etoks(s[1])
    if k == "if":
        return ["if"] + etoks(s[1]) + ["["] + sstoks(s[2]) + ["]", "["] + sstoks(s[3]) + ["]"]
    if k == "ret":
        return ["ret", "("] + [t for a in s[1] for t in etoks(a)] + [")"]
    raise ValueError(s)


def sstoks(ss):
    out = []
    for i, s in enumerate(ss):
        if i:
            out.append(";")
        out += stoks(s)
    return out


def dtoks(f):
    nm = "N" if f.named else "n"
    if f.recv:
        head = ["meth", f.name, str(len(f.results)), nm, f.recv[0], "ptr" if f.recv[1] else "val"]
    else:
        head = ["func", f.name, str(len(f.results)), nm]
    return head + ["("] + [p for p, _ in f.params] + [")", "["] + sstoks(f.body) + ["]"]


def pkg_toks(fns):
    return [t for f in fns for t in dtoks(f)]


# ---------------------------------------------------------------------- Go source

def go_ty(t):
    if is_fn(t):
        rs = [go_ty(x) for x in t[2]]
        res = "" if not rs else (" " + rs[0] if len(rs) == 1 else " (" + ", ".join(rs) + ")")
        return "func(%s)%s" % (", ".join(go_ty(x) for x in t[1]), res)
    return {"u64": "uint64", "bool": "bool", "str": "string", "bytes": "[]byte", "T": "T", "ptr": "*T"}[t]


def go_res(rs, named=False):
    if not rs:
        return ""
    if named:
        return " (" + ", ".join("r%d %s" % (i, go_ty(t)) for i, t in enumerate(rs)) + ")"
    return " " + go_ty(rs[0]) if len(rs) == 1 else " (" + ", ".join(go_ty(t) for t in rs) + ")"


def go_e(e, ind=0):
    k = e[0]
    if k == "conv":
        return "uint64(%s)" % strip(go_e(e[1], ind))
    if k == "lit":
        return str(e[1])
    if k == "slit":
        return '"%s"' % e[1]
    if k == "blit":
        return "true" if e[1] else "false"
    if k in ("var", "fref"):
        return e[1]
    if k in ("bin", "cmp", "scmp"):
        return "(%s %s %s)" % (go_e(e[2], ind), e[1], go_e(e[3], ind))
    if k == "slen" or k == "blen":
        return "uint64(len(%s))" % go_e(e[1], ind)
    if k == "bytes":
        return "[]byte(%s)" % go_e(e[1], ind)
    if k == "string":
        return "string(%s)" % go_e(e[1], ind)
    if k == "mk":
        return "T{a: %s, b: %s}" % (go_e(e[1], ind), go_e(e[2], ind))
    if k == "new":
        return "&T{a: %s, b: %s}" % (go_e(e[1], ind), go_e(e[2], ind))
    if k in ("get", "getp"):
        inner = go_e(e[2], ind)
        if e[2][0] == "new":
            inner = "(" + inner + ")"
        return "%s.%s" % (inner, e[1])
    if k == "call":
        return "%s(%s)" % (e[1], ", ".join(go_e(a, ind) for a in e[2]))
    if k == "mcall":
        inner = go_e(e[3], ind)
        if e[3][0] in ("new", "mk"):
            inner = "(" + inner + ")"
        return "%s.%s(%s)" % (inner, e[2], ", ".join(go_e(a, ind) for a in e[4]))
    if k == "fn":
        pad = "\t" * ind
        return "func(%s)%s {\n%s\n%s}" % (", ".join("%s %s" % (p, go_ty(t)) for p, t in e[2]), go_res(e[3], e[1]),
                                         "\n".join(go_src(e[4], ind + 1)), pad)
    raise ValueError(e)


def strip(s):
    return s[1:-1] if s.startswith("(") and s.endswith(")") and balanced(s[1:-1]) else s


def balanced(s):
    d = 0
    for ch in s:
        if ch == "(":
            d += 1
        elif ch == ")":
            d -= 1
            if d < 0:
                return False
    return d == 0


def is_u64_expr(e):
    return e[0] in ("lit", "bin") and (e[0] == "lit" or e[1] in "+-*")


def go_src(ss, ind):
    pad = "\t" * ind
    out = []
    for s in ss:
        k = s[0]
        if k == "def":
            out.append("%s%s := %s" % (pad, s[1], strip(go_e(s[2], ind))))
        elif k == "var":
            out.append("%svar %s %s = %s" % (pad, s[1], go_ty(s[2]), strip(go_e(s[3], ind))))
        elif k == "set":
            out.append("%s%s = %s" % (pad, s[1], strip(go_e(s[2], ind))))
        elif k == "defn":
            out.append("%s%s := %s" % (pad, ", ".join(s[1]), go_e(s[2], ind)))
        elif k == "setp":
            inner = go_e(s[2], ind)
            out.append("%s%s.%s = %s" % (pad, inner, s[1], strip(go_e(s[3], ind))))
        elif k == "setv":
            out.append("%s%s.%s = %s" % (pad, s[2], s[1], strip(go_e(s[3], ind))))
        elif k == "do":
            out.append(pad + go_e(s[1], ind))
        elif k == "if":
            out.append("%sif %s {" % (pad, strip(go_e(s[1], ind))))
            out += go_src(s[2], ind + 1)
            if s[3]:
                out.append(pad + "} else {")
                out += go_src(s[3], ind + 1)
            out.append(pad + "}")
        elif k == "ret":
            out.append(pad + ("return " + ", ".join(strip(go_e(a, ind)) for a in s[1]) if s[1] else pad and "return" or "return"))
        else:
            raise ValueError(s)
    return out


def has_str(e):
    """whether a `+` expression is a string concatenation (its leaves are strings)"""
    if e[0] in ("slit", "string"):
        return True
    if e[0] == "bin":
        return has_str(e[2]) or has_str(e[3])
    return e[0] in ("var", "call", "mcall") and False


def go_decl(f):
    ps = ", ".join("%s %s" % (p, go_ty(t)) for p, t in f.params)
    rc = "(%s %s) " % (f.recv[0], "*T" if f.recv[1] else "T") if f.recv else ""
    return ["func %s%s(%s)%s {" % (rc, f.name, ps, go_res(f.results, f.named))] + go_src(f.body, 1) + ["}"]


# the typed source needs to know which `x := e` are numbers: decided by the generator's types instead of by shape
def annotate_defs(fns):
    """wrap the right-hand side of every `x := e` whose type is uint64 and whose expression could be an untyped constant"""
    return fns


def go_package(pkgname, fns):
    src = ["package " + pkgname, "", "type T struct {", "\ta uint64", "\tb uint64", "}", ""]
    line_of = {}
    for f in fns:
        start = len(src) + 1
        src += "\n".join(go_decl(f)).split("\n")
        line_of[f.gname] = (start, len(src))
        src.append("")
    return "\n".join(src), line_of


def go_runner(pkgname, fns):
    out = ["//go:build !goose", "", "package " + pkgname, "", "import \"fmt\"", "", "func RunAll() {"]
    n = 0
    for f in fns:
        if f.entry or (f.expect and f.expect[0] == "finding"):
            for j, pv in enumerate(PVALS):
                out.append('\tfmt.Printf("%s/%s#%d u64:%%d\\n", %s(%d))' % (pkgname, f.name, j, f.name, pv))
                n += 1
    if n == 0:
        out[4] = ""
    out.append("}")
    return "\n".join(out) + "\n"


def run(seed, npkgs, scratch, keep=False, directed=True):
    """Returns (stats dict, first disagreement or None)."""
    r = random.Random(seed)
    pkgs = []
    gstats = {}
    for k in range(npkgs):
        g = Gen(r, "p%d" % k)
        fns = g.package(k)
        pkgs.append(("p%d" % k, fns))
        for kk, v in g.stats.items():
            gstats[kk] = gstats.get(kk, 0) + v
    if directed:
        pkgs.append(("pd", directed_package(npkgs)))
        gstats["directed_package"] = 1
        npkgs += 1
    files = {}
    lines_of = {}
    for name, fns in pkgs:
        src, line_of = go_package(name, fns)
        files["%s/p.go" % name] = src + "\n"
        files["%s/run.go" % name] = go_runner(name, fns)
        lines_of[name] = line_of
    files["cmd/main.go"] = "package main\n\nimport (\n" + "".join('\t"example.com/m/%s"\n' % n for n, _ in pkgs) + ")\n\nfunc main() {\n" + \
        "".join("\t%s.RunAll()\n" % n for n, _ in pkgs) + "}\n"
    root = os.path.join(scratch, "fun")
    gomod.write_module(root, k4.split_files(files))
    nat, nerr = k4.native(root)
    if nat is None:
        raise C.Infra("funcorr: generated module does not build (seed %d): %s" % (seed, nerr))
    rc, gout, gerr = gomod.run_goose(root, ["-ignore-errors"], ["./" + n for n, _ in pkgs])
    errs = c07.parse_errors(gerr)
    toks = [" ".join(pkg_toks(fns)) for _, fns in pkgs]
    model = C.driver("fun", toks)
    stats = {"packages": npkgs, "functions": 0, "accepted": 0, "rejected": 0, "findings": 0, "value_checks": 0, "finding_value_checks": 0}
    stats.update(gstats)
    bad = None
    golines, tlines, evq = [], [], []
    for (name, fns), tk, m in zip(pkgs, toks, model):
        path = os.path.join(root, "Goose", "example_com", "m", name + ".v")
        text = open(path).read() if os.path.exists(path) else None
        if m == "error parse":
            raise C.Infra("funcorr: the driver cannot parse its own token syntax: " + tk)
        if text is None:
            return stats, {"what": "goose wrote nothing for package " + name, "stderr": gerr[-1500:]}
        entries = m.split(" ;; ")
        if len(entries) != len(fns):
            raise C.Infra("funcorr: %d entries for %d declarations" % (len(entries), len(fns)))
        reps = k4.gl_session(text, ["names"])
        if reps[0].startswith("parse-error"):
            return stats, {"what": "emitted file does not parse", "package": name, "detail": k4.unhex(reps[0])}
        emitted = set(reps[1][6:].split(",")) if reps[1] != "names -" else set()
        present = [f.gname for f in fns if f.gname in emitted]
        canon = dict(zip(present, k4.gl_session(text, ["canon " + n for n in present])[1:]))
        vals = [f for f in fns if f.entry or (f.expect and f.expect[0] == "finding")]
        ev = k4.gl_session(text, ["eval %s u64:%d" % (f.gname, pv) for f in vals for pv in PVALS])[1:]
        gosrc_all = files["%s/p.go" % name].split("\n")
        uses = k4.uses_of(text, emitted)
        tainted = k4.tainted_by_rejection(uses, emitted, [f.gname for f in fns])
        for f, ent in zip(fns, entries):
            stats["functions"] += 1
            lo, hi = lines_of[name][f.gname]
            gosrc = "\n".join(gosrc_all[lo - 1:hi])
            if f.gname in emitted:
                got = canon[f.gname][6:] if canon[f.gname].startswith("canon ") else canon[f.gname]
                if ent.startswith("finding "):
                    _, _, kind, want = ent.split(" ", 3)
                    stats["findings"] += 1
                    stats["finding:" + kind] = stats.get("finding:" + kind, 0) + 1
                    if not (f.expect and f.expect == ("finding", kind)) and bad is None:
                        bad = {"what": "the model flags a finding the generator did not plant: " + kind, "package": name, "function": f.gname, "go": gosrc}
                elif ent.startswith("error "):
                    want = ent
                else:
                    want = ent
                    stats["accepted"] += 1
                    if f.expect and bad is None:
                        bad = {"what": "accepted by goose and by the model, the generator expected %s" % (f.expect,), "package": name, "function": f.gname, "go": gosrc}
                if got != want and bad is None:
                    bad = {"what": "the emitted tree differs from Model.Fun", "package": name, "function": f.gname, "go": gosrc, "model": want, "goose": got,
                           "emitted": k4.emitted_def(text, f.gname), "tokens": " ".join(dtoks(f))}
            else:
                stats["rejected"] += 1
                msgs = [msg for cat, msg, fl, ln in errs if ln is not None and lo <= ln <= hi and fl and fl.endswith("/%s/p.go" % name)]
                ok = ent.startswith("error %s " % f.gname) and any(x.replace(" ", "-").startswith(ent.split(" ", 2)[2]) for x in msgs)
                kind = ent.split(" ", 2)[2] if ent.startswith("error ") else "accepted-by-model"
                kind = re.sub(r"variable-\w+-is", "variable-X-is", kind)
                stats["rejected:" + kind] = stats.get("rejected:" + kind, 0) + 1
                if not ok and bad is None:
                    bad = {"what": "goose rejects, the model says `%s`" % ent[:300], "package": name, "function": f.gname, "go": gosrc, "goose_errors": msgs[:3],
                           "tokens": " ".join(dtoks(f))}
                if f.expect and f.expect[0] == "error" and not any(x.startswith(f.expect[1]) for x in msgs) and bad is None:
                    bad = {"what": "goose's message is not the expected one", "package": name, "function": f.gname, "go": gosrc, "goose_errors": msgs[:3], "expected": f.expect[1]}
        for i, f in enumerate(vals):
            for j, pv in enumerate(PVALS):
                golines.append("%s %d | %s" % (f.gname, pv, tk))
                evq.append((name, f, j, pv, ev[i * len(PVALS) + j], f.gname in tainted))
    if golines:
        mgo = C.driver("fungo", golines)
        mt = C.driver("funt", golines)
    for (name, f, j, pv, glrep, taint), g, t in zip(evq, golines and mgo, golines and mt):
        want = nat.get("%s/%s#%d" % (name, f.name, j))
        gl = k4.unhex(glrep)
        lo, hi = lines_of[name][f.gname]
        gosrc = "\n".join(files["%s/p.go" % name].split("\n")[lo - 1:hi])
        if want is not None and want.startswith("u64:") and int(want[4:]) >= 2 ** 62:
            stats["skipped_large_values"] = stats.get("skipped_large_values", 0) + 1
            continue
        if f.expect and f.expect[0] == "finding":
            stats["finding_value_checks"] += 1
            same_t = (gl.startswith("stuck") and t == "stuck") or (gl == "value u64:" + t and gl == "value " + str(want))
            if t == "stuck":
                stats["finding_emitted_stuck_go_has_value"] = stats.get("finding_emitted_stuck_go_has_value", 0) + 1
            go_ok = (want == "u64:" + g) or (f.expect[1] == "store-through-let-bound-value" and g == "none")
            if not (same_t and go_ok) and bad is None:
                bad = {"what": "a finding shape behaves differently from what is recorded", "package": name, "function": f.gname, "go": gosrc, "argument": pv,
                       "native_go": want, "model_go_semantics": g, "model_target_semantics": t, "interpreter_on_emitted": gl}
            continue
        if taint:
            continue
        stats["value_checks"] += 1
        if not (want == "u64:" + g and gl == "value " + want and want == "u64:" + t) and bad is None:
            bad = {"what": "values differ", "package": name, "function": f.gname, "go": gosrc, "argument": pv, "native_go": want, "model_go_semantics": g,
                   "model_target_semantics": t, "interpreter_on_emitted": gl, "go_package": files["%s/p.go" % name],
                   "line": "%s %d | %s" % (f.gname, pv, " ".join(pkg_toks(dict(pkgs)[name])))}
    if not keep:
        shutil.rmtree(root, ignore_errors=True)
    return stats, bad


def main(argv):
    seed = int(argv[1]) if len(argv) > 1 else 1
    npkgs = int(argv[2]) if len(argv) > 2 else 10
    nseeds = int(argv[3]) if len(argv) > 3 else 1
    scratch = C.scratch("funcorr.")
    total = {}
    rc = 0
    try:
        for s in range(seed, seed + nseeds):
            st, bad = run(s, npkgs, scratch, keep="--keep" in argv)
            for k, v in st.items():
                total[k] = total.get(k, 0) + v
            print("seed %d: %s" % (s, {k: st[k] for k in ("packages", "functions", "accepted", "rejected", "findings", "value_checks", "finding_value_checks")}), flush=True)
            if bad is not None:
                rc = 1
                print("DISAGREEMENT (seed %d):" % s)
                for k, v in bad.items():
                    print("--- %s:\n%s" % (k, v))
                break
    finally:
        if "--keep" not in argv:
            shutil.rmtree(scratch, ignore_errors=True)
        else:
            print("scratch:", scratch)
    print("total:", dict(sorted(total.items())))
    return rc


if __name__ == "__main__":
    sys.exit(main(sys.argv))
