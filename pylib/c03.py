"""C03 — concurrent programs: Go outcomes are GooseLang outcomes, over all schedules.

Proof: Props/C03.lean (lock theory: critical sections are atomic under every schedule; see there).
Tie: race-free concurrent programs drawn from parameterised templates (workers updating captured
`var` locals under a mutex, joined by a wait group with Add(1) per worker or Add(k) once; condition
variables with Signal/Broadcast and waiting loops; WaitTimeout loops with a slow producer;
schedule-dependent accumulators; goroutines spawned in loops over per-iteration copies; helper
functions receiving pointers) are run natively many times (with and without the race detector,
GOMAXPROCS 1 and 4, with a watchdog for deadlocks), translated by the REAL goose, and the emitted
definitions are run by the exhaustive scheduler of the Lean interpreter (GL/Explore.lean: all
interleavings at synchronisation points, memoised).  Every Go outcome must be a GooseLang outcome;
when the program is schedule-independent by construction, the GooseLang outcome set must be exactly
that one value — no deadlock, no stuck thread."""
import collections
import json
import os
import random
import re
import shutil
import subprocess
import sys

import common as C
import gomod
import k4
import conccorr

LEVEL = "proof"

RUNNER = '''//go:build !goose

package p

import (
	"fmt"
	"time"
)

func watch(name string, f func() uint64) {
	ch := make(chan uint64, 1)
	fmt.Printf("%s start\\n", name)
	go func() { ch <- f() }()
	select {
	case v := <-ch:
		fmt.Printf("%s u64:%d\\n", name, v)
	case <-time.After(3 * time.Second):
		fmt.Printf("%s no-return\\n", name)
	}
}
'''


def sleep(r, p=0.5):
    return "\t\tmachine.Sleep(%d)\n" % r.choice([1000, 200000, 2000000]) if r.random() < p else ""


def mutex_decl(r):
    """the mutex is a := local or a re-assignable var (then every use loads the pointer from its cell)"""
    if getattr(r, "force_var_mutex", False):
        return "\tvar mu *sync.Mutex = new(sync.Mutex)\n"
    return "\tmu := new(sync.Mutex)\n" if r.random() < 0.5 else "\tvar mu *sync.Mutex = new(sync.Mutex)\n"


def t_counter(r, name):
    n = r.randrange(1, 4)
    vals = [r.randrange(1, 50) for _ in range(n)]
    add_once = r.random() < 0.5
    via_ptr = r.random() < 0.3
    decl = "\ttotal := new(uint64)\n" if via_ptr else "\tvar total uint64 = %d\n" % r.randrange(5)
    rd, wr = ("*total", "*total") if via_ptr else ("total", "total")
    body = "func %s() uint64 {\n%s\twg := new(sync.WaitGroup)\n%s" % (name, mutex_decl(r), decl)
    if add_once:
        body += "\twg.Add(%d)\n" % n
    for v in vals:
        if not add_once:
            body += "\twg.Add(1)\n"
        body += "\tgo func() {\n%s\t\tmu.Lock()\n\t\t%s = %s + %d\n\t\tmu.Unlock()\n\t\twg.Done()\n\t}()\n" % (sleep(r, 0.3), wr, rd, v)
    body += "\twg.Wait()\n\tmu.Lock()\n\tr := %s\n\tmu.Unlock()\n\treturn r\n}\n" % rd
    return body, True


def t_cond(r, name):
    sig = r.choice(["Signal", "Broadcast"])
    v = r.randrange(1, 100)
    two_flags = r.random() < 0.4
    body = "func %s() uint64 {\n%s\tcond := sync.NewCond(mu)\n\tvar done bool = false\n\tvar result uint64 = 0\n" % (name, mutex_decl(r))
    body += "\tgo func() {\n%s\t\tmu.Lock()\n\t\tresult = %d\n\t\tdone = true\n\t\tcond.%s()\n\t\tmu.Unlock()\n\t}()\n" % (sleep(r), v, sig)
    body += "\tmu.Lock()\n\tfor !done {\n\t\tcond.Wait()\n\t}\n\tr := result\n\tmu.Unlock()\n"
    if two_flags:
        body += "\tmu.Lock()\n\tr2 := result + 1\n\tmu.Unlock()\n\treturn r + r2\n}\n"
    else:
        body += "\treturn r\n}\n"
    return body, True


def t_timeout(r, name):
    body = "func %s() uint64 {\n\tmu := new(sync.Mutex)\n\tcond := sync.NewCond(mu)\n\tvar ready bool = false\n\tvar waited bool = false\n" % name
    body += "\tgo func() {\n\t\tmachine.Sleep(%d)\n\t\tmu.Lock()\n\t\tready = true\n\t\tcond.%s()\n\t\tmu.Unlock()\n\t}()\n" % (r.choice([30000000, 50000000]), r.choice(["Signal", "Broadcast"]))
    body += "\tmu.Lock()\n\tfor !ready {\n\t\tmachine.WaitTimeout(cond, %d)\n\t\twaited = true\n\t}\n\tmu.Unlock()\n" % (0 if getattr(r, "force_zero_timeout", False) else r.choice([0, 3, 5, 8]))
    # the mutex must still be usable afterwards (helper goroutines of timed-out waits wake up late)
    body += "\tfor i := uint64(0); i < 10; i++ {\n\t\tmachine.Sleep(2000000)\n\t\tmu.Lock()\n\t\tmu.Unlock()\n\t}\n\tif waited {\n\t\treturn %d\n\t}\n\treturn %d\n}\n" % (7, 7)
    return body, True


def t_order(r, name):
    n = r.randrange(2, 4)
    body = "func %s() uint64 {\n\tmu := new(sync.Mutex)\n\twg := new(sync.WaitGroup)\n\tvar acc uint64 = 0\n" % name
    for i in range(n):
        body += "\twg.Add(1)\n\tgo func() {\n%s\t\tmu.Lock()\n\t\tacc = acc*10 + %d\n\t\tmu.Unlock()\n\t\twg.Done()\n\t}()\n" % (sleep(r, 0.7), i + 1)
    body += "\twg.Wait()\n\treturn acc\n}\n"
    return body, False


def t_loopspawn(r, name):
    n = r.randrange(1, 4)
    body = "func %s() uint64 {\n\tmu := new(sync.Mutex)\n\twg := new(sync.WaitGroup)\n\tvar acc uint64 = 0\n" % name
    body += "\tfor i := uint64(0); i < %d; i++ {\n\t\tj := i\n\t\twg.Add(1)\n\t\tgo func() {\n\t\t\tmu.Lock()\n\t\t\tacc = acc + (j+1)*(j+1)\n\t\t\tmu.Unlock()\n\t\t\twg.Done()\n\t\t}()\n\t}\n" % n
    body += "\twg.Wait()\n\treturn acc\n}\n"
    return body, True


def t_loopvar(r, name):
    """the goroutine WRITES the variable of the three-clause loop it is started in, and the iteration waits for it: the captured
    variable is the loop's own cell (Go's per-iteration copies coincide with it here, because each iteration ends after its goroutine)"""
    n = r.randrange(6, 14)
    k = r.randrange(1, 4)
    body = "func %s() uint64 {\n\tmu := new(sync.Mutex)\n\twg := new(sync.WaitGroup)\n\tvar sum uint64 = 0\n" % name
    body += ("\tfor i := uint64(0); i < %d; i++ {\n\t\twg.Add(1)\n\t\tgo func() {\n\t\t\tmu.Lock()\n\t\t\ti = i + %d\n\t\t\tsum = sum + i\n\t\t\tmu.Unlock()\n\t\t\twg.Done()\n\t\t}()\n"
             "\t\twg.Wait()\n\t}\n" % (n, k))
    body += "\tmu.Lock()\n\tres := sum\n\tmu.Unlock()\n\treturn res\n}\n"
    return body, True


def t_helper(r, name):
    v = r.randrange(1, 30)
    helper = "func %s_bump(mu *sync.Mutex, p *uint64, by uint64, wg *sync.WaitGroup) {\n\tmu.Lock()\n\t*p = *p + by\n\tmu.Unlock()\n\twg.Done()\n}\n\n" % name
    body = helper + "func %s() uint64 {\n\tmu := new(sync.Mutex)\n\twg := new(sync.WaitGroup)\n\tp := new(uint64)\n\twg.Add(2)\n" % name
    body += "\tgo func() {\n\t\t%s_bump(mu, p, %d, wg)\n\t}()\n\tgo func() {\n\t\t%s_bump(mu, p, %d, wg)\n\t}()\n\twg.Wait()\n\treturn *p\n}\n" % (name, v, name, v + 1)
    return body, True


def t_handoff(r, name):
    # the parent writes a captured var after the spawn; the thread reads it later, ordered by a condition variable
    v = r.randrange(1, 100)
    body = "func %s() uint64 {\n\tmu := new(sync.Mutex)\n\tcond := sync.NewCond(mu)\n\tvar stage uint64 = 0\n\tvar box uint64 = 0\n\tvar out uint64 = 0\n" % name
    body += "\tgo func() {\n\t\tmu.Lock()\n\t\tfor stage != 1 {\n\t\t\tcond.Wait()\n\t\t}\n\t\tout = box + 1\n\t\tstage = 2\n\t\tcond.Broadcast()\n\t\tmu.Unlock()\n\t}()\n"
    body += "\tmu.Lock()\n\tbox = %d\n\tstage = 1\n\tcond.Broadcast()\n\tfor stage != 2 {\n\t\tcond.Wait()\n\t}\n\tr := out\n\tmu.Unlock()\n\treturn r\n}\n" % v
    return body, True


def t_goargs(r, name):
    v = r.randrange(1, 50)
    body = "func %s() uint64 {\n\tmu := new(sync.Mutex)\n\twg := new(sync.WaitGroup)\n\tvar x uint64 = %d\n\tout := new(uint64)\n\twg.Add(1)\n" % (name, v)
    body += "\tgo func(a uint64) {\n%s\t\tmu.Lock()\n\t\t*out = a\n\t\tmu.Unlock()\n\t\twg.Done()\n\t}(x)\n" % sleep(r, 0.5)
    body += "\tx = %d\n\twg.Wait()\n\tmu.Lock()\n\tres := *out*100 + x\n\tmu.Unlock()\n\treturn res\n}\n" % (v + 1)
    return body, True


def t_signalled(r, name):
    """a WaitTimeout that is signalled long before its timeout: it must return holding the mutex"""
    v = r.randrange(1, 90)
    body = "func %s() uint64 {\n\tmu := new(sync.Mutex)\n\tcond := sync.NewCond(mu)\n\tvar ready bool = false\n\tvar n uint64 = %d\n" % (name, v)
    body += "\tgo func() {\n\t\tmachine.Sleep(%d)\n\t\tmu.Lock()\n\t\tready = true\n\t\tn = n + 1\n\t\tcond.%s()\n\t\tmu.Unlock()\n\t}()\n" % (r.choice([2000000, 5000000]), r.choice(["Signal", "Broadcast"]))
    body += "\tmu.Lock()\n\tfor !ready {\n\t\tmachine.WaitTimeout(cond, %d)\n\t}\n\tn = n + 10\n\tmu.Unlock()\n\tmu.Lock()\n\tres := n\n\tmu.Unlock()\n\treturn res\n}\n" % r.choice([1500, 2500])
    return body, True


def t_bcast(r, name):
    """several waiters parked on one condition variable; ONE Broadcast (or one Signal per waiter) releases them all"""
    n = r.randrange(2, 4)
    vals = [r.randrange(1, 30) for _ in range(n)]
    bc = r.random() < 0.7
    body = "func %s() uint64 {\n\tmu := new(sync.Mutex)\n\tcond := sync.NewCond(mu)\n\twg := new(sync.WaitGroup)\n\tvar open bool = false\n\tvar total uint64 = 0\n" % name
    for v in vals:
        body += "\twg.Add(1)\n\tgo func() {\n\t\tmu.Lock()\n\t\tfor !open {\n\t\t\tcond.Wait()\n\t\t}\n\t\ttotal = total + %d\n\t\tmu.Unlock()\n\t\twg.Done()\n\t}()\n" % v
    body += "%s\tmu.Lock()\n\topen = true\n" % sleep(r, 0.8)
    body += "\tcond.Broadcast()\n" if bc else "\tcond.Signal()\n" * n
    body += "\tmu.Unlock()\n\twg.Wait()\n\tmu.Lock()\n\tres := total\n\tmu.Unlock()\n\treturn res\n}\n"
    return body, True


# the program's OWN types that merely share their names with the sync primitives (declared once per package)
OWN_TYPES = """type WaitGroup struct {
	n uint64
}

func (w *WaitGroup) Add(d uint64) {
	w.n = w.n + d
}

func (w *WaitGroup) Done() {
	w.n = w.n + 100
}

func (w *WaitGroup) Wait() {
	w.n = w.n + 10000
}

type Mutex struct {
	n uint64
}

func (m *Mutex) Lock() {
	m.n = m.n + 1
}

func (m *Mutex) Unlock() {
	m.n = m.n + 10
}

type Cond struct {
	n uint64
}

func (c *Cond) Wait() {
	c.n = c.n + 1
}

func (c *Cond) Signal() {
	c.n = c.n + 5
}
"""


def t_owntypes(r, name):
    """sequential use of the program's own WaitGroup / Mutex / Cond types: their own methods must run"""
    k = r.randrange(3)
    if k == 0:
        return "func %s() uint64 {\n\tw := new(WaitGroup)\n\tw.Add(%d)\n\tw.Done()\n\tw.Wait()\n\tw.Wait()\n\treturn w.n\n}\n" % (name, r.randrange(1, 9)), True
    if k == 1:
        return "func %s() uint64 {\n\tm := new(Mutex)\n\tm.Lock()\n\tm.Lock()\n\tm.Unlock()\n\treturn m.n + %d\n}\n" % (name, r.randrange(1, 9)), True
    return "func %s() uint64 {\n\tc := new(Cond)\n\tc.Wait()\n\tc.Signal()\n\treturn c.n + %d\n}\n" % (name, r.randrange(1, 9)), True


def t_poll(r, name):
    """a polling loop that gives the mutex up and takes it again until another goroutine has set a flag"""
    v = r.randrange(1, 70)
    body = "func %s() uint64 {\n\tmu := new(sync.Mutex)\n\tvar done bool = false\n\tvar n uint64 = %d\n" % (name, v)
    body += "\tgo func() {\n%s\t\tmu.Lock()\n\t\tn = n + 1\n\t\tdone = true\n\t\tmu.Unlock()\n\t}()\n" % sleep(r, 0.5)
    body += "\tmu.Lock()\n\tfor !done {\n\t\tmu.Unlock()\n\t\tmu.Lock()\n\t}\n\tres := n\n\tmu.Unlock()\n\treturn res\n}\n"
    return body, True


def t_byvalue(r, name):
    """forms goose does not translate (a wait group held by value, the mutex reached through a condition variable's L field):
    they must be rejected, or mean what Go means"""
    v = r.randrange(1, 60)
    variant = getattr(r, "byvalue_variant", r.randrange(8))
    if variant == 0:
        return ("func %s() uint64 {\n\tvar wg sync.WaitGroup\n\tmu := new(sync.Mutex)\n\tvar n uint64 = 0\n\twg.Add(1)\n\tgo func() {\n\t\tmu.Lock()\n\t\tn = n + %d\n\t\tmu.Unlock()\n\t\twg.Done()\n\t}()\n"
                "\twg.Wait()\n\tmu.Lock()\n\tres := n\n\tmu.Unlock()\n\treturn res\n}\n" % (name, v)), True
    if variant == 1:
        # … and c.L when the variable the condition variable was made from has been re-assigned since: c.L is still the first mutex
        return ("func %s() uint64 {\n\tvar mu *sync.Mutex = new(sync.Mutex)\n\tc := sync.NewCond(mu)\n\tfirst := mu\n\tmu = new(sync.Mutex)\n\tvar ready bool = false\n\tvar n uint64 = %d\n"
                "\tgo func() {\n\t\tfirst.Lock()\n\t\tn = n + 1\n\t\tready = true\n\t\tc.Signal()\n\t\tfirst.Unlock()\n\t}()\n"
                "\tc.L.Lock()\n\tfor !ready {\n\t\tc.Wait()\n\t}\n\tres := n\n\tc.L.Unlock()\n\tmu.Lock()\n\tmu.Unlock()\n\treturn res\n}\n" % (name, v)), True
    if variant == 3:
        # a copy of a wait group made by dereferencing a pointer to one
        return ("func %s() uint64 {\n\tp := new(sync.WaitGroup)\n\twg := *p\n\tmu := new(sync.Mutex)\n\tvar n uint64 = 0\n\twg.Add(1)\n\tgo func() {\n\t\tmu.Lock()\n\t\tn = n + %d\n\t\tmu.Unlock()\n\t\twg.Done()\n\t}()\n"
                "\twg.Wait()\n\tmu.Lock()\n\tres := n\n\tmu.Unlock()\n\treturn res\n}\n" % (name, v)), True
    if variant == 4:
        # a mutex assigned through pointers
        return ("func %s() uint64 {\n\tp := new(sync.Mutex)\n\tq := new(sync.Mutex)\n\t*p = *q\n\tvar n uint64 = %d\n\tp.Lock()\n\tn = n + 1\n\tp.Unlock()\n\treturn n\n}\n" % (name, v)), True
    if variant == 5:
        # the mutex of a condition variable replaced through its field L
        return ("func %s() uint64 {\n\tmu := new(sync.Mutex)\n\tm2 := new(sync.Mutex)\n\tc := sync.NewCond(mu)\n\tc.L = m2\n\tvar ready bool = false\n\tvar n uint64 = %d\n"
                "\tgo func() {\n\t\tm2.Lock()\n\t\tn = n + 1\n\t\tready = true\n\t\tc.Signal()\n\t\tm2.Unlock()\n\t}()\n"
                "\tm2.Lock()\n\tfor !ready {\n\t\tc.Wait()\n\t}\n\tres := n\n\tm2.Unlock()\n\treturn res\n}\n" % (name, v)), True
    if variant == 6:
        # a mutex passed as a sync.Locker
        return ("func %s_with(l sync.Locker, p *uint64) {\n\tl.Lock()\n\t*p = *p + 1\n\tl.Unlock()\n}\n\n"
                "func %s() uint64 {\n\tmu := new(sync.Mutex)\n\tp := new(uint64)\n\t*p = %d\n\t%s_with(mu, p)\n\treturn *p\n}\n" % (name, name, v, name)), True
    if variant == 7:
        # the field L read as a value
        return ("func %s() uint64 {\n\tmu := new(sync.Mutex)\n\tc := sync.NewCond(mu)\n\tvar n uint64 = %d\n\tl := c.L\n\tl.Lock()\n\tn = n + 1\n\tl.Unlock()\n\tmu.Lock()\n\tres := n\n\tmu.Unlock()\n\treturn res\n}\n" % (name, v)), True
    return ("func %s() uint64 {\n\tmu := new(sync.Mutex)\n\tc := sync.NewCond(mu)\n\tvar n uint64 = %d\n\tc.L.Lock()\n\tn = n + 1\n\tc.L.Unlock()\n\tmu.Lock()\n\tres := n\n\tmu.Unlock()\n\treturn res\n}\n" % (name, v)), True


def t_global(r, name):
    """synchronisation objects that are not created by new(...) in the function: package-level variables (goose turns a global into a
    definition that is re-evaluated at every use) and composite literals.  They must be rejected, or mean what Go means"""
    v = r.randrange(1, 9)
    if getattr(r, "global_variant", 0) == 0:
        return ("var g%s_mu = new(sync.Mutex)\n\nvar g%s_wg = new(sync.WaitGroup)\n\n"
                "func %s() uint64 {\n\tvar n uint64 = 0\n\tg%s_wg.Add(1)\n\tgo func() {\n\t\tg%s_mu.Lock()\n\t\tn = n + %d\n\t\tg%s_mu.Unlock()\n\t\tg%s_wg.Done()\n\t}()\n"
                "\tg%s_wg.Add(1)\n\tgo func() {\n\t\tg%s_mu.Lock()\n\t\tn = n + 1\n\t\tg%s_mu.Unlock()\n\t\tg%s_wg.Done()\n\t}()\n"
                "\tg%s_wg.Wait()\n\tg%s_mu.Lock()\n\tres := n\n\tg%s_mu.Unlock()\n\treturn res\n}\n" % ((name, name, name, name, name, v) + (name,) * 9)), True
    gv = getattr(r, "global_variant", 0)
    if gv == 2:
        # the same globals, declared with their type
        return ("var g%s_mu *sync.Mutex = new(sync.Mutex)\n\nvar g%s_wg *sync.WaitGroup = new(sync.WaitGroup)\n\n"
                "func %s() uint64 {\n\tvar n uint64 = 0\n\tg%s_wg.Add(1)\n\tgo func() {\n\t\tg%s_mu.Lock()\n\t\tn = n + %d\n\t\tg%s_mu.Unlock()\n\t\tg%s_wg.Done()\n\t}()\n"
                "\tg%s_wg.Wait()\n\tg%s_mu.Lock()\n\tres := n\n\tg%s_mu.Unlock()\n\treturn res\n}\n" % ((name, name, name, name, name, v) + (name,) * 5)), True
    if gv == 3:
        # literals without & (elements of a slice of pointers; a mutex by value)
        return ("func %s() uint64 {\n\tms := []*sync.Mutex{{}}\n\tws := []*sync.WaitGroup{{}}\n\tvar n uint64 = 0\n\tws[0].Add(1)\n\tgo func() {\n\t\tms[0].Lock()\n\t\tn = n + %d\n\t\tms[0].Unlock()\n\t\tws[0].Done()\n\t}()\n"
                "\tws[0].Wait()\n\tms[0].Lock()\n\tres := n\n\tms[0].Unlock()\n\treturn res\n}\n" % (name, v)), True
    if gv == 4:
        return ("func %s() uint64 {\n\tm := sync.Mutex{}\n\tvar n uint64 = %d\n\tm.Lock()\n\tn = n + 1\n\tm.Unlock()\n\treturn n\n}\n" % (name, v)), True
    return ("func %s() uint64 {\n\tmu := &sync.Mutex{}\n\twg := &sync.WaitGroup{}\n\tvar n uint64 = 0\n\twg.Add(1)\n\tgo func() {\n\t\tmu.Lock()\n\t\tn = n + %d\n\t\tmu.Unlock()\n\t\twg.Done()\n\t}()\n"
            "\twg.Wait()\n\tmu.Lock()\n\tres := n\n\tmu.Unlock()\n\treturn res\n}\n" % (name, v)), True


MAY_BE_REJECTED = {"t_goargs", "t_byvalue", "t_global"}

TEMPLATES = [t_goargs, t_counter, t_counter, t_cond, t_timeout, t_order, t_loopspawn, t_helper, t_handoff, t_signalled, t_owntypes, t_bcast, t_byvalue, t_byvalue, t_byvalue, t_poll, t_global, t_global, t_loopvar]


def package(seed, nfuncs=16):
    r = random.Random(seed)
    fns = []
    for k in range(nfuncs):
        # every package: a timeout loop (zero timeout in every other package), a go statement with arguments, a counter
        # whose mutex lives in a re-assignable variable; then templates by rotation and at random
        r.force_zero_timeout = (seed % 2 == 0)
        r.force_var_mutex = (k == 2)
        fixed = [t_timeout, t_goargs, t_counter, t_signalled, t_owntypes, t_bcast, t_byvalue, t_poll, t_global, t_loopvar, t_byvalue, t_cond, t_handoff, t_byvalue, t_global]
        t = fixed[k] if k < len(fixed) else r.choice(TEMPLATES)
        # the rejected-or-faithful forms rotate with the seed: three of eight t_byvalue forms and two of five t_global forms per package
        r.byvalue_variant = (seed * 3 + sum(1 for x in fixed[:k] if x is t_byvalue)) % 8
        r.global_variant = (seed * 2 + sum(1 for x in fixed[:k] if x is t_global)) % 5
        src, det = t(r, "c%d" % k)
        fns.append(("c%d" % k, t.__name__, src, det))
    body = "\n".join(f[2] for f in fns)
    if any(f[1] == "t_owntypes" for f in fns):
        body += "\n" + OWN_TYPES
    src = "package p\n\nimport (\n\t\"sync\"\n" + ("\n\t\"github.com/goose-lang/goose/machine\"\n" if "machine." in body else "") + ")\n\n" + body
    return fns, src


def native_outcomes(root, fns, runs, race):
    """outcome multiset per function over many native runs"""
    reps = 3
    main = "package main\n\nimport \"example.com/m/p\"\n\nfunc main() {\n\tfor i := 0; i < %d; i++ {\n\t\tp.RunAll()\n\t}\n}\n" % reps
    os.makedirs(os.path.join(root, "cmd"), exist_ok=True)
    open(os.path.join(root, "cmd", "main.go"), "w").write(main)
    run_all = RUNNER + "\nfunc RunAll() {\n" + "".join('\twatch("%s", %s)\n' % (f[0], f[0]) for f in fns) + "}\n"
    open(os.path.join(root, "p", "run.go"), "w").write(run_all)
    exe = os.path.join(root, "prog-race" if race else "prog")
    p = subprocess.run(["go", "build"] + (["-race"] if race else []) + ["-o", exe, "./cmd"], cwd=root, env=C.GOENV, capture_output=True, text=True)
    if p.returncode != 0:
        raise C.Infra("C03 generator: package does not build: " + p.stderr[-1500:])
    out = collections.defaultdict(collections.Counter)
    races = []
    for i in range(runs):
        env = dict(C.GOENV)
        env["GOMAXPROCS"] = "1" if i % 3 == 0 else "4"
        q = subprocess.run([exe], cwd=root, env=env, capture_output=True, text=True, timeout=600)
        if "WARNING: DATA RACE" in q.stderr:
            races.append(q.stderr[:1500])
        last = None
        for l in q.stdout.splitlines():
            nm, _, val = l.partition(" ")
            if val == "start":
                last = nm
            else:
                out[nm][val] += 1
        if q.returncode != 0 and last is not None and "WARNING: DATA RACE" not in q.stderr:
            # the process died inside `last` (a fatal error of the runtime, e.g. unlock of an unlocked mutex, or a panic)
            first = next((l for l in q.stderr.splitlines() if l.startswith(("fatal error:", "panic:"))), q.stderr[:120])
            out[last]["crashed: " + first.strip()] += 1
    return out, races


def explore_each(text, op, names, budget_s=150):
    """One driver session per function, eight at a time: [load reply] + one reply per function.  A function whose exploration does not
    finish within the budget answers `outcomes 0 1` (truncated: no verdict for it) instead of failing the whole check — a mistranslated
    program can have a state space the explorer does not finish."""
    import concurrent.futures

    def one(n):
        try:
            r = k4.gl_session(text, ["%s %s" % (op, n)], timeout=budget_s)
            return r[0], r[1]
        except subprocess.TimeoutExpired:
            return "ok", "outcomes 0 1"
    if not names:
        return [k4.gl_session(text, [])[0]]
    with concurrent.futures.ThreadPoolExecutor(max_workers=8) as ex:
        res = list(ex.map(one, names))
    return [res[0][0]] + [r[1] for r in res]


def check(ctx, build=None):
    if build is None:
        build = C.ensure_built("C03", ["guards"], need_harness=False, extra_go=gomod.EXTRA_GO)
    if not build.driver_ok:
        raise C.Infra("the Lean driver does not build")
    scratch = C.scratch()
    found = False
    stats = collections.Counter()
    tstats = collections.Counter()
    samples = []

    def viol(what, inp, expected, observed):
        nonlocal found
        if os.environ.get("VERIF_DEBUG"):
            sys.stderr.write("debug: %s %s %s %s\n" % (what[:90], inp.get("template"), (inp.get("go_source") or "")[:160].replace("\n", " "), json.dumps(observed)[:200]))
        if not found:
            found = True
            ctx.violation("counterexample", what, inp, expected=expected, observed=observed)
    try:
        n = 3 if ctx.tier == "quick" else 40
        runs = 4 if ctx.tier == "quick" else 12
        for seed in range(ctx.seed * 500, ctx.seed * 500 + n):
            fns, src = package(seed)
            root = os.path.join(scratch, "m")
            gomod.write_module(root, {"p": {"p.go": src}})
            rc, gerr, text = k4.translate(root)          # -ignore-errors: a rejected function is dropped, the others stay
            stats["packages"] += 1
            if text is None:
                viol("C03: goose rejects a program built from go statements, mutexes, condition variables and wait groups", {"proto": "c03", "seed": seed, "package": src}, "accepted", gerr[-800:])
                continue
            nm = k4.gl_session(text, ["names"])
            present = set(nm[1][6:].split(",")) if not nm[0].startswith("parse-error") and nm[1] != "names -" else set()
            # a function that uses a package-level variable goose refused is not translated either (under -ignore-errors the rest of
            # the file is still written)
            missing_fns = [f for f in fns if f[0] not in present or any(g not in present for g in re.findall(r"^var (\w+) [^\n]*=", f[2], re.M))
                           or any(g not in present for g in re.findall(r"^func (\w+)\(", f[2], re.M))]
            for f in missing_fns:
                if f[1] in MAY_BE_REJECTED:
                    stats["rejected_out_of_subset"] += 1
                else:
                    viol("C03: goose rejects a function built from go statements, mutexes, condition variables and wait groups",
                         {"proto": "c03", "seed": seed, "function": f[0], "template": f[1], "go_source": f[2]}, "accepted", gerr[-800:])
            all_fns = fns
            fns = [f for f in fns if f not in missing_fns]
            nat, races = native_outcomes(root, all_fns, runs, race=False)
            nat_r, races_r = native_outcomes(root, all_fns, max(1, runs // 3), race=True)
            if races_r:
                # the programs are race free by construction (every shared access is under the mutex or ordered by wait group /
                # condition hand-off): a report means the primitives they use do not give mutual exclusion any more
                viol("C03: the race detector reports a data race in a program whose shared accesses are all protected by the Go-side primitives",
                     {"proto": "c03", "seed": seed, "package": src}, "no data race", races_r[0][:2500])
                continue
            reps = explore_each(text, "explore", [f[0] for f in fns])
            # Go's sync.Cond never wakes a waiter without Signal/Broadcast: under that reading too the emitted program of a
            # schedule-independent Go program must have no deadlock (templates that wait with Cond.Wait only)
            strict_fns = [f for f in fns if f[3] and "cond.Wait()" in f[2] and "WaitTimeout" not in f[2]]
            strict = dict(zip([f[0] for f in strict_fns], explore_each(text, "explore-strict", [f[0] for f in strict_fns])[1:])) if strict_fns else {}
            if reps[0].startswith("parse-error"):
                viol("C03: emitted file cannot be read back", {"proto": "c03", "seed": seed}, "well-formed", k4.unhex(reps[0]))
                continue
            for (name, tname, fsrc, det), rep in zip(fns, reps[1:]):
                w = rep.split()
                if w[0] != "outcomes":
                    raise C.Infra("explore: " + rep[:200])
                states, trunc = int(w[1]), w[2] == "1"
                gl = sorted(bytes.fromhex(x).decode() for x in w[3:] if x != "-")
                go = collections.Counter()
                go.update(nat[name])
                go.update(nat_r[name])
                stats["functions"] += 1
                stats["native_runs"] += sum(go.values())
                stats["states_explored"] += states
                tstats[tname] += 1
                stats["max_states"] = max(stats["max_states"], states)
                inp = {"proto": "c03", "seed": seed, "function": name, "template": tname, "go_source": fsrc, "emitted": k4.emitted_def(text, name)}
                if trunc:
                    stats["truncated"] += 1
                    continue
                glvals = set(gl)
                missing = [o for o in go if ("value " + o) not in glvals]
                if missing:
                    stats["go_outcome_not_in_gooselang"] += 1
                    viol("C03: Go produces a result that no interleaving of the emitted GooseLang program produces",
                         inp, {"gooselang_outcomes_over_all_interleavings": gl}, {"go_outcomes": dict(go)})
                    continue
                if det and len(go) == 1:
                    only = "value " + next(iter(go))
                    if glvals != {only}:
                        stats["schedule_dependent_in_gooselang"] += 1
                        viol("C03: the Go result does not depend on the schedule, but some interleaving of the emitted GooseLang program deadlocks, gets stuck or yields another result",
                             inp, {"every_interleaving": only}, {"gooselang_outcomes_over_all_interleavings": gl})
                if det and len(go) == 1 and name in strict and strict[name].split()[0] == "outcomes" and strict[name].split()[2] != "1":
                    sgl = sorted(bytes.fromhex(x).decode() for x in strict[name].split()[3:] if x != "-")
                    stats["strict_cond_explorations"] += 1
                    stats["states_explored"] += int(strict[name].split()[1])
                    if set(sgl) != {"value " + next(iter(go))}:
                        viol("C03: with condition variables that wake a waiter only on Signal/Broadcast (Go's sync.Cond) the Go program always returns, "
                             "but some interleaving of the emitted program deadlocks or yields another result",
                             inp, {"every_interleaving": "value " + next(iter(go))}, {"gooselang_outcomes_with_strict_condition_variables": sgl})
                if len(samples) < 2 and (len(gl) > 1 or tname == "t_cond"):
                    samples.append({"template": tname, "go_outcomes": dict(go), "gooselang_outcomes": gl, "states": states})
            shutil.rmtree(root, ignore_errors=True)
        # ---- the model of the translation of go / mutex / wait group / condition variable statements (Model/Conc.lean) against the real
        #      translator: emitted tree == model's tree; all-schedule outcomes of the model's Go semantics == strict exploration of the emitted
        #      text ⊆ Perennial-reading exploration; native outcomes among them
        for ts in range(ctx.seed * 30 + 700, ctx.seed * 30 + 700 + (1 if ctx.tier == "quick" else 12)):
            st, bad = conccorr.run(ts, 12, scratch)
            for k, v in st.items():
                if isinstance(v, int):
                    stats["conc_" + k] += v
            if bad and not any(b["name"].startswith("conc:") for b in build.broken):
                build.broken.append({"kind": "correspondence", "name": "conc: Model.Conc.tr / its semantics vs the tree goose emits / the explorer on the emitted text / native Go", "detail": json.dumps(bad, default=str)[:2500]})
                if ("native Go produces" in bad["what"] or "EMITTED text" in bad["what"]) and not found:
                    viol("C03 (conc model stream): " + bad["what"], {"proto": "conc", "seed": ts, "function": bad.get("function"), "go_source": bad.get("go"), "tokens": bad.get("tokens")},
                         {k: bad[k] for k in bad if k.startswith("model")}, {k: bad[k] for k in bad if k in ("native", "strict", "perennial", "interpreter_strict", "interpreter_perennial", "emitted")})
    finally:
        shutil.rmtree(scratch, ignore_errors=True)
    C.report_broken_obligations(ctx, build, found)
    ctx.coverage.update({
        "evaluations": stats["functions"],
        "distinct_nontrivial": stats["functions"],
        "rule": "6 closed functions per package from 7 templates with random parameters (1-3 workers, values, Add(k) once or Add(1) each, captured var "
                "locals or pointers, Signal/Broadcast, sleeps at random places); Go: %d native runs per function alternating GOMAXPROCS 1/4 plus race-detector "
                "runs, watchdog 3 s; GooseLang: every interleaving at synchronisation points (memoised exhaustive scheduler)" % runs,
        "samples": samples,
        "stats": dict(stats),
        "templates": dict(tstats),
    })
    ctx.assumptions += [
        "interleaving at synchronisation operations only is exhaustive for data-race-free programs (the generated programs are race free by construction; "
        "the race detector runs on every package and a report aborts the run as a generator bug)",
        "condition waits may wake up spuriously in the GooseLang model (Perennial's lock.condWait is release-then-acquire); unfair infinite schedules are not outcomes; "
        "a second exploration gives Wait/Signal/Broadcast the counting semantics of Go's sync.Cond (wake-up only by a signal) to find lost wake-ups",
        "Go's outcome set is sampled (schedules cannot be enumerated natively): a Go-only outcome may be missed, never invented",
    ]
    return ctx.finish(build)


def replay(ctx, path):
    """re-run the package of the stored seed; judge the stored function"""
    obj = json.load(open(path))
    inp = obj.get("input", {})
    if inp.get("proto") != "c03" or "seed" not in inp or "function" not in inp:
        return check(ctx)
    C.ensure_built("C03", ["guards"], need_harness=False, extra_go=gomod.EXTRA_GO)
    fns, src = package(inp["seed"])
    scratch = C.scratch()
    try:
        root = os.path.join(scratch, "m")
        gomod.write_module(root, {"p": {"p.go": src}})
        rc, gerr, text = k4.translate(root, flags=())
        if text is None:
            print("goose rejects the package:", gerr[-500:])
            return 1
        nat, _ = native_outcomes(root, fns, 12, race=False)
        rep = k4.gl_session(text, ["explore " + inp["function"]])[1].split()
    finally:
        shutil.rmtree(scratch, ignore_errors=True)
    gl = sorted(bytes.fromhex(x).decode() for x in rep[3:] if x != "-")
    go = dict(nat[inp["function"]])
    det = [f[3] for f in fns if f[0] == inp["function"]][0]
    missing = [o for o in go if ("value " + o) not in gl]
    bad = bool(missing) or (det and len(go) == 1 and set(gl) != {"value " + next(iter(go))})
    print(json.dumps({"go_outcomes": go, "gooselang_outcomes": gl, "states": int(rep[1])}, indent=1))
    print("verdict:", "violates the property" if bad else "meets the property")
    return 1 if bad else 0
