"""Shared driver for the concurrent correspondence harness (hconc): C10, C13 (interference), C14."""
import json
import os
import shutil
import subprocess

import common as C

HCONC = os.path.join(C.BIN, "hconc")
HCONC_RACE = os.path.join(C.BIN, "hconc-race")
EXTRA_GO = (("./cmd/hconc", "hconc", {}), ("./cmd/hconc", "hconc-race", {"race": True}))


def run_hconc(sub, args, race=False, timeout=None):
    """Returns (rounds, race_report or None)."""
    env = dict(C.GOENV)
    env["GORACE"] = "halt_on_error=0 exitcode=0"
    if timeout is None:
        # generous for the number of rounds asked; a library that deadlocks must not hang the check
        n = int(args[args.index("-rounds") + 1]) if "-rounds" in args else 60
        timeout = 240 + 3 * n
    try:
        p = subprocess.run([HCONC_RACE if race else HCONC, sub] + list(args), env=env, stdout=subprocess.PIPE,
                           stderr=subprocess.PIPE, text=True, timeout=timeout)
    except subprocess.TimeoutExpired as e:
        out = e.stdout.decode() if isinstance(e.stdout, bytes) else (e.stdout or "")
        rounds = [json.loads(l) for l in out.splitlines() if l.strip().startswith("{")]
        return rounds, "the stress run did not finish within %d s after %d completed rounds: some call into the library never returns (deadlock)" % (timeout, len(rounds))
    rounds = []
    for l in p.stdout.splitlines():
        l = l.strip()
        if l.startswith("{"):
            rounds.append(json.loads(l))
    report = None
    if "DATA RACE" in p.stderr:
        i = p.stderr.index("WARNING: DATA RACE")
        report = p.stderr[i:i + 3000]
    elif "fatal error: " in p.stderr:
        # the Go runtime gave up inside the library under test: concurrent map access, all goroutines asleep (a lock
        # that is never released), unlock of an unlocked mutex, stack overflow …
        i = p.stderr.index("fatal error: ")
        report = p.stderr[i:i + 1500]
    elif p.returncode != 0 and not rounds:
        raise C.Infra("hconc %s failed (%d): %s" % (sub, p.returncode, p.stderr[-2000:]))
    elif p.returncode != 0:
        report = "hconc exited with status %d: %s" % (p.returncode, p.stderr[-1500:])
    return rounds, report


def summarize(rounds):
    return {
        "rounds": len(rounds),
        "operations": sum(r["ops"] for r in rounds),
        "overlapping_pairs": sum(r.get("overlaps", 0) for r in rounds),
        "verdicts": {k: sum(1 for r in rounds if r["linearizable"] == k) for k in set(r["linearizable"] for r in rounds)},
    }
