"""C18 — test_gen emits exactly one Go and one Coq test per test function.

Proof: Props/C18.lean over Model/TestGen.lean (the scanner, the matcher the two regular expressions
denote, the file filters, the emitted text). Tie: regenerated regex literals / filters / canonical
main() of cmd/test_gen (rfl) + running the REAL test_gen binary on generated gofmt-formatted
directories in both modes: its output must equal the model's text, and the tests it emits must be
the ones an independent reading (go/parser) of the directory yields; a sample of generated Go files
is compiled against the package.
"""
import collections
import json
import os
import re
import shutil
import subprocess

import common as C

LEVEL = "proof"
TESTGEN = os.path.join(C.BIN, "test_gen")
EXTRA_GO = (("github.com/goose-lang/goose/cmd/test_gen", "test_gen", {"tags": "nohooks"}),)


def run_real(ops, scratch):
    env = dict(C.GOENV)
    env["VERIF_TESTGEN"] = TESTGEN
    return C.hcorr("tg", "run", ["-scratch", scratch], input="\n".join(ops) + "\n", env=env, timeout=1800)


def run_spec(ops):
    env = dict(C.GOENV)
    env["VERIF_TESTGEN"] = TESTGEN
    return C.hcorr("tg", "run", ["-impl", "spec", "-scratch", "/nonexistent"], input="\n".join(ops) + "\n", env=env)


def decode(reply):
    w = reply.split()
    if w[0] != "out":
        return None
    return "" if w[1] == "-" else bytes.fromhex(w[1]).decode("utf-8", "replace")


def tests_in_output(mode, text):
    """[(name incl. failing_ prefix, marked_failing)] in order of appearance."""
    out = []
    if mode == "coq":
        for m in re.finditer(r"^(Fail )?Example (\w+)_ok : (\w+) #\(\) ~~> #true := t\.$", text, re.M):
            out.append((m.group(3), bool(m.group(1))))
    else:
        for m in re.finditer(r"^func \(suite \*GoTestSuite\) Test(\w*)\(\) \{\n\td := disk\.NewMemDisk\(30\)\n\tdisk\.Init\(d\)\n\tsuite\.Equal\(true, (\w+)\(\)\)\n\}$", text, re.M):
            out.append((m.group(2), m.group(2).startswith("failing_")))
    return out


def case_files(op):
    w = op.split()
    fs = []
    for i in range(2, len(w), 3):
        name = bytes.fromhex(w[i]).decode() if w[i] != "-" else ""
        content = bytes.fromhex(w[i + 2]).decode() if w[i + 2] != "-" else ""
        fs.append((name, w[i + 1], content))
    return w[1], fs


def shrink_case(op, fails):
    """Drop files, then function declarations (blank-line separated chunks), while it still fails."""
    mode, fs = case_files(op)

    def enc(fs2):
        return "tg %s%s" % (mode, "".join(" %s %s %s" % ((n.encode().hex() or "-"), k, (c.encode().hex() or "-")) for n, k, c in fs2))
    fs = C.ddmin(fs, lambda cand: fails(enc(cand))) if len(fs) > 1 and fails(enc(fs)) else fs
    out = []
    for idx, (n, k, c) in enumerate(fs):
        chunks = c.split("\n\n")
        if len(chunks) > 2:
            head, tail = chunks[:1], chunks[1:]
            small = C.ddmin(tail, lambda t: fails(enc(fs[:idx] + [(n, k, "\n\n".join(head + t))] + fs[idx + 1:])))
            cand = "\n\n".join(head + small)
            if fails(enc(fs[:idx] + [(n, k, cand)] + fs[idx + 1:])):
                c = cand
                fs = fs[:idx] + [(n, k, c)] + fs[idx + 1:]
    return enc(fs)


def judge(op, real, spec):
    """None if the real output meets the property on this case, else a description."""
    mode, fs = case_files(op)
    text = decode(real)
    if text is None:
        return "test_gen failed: " + real[:200]
    want = [t for t in spec.split(" ", 1)[1].split(",") if t] if " " in spec else []
    got = tests_in_output(mode, text)
    if [g[0] for g in got] != want:
        return "tests emitted %s, functions named test…/failing_test… in the directory %s" % ([g[0] for g in got], want)
    for name, failing in got:
        if failing != name.startswith("failing_"):
            return "test %s: failing marker is %s" % (name, failing)
    return None


def known_for(desc_op):
    mode, fs = case_files(desc_op)
    txt = "\n".join(c for _, _, c in fs)
    for e in C.load_known("C18"):
        if e.get("status") != "known" or "content_regex" not in e.get("match", {}):
            continue
        if re.search(e["match"]["content_regex"], txt, re.M):
            return e
    return None


def check(ctx):
    build = C.ensure_built("C18", ["testgen"], extra_go=EXTRA_GO)
    scratch = C.scratch()
    found = False
    stats = collections.Counter()
    samples = []
    known_hits = {}
    try:
        for stream in ("core", "tricky"):
            ops = C.hcorr("tg", "gen", ["-seed", str(ctx.seed), "-tier", ctx.tier, "-stream", stream])
            real = run_real(ops, scratch)
            spec = run_spec(ops)
            model = C.driver("tg", ops) if build.driver_ok else None
            stats["cases_" + stream] = len(ops)
            for i, op in enumerate(ops):
                mode, fs = case_files(op)
                stats["files"] += len(fs)
                txt = decode(real[i]) or ""
                stats["tests_emitted"] += len(tests_in_output(mode, txt))
                why = judge(op, real[i], spec[i])
                if why is not None:
                    stats["spec_failures"] += 1
                    e = known_for(op)
                    if e is not None:
                        known_hits[e["key"]] = e
                        continue
                    if not found:
                        found = True

                        def fails(cand):
                            return judge(cand, run_real([cand], scratch)[0], run_spec([cand])[0]) is not None
                        small = shrink_case(op, fails)
                        m2, fs2 = case_files(small)
                        why2 = judge(small, run_real([small], scratch)[0], run_spec([small])[0])
                        ctx.violation("counterexample", "test_gen -%s vs the test functions of the directory" % mode,
                                      {"proto": "tg", "mode": m2, "files": [{"name": n, "kind": k, "content": c[:4000]} for n, k, c in fs2], "op": small if len(small) < 20000 else None},
                                      expected="exactly one test per top-level function named test…/failing_test…, in order, in both modes",
                                      observed=why2 or why)
                elif model is not None and model[i] != real[i]:
                    stats["model_disagreements"] += 1
                    if not any(b["kind"] == "correspondence" for b in build.broken):
                        build.broken.append({"kind": "correspondence", "name": "tg: Lean model of test_gen vs the real binary",
                                             "detail": "output text differs on a case with files %s (mode %s)" % ([n for n, _, _ in fs], mode)})
                if len(samples) < 2 and len(fs) >= 2 and stream == "core":
                    samples.append({"mode": mode, "files": [{"name": n, "content": c[:300]} for n, _, c in fs[:3]], "output_tests": tests_in_output(mode, txt)})
            # both generators agree on the set of tests (pairs of consecutive cases share the directory)
            for i in range(0, len(ops) - 1, 2):
                tg, tc = decode(real[i]), decode(real[i + 1])
                if tg is None or tc is None:
                    continue
                a = [n for n, _ in tests_in_output("go", tg)]
                b = [n for n, _ in tests_in_output("coq", tc)]
                if a != b:
                    stats["generators_disagree"] += 1
        # compile a sample of generated Go test files against their package
        ops = C.hcorr("tg", "gen", ["-seed", str(ctx.seed + 7), "-tier", "quick", "-stream", "core"])
        nvet = 0
        nsample = 6 if ctx.tier == "quick" else 40
        go_ops = [o for o in ops if o.split()[1] == "go"]
        largest = sorted(go_ops, key=len, reverse=True)[: max(2, nsample // 4)]       # the packages with the most tests first

        def tg_op(mode, fs):
            return "tg %s%s" % (mode, "".join(" %s %s %s" % ((n.encode().hex() or "-"), k, (c.encode().hex() or "-")) for n, k, c in fs))
        # packages ALL of whose tests are failing_ ones, in one file and spread over two (the generated file needs its imports for
        # them alone), and a package whose only plain test sits in another file than its failing ones
        ff = "package semantics\n\nfunc failing_testAlpha() bool {\n\treturn false\n}\n\nfunc failing_testBeta() bool {\n\treturn false\n}\n"
        fg = "package semantics\n\nfunc helper() uint64 {\n\treturn 1\n}\n\nfunc failing_testGamma() bool {\n\treturn helper() == 2\n}\n"
        fp = "package semantics\n\nfunc testDelta() bool {\n\treturn true\n}\n"
        of = [tg_op("go", [("only.go", "f", ff)]), tg_op("go", [("a.go", "f", ff), ("b.go", "f", fg)]), tg_op("go", [("a.go", "f", fg), ("z.go", "f", fp)])]
        stats["only_failing_packages_compiled"] = 2
        largest = of + [o for o in largest if o not in of]
        for op in largest + [o for o in go_ops if o not in largest][: nsample - len(largest)]:
            mode, fs = case_files(op)
            if not any(n.endswith(".go") and not n.endswith("_test.go") for n, _, _ in fs):
                continue
            out = decode(run_real([op], scratch)[0])
            pkg = os.path.join(scratch, "vetmod", "semantics")
            shutil.rmtree(os.path.join(scratch, "vetmod"), ignore_errors=True)
            os.makedirs(pkg)
            for n, k, c in fs:
                if k == "f" and n.endswith(".go") and not n.endswith("_test.go"):
                    open(os.path.join(pkg, n), "w").write(c)
            open(os.path.join(pkg, "generated_test.go"), "w").write(out)
            open(os.path.join(scratch, "vetmod", "go.mod"), "w").write(
                "module vetmod\n\ngo 1.22\n\nrequire github.com/goose-lang/goose v0.0.0\n\nreplace github.com/goose-lang/goose => %s\n" % C.REPO)
            shutil.copy(os.path.join(C.REPO, "go.sum"), os.path.join(scratch, "vetmod", "go.sum"))
            p = C.run(["go", "vet", "./semantics"], cwd=os.path.join(scratch, "vetmod"))
            nvet += 1
            if p.returncode != 0 and not found:
                e = known_for(op)
                if e is None:
                    for kf in C.load_known("C18"):
                        m = kf.get("match", {})
                        if kf.get("status") == "known" and "vet_regex" in m and re.search(m["vet_regex"], p.stdout + p.stderr) \
                                and len(tests_in_output("go", out)) == m.get("tests"):
                            e = kf
                if e is not None:
                    known_hits[e["key"]] = e
                    continue
                found = True
                ctx.violation("counterexample", "the generated Go test file does not compile against the package",
                              {"proto": "tg-vet", "files": [{"name": n, "content": c[:3000]} for n, _, c in fs]},
                              expected="go vet succeeds", observed=(p.stdout + p.stderr)[-1500:])
        stats["generated_go_files_compiled"] = nvet
    finally:
        shutil.rmtree(scratch, ignore_errors=True)
    for k, e in known_hits.items():
        ctx.known("%s — %s" % (k, e["what"]))
    C.report_broken_obligations(ctx, build, found)
    ncases = stats["cases_core"] + stats["cases_tricky"]
    ctx.coverage.update({
        "evaluations": ncases,
        "distinct_nontrivial": ncases,
        "rule": "gofmt-formatted directories of 0-3 Go files drawn from one splitmix64 stream: test / failing_test / disabled_ / helper / "
                "testing… functions, methods named test…, commented-out headers, multi-line signatures, plus _test.go, generated_test.go, "
                ".gold.v, backup (~) files and sub-directories; a `tricky` stream adds names outside [[:alnum:]], generic functions, header-like "
                "lines inside raw strings / block comments, and a 70 kB line; every directory is run in both modes; all cases are distinct",
        "samples": samples,
        "stats": dict(stats),
    })
    if ctx.tier == "thorough" and not build.broken:
        ok, out = C.leanchecker("GooseVerif.Props.C18")
        ctx.coverage["leanchecker"] = "ok" if ok else out
    ctx.assumptions += [
        "RE2 semantics of the two regular expressions is what Model/TestGen.matchHeader implements (sampled by the correspondence on every run)",
        "bufio.Scanner (ScanLines, 64 KiB token limit) and os.ReadDir's ordering are modelled, not verified",
        "a 'test function' is a top-level function without receiver/type parameters named (failing_)?test[A-Za-z0-9]+ — the language the tool's expressions define",
    ]
    return ctx.finish(build)


def replay(ctx, path):
    obj = json.load(open(path))
    C.ensure_built("C18", ["testgen"], extra_go=EXTRA_GO)
    op = obj["input"].get("op")
    if not op:
        return check(ctx)
    scratch = C.scratch()
    try:
        real = run_real([op], scratch)[0]
    finally:
        shutil.rmtree(scratch, ignore_errors=True)
    why = judge(op, real, run_spec([op])[0])
    print(decode(real))
    print("verdict:", why or "meets the property")
    return 1 if why else 0
