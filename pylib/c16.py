"""C16 — remaining machine primitives (UInt64ToString, MapClear, Assume/Assert, WaitTimeout).

Proof: Props/C16.lean. Correspondence: `prim` ops (real functions vs Lean models) and `wt`
scenarios (real WaitTimeout: lock state and elapsed time, judged against the protocol model's
outcome and a generous time bound). Timing is runtime behaviour: partial.
"""
import collections
import os
import json

import common as C

LEVEL = "proof"


def wt_fields(op):
    w = op.split()
    return {"timeout": int(w[1]), "signal_at": int(w[2]), "kind": w[3], "ghosts": int(w[4])}


def known_match(entry, op, reply):
    m = entry.get("match", {})
    if m.get("proto") != "wt" or not op.startswith("wt "):
        return False
    f = wt_fields(op)
    return (f["kind"] == m.get("kind") and f["ghosts"] >= m.get("ghosts_min", 0)
            and f["signal_at"] >= 0 and f["signal_at"] < f["timeout"] and reply == m.get("reply"))


def run_prim(build, ops):
    real = C.hcorr("prim", "run", input="\n".join(ops) + "\n")
    model = C.driver("prim", ops, timeout=1200) if build.driver_ok else None
    return real, model


def run_wt(build, ops):
    try:
        real = C.hcorr("wt", "run", input="\n".join(ops) + "\n", timeout=1800)
    except C.Infra:
        # a fatal error of the Go runtime (e.g. "sync: unlock of unlocked mutex" when a call returned without the lock) kills the
        # harness and cannot be recovered in-process: run the scenarios one by one, a crash is that scenario's answer
        real = []
        for o in ops:
            p = C.run([os.path.join(C.BIN, "hcorr"), "wt", "run"], input=o + "\n", timeout=600)
            if p.returncode == 0 and p.stdout.strip():
                real.append(p.stdout.splitlines()[0])
            else:
                first = next((l for l in p.stderr.splitlines() if l.startswith(("fatal error:", "panic:"))), "exit %d" % p.returncode)
                real.append("crashed: " + first.strip())
    model = C.driver("wt", ops) if build.driver_ok else None
    return real, model


def check(ctx):
    build = C.ensure_built("C16", ["prims"])
    known = [e for e in C.load_known("C16") if e.get("status") == "known"]
    fixed = [e for e in C.load_known("C16") if e.get("status") == "fixed"]
    found = False

    pops = C.hcorr("prim", "gen", ["-seed", str(ctx.seed), "-tier", ctx.tier])
    preal, pmodel = run_prim(build, pops)
    bad = [(o, m, r) for o, m, r in zip(pops, pmodel or preal, preal) if m != r]
    seen = set()
    for o, m, r in bad:
        k = o.split()[0]
        if k in seen:
            continue
        seen.add(k)
        found = True
        # the models of these four primitives are their specifications (Props/C16 proves the
        # contract of the model), so a disagreement is a counterexample to the contract
        hist = [o]
        if r.startswith("earlier-result-changed"):
            # the reply depends on the calls before it (their results are still held): the replay is the run of dec ops up to this one
            i = pops.index(o)
            hist = [x for x in pops[:i] if x.split()[0] == "dec"][-8:] + [o]
        ctx.violation("counterexample", "prim: machine primitive vs its model/specification",
                      {"proto": "prim", "ops": hist}, expected=m, observed=r)

    wops = C.hcorr("wt", "gen", ["-seed", str(ctx.seed), "-tier", ctx.tier])
    wreal, wmodel = run_wt(build, wops)
    kf_hits = collections.OrderedDict()
    wt_bad = []
    for o, m, r in zip(wops, wmodel or ["held prompt"] * len(wops), wreal):
        if r == m:
            continue
        ent = next((e for e in known if known_match(e, o, r)), None)
        if ent is not None:
            kf_hits.setdefault(ent["key"], []).append(o)
            continue
        wt_bad.append((o, m, r))
    if wt_bad:
        # re-run the failing scenarios alone (timing is noisy): only a reproducible failure counts
        again, _ = run_wt(build, [o for o, _, _ in wt_bad])
        still = [(o, m, r2) for (o, m, r), r2 in zip(wt_bad, again) if r2 != m]
        for o, m, r in still[:2]:
            found = True
            ctx.violation("counterexample", "wt: WaitTimeout lock state / promptness vs protocol model",
                          {"proto": "wt", "ops": [o]}, expected=m, observed=r)
        if not still:
            ctx.notes.append("%d WaitTimeout scenario(s) were late once and prompt when re-run alone (scheduler jitter, not reported)" % len(wt_bad))
    for e in known:
        if e["key"] in kf_hits:
            ctx.known("%s — %s (e.g. `%s`)" % (e["key"], e["what"], kf_hits[e["key"]][0]))
        else:
            ctx.notes.append("known finding %s did not reproduce in this run" % e["key"])
    C.report_broken_obligations(ctx, build, found)

    kinds = collections.Counter(o.split()[0] for o in pops + wops)
    nontriv = set(o for o in pops if not (o.startswith("mapclear") and o.split()[2] == "0")) | set(wops)
    ctx.coverage.update({
        "evaluations": len(pops) + len(wops),
        "distinct_nontrivial": len(nontriv),
        "rule": "prim ops: decimal rendering at 10^k-1,10^k,10^k+1, 2^k, 2^k-1, max and random boundary values; "
                "Assume/Assert with both arguments; MapClear on maps of 0..1200 entries of four key/value types. "
                "wt ops: (timeout, signal time or none, signal|broadcast, number of earlier timed-out calls). "
                "distinct = distinct op text; trivial = MapClear of an empty map",
        "samples": [{"op": o, "code": r} for o, r in list(zip(pops, preal))[-4:]] +
                   [{"op": o, "code": r} for o, r in list(zip(wops, wreal))[:8]],
        "op_mix": dict(kinds),
        "wt_scenarios": len(wops),
        "wt_replies": dict(collections.Counter(wreal)),
        "prim_disagreements": len(bad),
        "wt_time_slack_ms": 1200,
    })
    if ctx.tier == "thorough" and not build.broken:
        ok, out = C.leanchecker("GooseVerif.Props.C16")
        ctx.coverage["leanchecker"] = "ok" if ok else out
    ctx.assumptions += [
        "fmt's %d verb, Go's map iteration/delete semantics, sync.Cond/sync.Mutex/time.After/select are modelled, not verified (Model/Decimal, Model/MapClear, Model/WaitTimeout); the correspondence samples them",
        "WaitTimeout: elapsed time is measured with a 1200 ms slack and failing scenarios are re-run alone; the theorem covers the order of events only (partial for the timing clause)",
        "primitive.WaitTimeout lives in the module cache (github.com/goose-lang/primitive v0.1.0), its body is pinned by Props.C16.primitive_waittimeout_ok",
    ]
    return ctx.finish(build)


def replay(ctx, path):
    obj = json.load(open(path))
    build = C.ensure_built("C16", ["prims"])
    inp = obj["input"]
    ops = inp.get("ops", [])
    if not ops:
        return check(ctx)
    if inp.get("proto") == "wt":
        real, model = run_wt(build, ops)
    else:
        real, model = run_prim(build, ops)
    rc = 0
    for o, m, r in zip(ops, model, real):
        if m != r:
            print("still fails: %s expected %s observed %s" % (o, m, r))
            rc = 1
    return rc
