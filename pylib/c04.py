"""C04 — every declaration emitted once, uniquely named, defined before use.

Proof: Props/C04.lean over Model/Deps.lean (the depth-first emission of interface.go Decls):
every declaration is emitted exactly once, and after everything it mentions when the dependency
graph is acyclic.  Tie: (1) through the verif hook of /repo the names and dependencies goose
recorded per declaration and the order in which Decls emitted them are read from the REAL code on
generated packages, and the order must be exactly Model.Deps.emitOrder of the recorded data;
(2) independently of what goose recorded, the emitted .v file is parsed and every definition may
mention only definitions above it (never itself as a global), each expected name exactly once;
(3) every package is laid out in three different declaration orders / file splits: the set of
definitions must not change."""
import collections
import json
import os, sys
import re
import shutil
import subprocess

import common as C
import gomod
import k4
import c04gen
import glob

LEVEL = "proof"
HDEPS = os.path.join(C.BIN, "hdeps")
EXTRA_GO = gomod.EXTRA_GO + (("./cmd/hdeps", "hdeps", {"tags": "verif", "optional": True}),)


def first_name(coqdecl):
    m = re.match(r"(?:\(\*.*?\*\)\s*)*(?:Definition|Notation|Theorem|Axiom)\s+([\w']+)", coqdecl, re.S)
    return m.group(1) if m else None


def run_hdeps(root):
    p = subprocess.run([HDEPS, root, "./p"], env=C.GOENV, stdout=subprocess.PIPE, stderr=subprocess.PIPE, text=True, timeout=300)
    if p.returncode != 0:
        raise C.Infra("hdeps failed: " + p.stderr[-1500:])
    return json.loads(p.stdout.splitlines()[0])


def library_identifiers():
    """Gallina identifiers the translator itself emits (Skip, Continue, NewMap, MapGet, …): a mention of one of them is a mention of
    GooseLang's library even when the package happens to define a function of that name."""
    out = set()
    for f in ("goose.go", "types.go", os.path.join("internal", "coq", "coq.go")):
        try:
            src = open(os.path.join(C.REPO, f)).read()
        except OSError:
            continue
        out |= set(re.findall(r'GallinaIdent\("([A-Za-z_][\w.]*)"\)', src)) | set(re.findall(r'newCoqCall\("([A-Za-z_][\w.]*)"', src))
    return out


def captured_library_names(text):
    """(definition, name) pairs of an emitted file: the package defines `name`, a Gallina identifier the translator itself emits, and
    a definition BELOW it mentions `name` — in Coq's reading order that mention is the package's function, whatever was meant."""
    reps = k4.gl_session(text, ["names"])
    if reps[0].startswith("parse-error"):
        return []
    order = reps[1][6:].split(",") if reps[1] != "names -" else []
    lib = library_identifiers()
    mine = [n for n in order if n in lib]
    if not mine:
        return []
    uses = k4.gl_session(text, ["usesord " + n for n in order])[1:]
    pos = {}
    for i, n in enumerate(order):
        pos.setdefault(n, i)
    out = []
    for i, (n, rep) in enumerate(zip(order, uses)):
        ms = rep[8:].split(",") if rep.startswith("usesord ") and rep != "usesord -" else []
        out += [(n, u) for u in ms if u in mine and pos[u] < i]
    return out


def recording_gaps(h, text=None):
    """For one package as the hook reports it: (definition, mentioned same-package definition) pairs where the mention is not among
    the dependencies recorded for the unit that emitted the definition."""
    emitted = [e for e in (h.get("emitted") or []) if first_name(e)]
    if text is None:
        text = "\n\n".join(e if e.rstrip().endswith(".") else e for e in emitted) + "\n"
    reps = k4.gl_session(text, ["names"])
    if reps[0].startswith("parse-error"):
        return None
    order = reps[1][6:].split(",") if reps[1] != "names -" else []
    uses = k4.gl_session(text, ["usesord " + n for n in order])[1:]
    defined = set(order)
    unit_of = {}
    for ui, info in enumerate(h["infos"]):
        for nm in info["Names"] or []:
            unit_of[nm] = ui
    for ui, info in enumerate(h["infos"]):
        for e in info["Emitted"] or []:
            fn = first_name(e)
            if fn:
                unit_of.setdefault(fn, ui)
    gaps = []
    lib = library_identifiers()
    pos = {}
    for i, n in enumerate(order):
        pos.setdefault(n, i)
    for n, rep in zip(order, uses):
        ui = unit_of.get(n)
        if ui is None or not rep.startswith("usesord ") or rep == "usesord -":
            continue
        info = h["infos"][ui]
        have = set(info["Deps"] or []) | set(info["Names"] or []) | {first_name(e) for e in info["Emitted"] or []}
        for u in rep[8:].split(","):
            # (a name defined BELOW the definition is not a mention of the package's definition in Coq's reading order: the file is
            #  accepted by Coq, so the name is a library identifier there — unittest has its own `Skip` after loops that use the library's)
            if u in defined and u != n and u not in have and pos[u] < pos[n] and u not in lib:
                gaps.append((n, u))
    return gaps


def model_order(infos):
    """Model.Deps.emitOrder on the recorded names/deps (the Lean driver, protocol `deps`)"""
    def enc(xs):
        return ",".join(x.encode().hex() for x in (xs or [])) or "-"
    line = "order " + " ".join("%s|%s" % (enc(i["Names"]), enc(i["Deps"])) for i in infos)
    rep = C.driver("deps", [line])[0]
    if not rep.startswith("order"):
        raise C.Infra("deps driver: " + rep[:200])
    return [int(x) for x in rep.split()[1:]]


def analyse(files, decls, scratch, build):
    """one layout: returns (problems, info)"""
    root = os.path.join(scratch, "m")
    gomod.write_module(root, k4.split_files(files))
    rc, gerr, text = k4.translate(root, flags=())
    res = {"accepted": rc == 0 and text is not None, "problems": [], "canon": {}, "order": []}
    if not res["accepted"]:
        res["stderr"] = gerr[-1500:]
        return res
    expected = sorted(n for d in decls for n in d.coq_names)
    reps = k4.gl_session(text, ["names"])
    if reps[0].startswith("parse-error"):
        res["problems"].append(("unparsable", k4.unhex(reps[0])))
        return res
    order = reps[1][6:].split(",") if reps[1] != "names -" else []
    res["order"] = order
    if sorted(order) != expected:
        missing = sorted(set(expected) - set(order))
        extra = sorted(set(order) - set(expected))
        dup = sorted({n for n in order if order.count(n) > 1})
        res["problems"].append(("names", {"missing": missing, "unexpected": extra, "defined_twice": dup}))
    reps = k4.gl_session(text, ["usesord " + n for n in order] + ["canon " + n for n in order])[1:]
    pos = {}
    for i, n in enumerate(order):
        pos.setdefault(n, i)
    for i, n in enumerate(order):
        us = reps[i][8:].split(",") if reps[i].startswith("usesord ") and reps[i] != "usesord -" else []
        for u in us:
            if u in pos and pos[u] >= i:
                res["problems"].append(("use-before-definition", {"definition": n, "mentions": u, "position": i, "defined_at": pos[u]}))
        res["canon"][n] = reps[len(order) + i]
    # ---- the recorded data and the model
    if not build.hooks_ok:
        shutil.rmtree(root, ignore_errors=True)
        return res
    h = run_hdeps(root)
    if h.get("err"):
        raise C.Infra("hdeps: " + h["err"][:500])
    res["hook"] = h
    # ---- completeness of the recording, whatever the order: every same-package definition that the emitted text of a unit mentions is
    #      among the dependencies the translator recorded for that unit (or is defined by the unit itself).  A reference kind that forgets
    #      addDep shows here even when the declarations happen to be written in an order that hides it.
    unit_of = {}
    for ui, info in enumerate(h["infos"]):
        for nm in info["Names"] or []:
            unit_of[nm] = ui
    for ui, info in enumerate(h["infos"]):
        for e in info["Emitted"] or []:
            fn = first_name(e)
            if fn:
                unit_of.setdefault(fn, ui)
    for i, n in enumerate(order):
        ui = unit_of.get(n)
        if ui is None or not reps[i].startswith("usesord ") or reps[i] == "usesord -":
            continue
        info = h["infos"][ui]
        have = set(info["Deps"] or []) | set(info["Names"] or []) | {first_name(e) for e in info["Emitted"] or []}
        for u in reps[i][8:].split(","):
            if u in pos and u != n and u not in have and "__to__" not in u:         # (S__to__I: the listed finding interface-conversion-order)
                res["problems"].append(("dependency-not-recorded", {"definition": n, "mentions": u, "recorded_dependencies": sorted(set(info["Deps"] or []))[:20]}))
    if build.driver_ok and getattr(build, "deps_proto", True):
        # ---- the units of ordering: Model.Deps.declUnits on the top-level declarations of the SOURCE (single declarations, and const
        #      groups with their specs) gives the units the translator recorded, file by file (sorted), in order, with the same names
        def enc(xs):
            return ",".join(x.encode().hex() for x in (xs or [])) or "-"
        tops, want_names = [], []
        for fname in sorted(files):
            ftext = files[fname]
            here = sorted((ftext.index(d.text), d) for d in decls if d.text and d.text in ftext)
            for _, d in here:
                if d.kind == "constgroup":
                    tops.append("g:" + ";".join("%s|-" % enc([m]) for m in d.coq_names))
                else:
                    tops.append("s:%s|-" % enc(d.coq_names))
        rep = C.driver("deps", ["units " + " ".join(tops)])[0] if tops else "units  order "
        if not rep.startswith("units"):
            raise C.Infra("deps driver (units): " + rep[:200])
        model_units = [w.split("|")[0] for w in rep.split(" order ")[0].split()[1:]]
        real_units = [enc(sorted(i["Names"] or [])) for i in h["infos"]]
        if [enc(sorted(bytes.fromhex(x).decode() for x in u.split(",") if x != "-")) if u != "-" else "-" for u in model_units] != real_units:
            res["units_mismatch"] = {"model_units": model_units[:40], "recorded_units": real_units[:40]}
        mo = model_order(h["infos"])
        predicted = [e for i in mo for e in (h["infos"][i]["Emitted"] or [])]
        if predicted != h["emitted"]:
            res["model_mismatch"] = {"model_order": mo, "model_names": [first_name(e) for e in predicted], "real_names": [first_name(e) for e in h["emitted"]]}
    shutil.rmtree(root, ignore_errors=True)
    return res


def check(ctx, build=None):
    if build is None:
        build = C.ensure_built("C04", ["printer"], need_harness=False, extra_go=EXTRA_GO)
    scratch = C.scratch()
    found = False
    stats = collections.Counter()
    kinds = collections.Counter()
    samples = []

    def viol(what, inp, expected, observed):
        nonlocal found
        if os.environ.get("VERIF_DEBUG"):
            sys.stderr.write("debug: %s %s %s\n" % (what, inp.get("probe", ""), json.dumps(observed)[:300]))
        if not found:
            found = True
            ctx.violation("counterexample", what, inp, expected=expected, observed=observed)
    try:
        n = 10 if ctx.tier == "quick" else 200
        for seed in range(ctx.seed * 7000, ctx.seed * 7000 + n):
            files, decls = c04gen.package(seed, ndecls=8 + seed % 12)
            layouts = [files, c04gen.relayout(decls, seed * 3 + 1), c04gen.relayout(decls, seed * 3 + 2)]
            canon0 = None
            for li, fs in enumerate(layouts):
                res = analyse(fs, decls, scratch, build)
                stats["layouts"] += 1
                stats["files"] += len(fs)
                if not res["accepted"]:
                    stats["rejected_packages"] += 1
                    viol("C04 generator package rejected by goose (the packages are in the supported subset)",
                         {"proto": "c04", "seed": seed, "layout": li, "files": fs}, "accepted", res.get("stderr"))
                    continue
                stats["declarations"] += len(decls)
                for d in decls:
                    kinds[d.kind] += 1
                    stats["dependency_edges"] += len(d.deps)
                for kind, detail in res["problems"]:
                    stats["problem_" + kind] += 1
                    viol({"names": "C04: the emitted definitions are not exactly one per declaration under the documented names",
                          "use-before-definition": "C04: a definition mentions a same-package definition that is not above it",
                          "dependency-not-recorded": "C04: a definition mentions a same-package definition that the translator did not record as a dependency "
                                                     "(another declaration order emits it before that definition)",
                          "unparsable": "C04: the emitted file cannot be read back"}[kind],
                         {"proto": "c04", "seed": seed, "layout": li, "files": fs}, "one definition per declaration, each after everything it mentions",
                         {"problem": detail, "emitted_order": res["order"]})
                if "model_mismatch" in res:
                    stats["model_mismatches"] += 1
                    if not any(b["kind"] == "correspondence" for b in build.broken):
                        build.broken.append({"kind": "correspondence", "name": "deps: Model.Deps.emitOrder vs the order Decls emitted (hook VerifDecls)",
                                             "detail": json.dumps({"seed": seed, "layout": li, **res["model_mismatch"]})[:1500]})
                if "units_mismatch" in res:
                    stats["units_mismatches"] += 1
                    if not any(b["name"].startswith("deps: Model.Deps.declUnits") for b in build.broken):
                        build.broken.append({"kind": "correspondence", "name": "deps: Model.Deps.declUnits on the source vs the units Decls recorded (hook VerifDecls)",
                                             "detail": json.dumps({"seed": seed, "layout": li, **res["units_mismatch"]})[:1500]})
                else:
                    stats["units_compared"] += 1
                if canon0 is None:
                    canon0 = res["canon"]
                elif res["canon"] != canon0 and not res["problems"]:
                    diff = sorted(k for k in set(canon0) | set(res["canon"]) if canon0.get(k) != res["canon"].get(k))
                    stats["layout_dependent_definitions"] += 1
                    viol("C04: the set of definitions depends on the order of declarations / the split into files",
                         {"proto": "c04", "seed": seed, "layout": li, "files": fs, "reference_layout": layouts[0]},
                         "the same definitions for every layout", {"differing": diff[:5]})
                if len(samples) < 1 and li == 1:
                    samples.append({"seed": seed, "files": sorted(fs), "go_order": [d.name for d in decls][:12], "emitted_order": res["order"][:12]})
        # ---- known findings: committed witnesses
        known = {e["key"]: e for e in C.load_known("C04") if e.get("status") == "known"}
        for path in sorted(glob.glob(os.path.join(C.VERIF, "findings", "C04", "*.go"))):
            key = os.path.basename(path)[:-3]
            root = os.path.join(scratch, "w")
            gomod.write_module(root, {"p": {"p.go": open(path).read()}})
            rc, gerr, text = k4.translate(root, flags=())
            if rc != 0 or text is None:
                continue
            reps = k4.gl_session(text, ["names"])
            order = reps[1][6:].split(",") if not reps[0].startswith("parse-error") and reps[1] != "names -" else []
            dups = sorted({n for n in order if order.count(n) > 1})
            stats["witnesses"] += 1
            if dups:
                if key in known:
                    ctx.known("%s — %s (findings/C04/%s.go: defined twice: %s)" % (key, known[key]["what"], key, ",".join(dups)))
                else:
                    viol("C04: a witness program that is not a listed known finding defines a name twice", {"proto": "c04-witness", "file": path}, "distinct names", dups)
            # … or mentions a definition that is not above it
            wuses = k4.gl_session(text, ["usesord " + n for n in order])[1:] if order else []
            wpos = {}
            for i, n in enumerate(order):
                wpos.setdefault(n, i)
            late = [(n, u) for i, (n, rep) in enumerate(zip(order, wuses)) if rep.startswith("usesord ") and rep != "usesord -"
                    for u in rep[8:].split(",") if u in wpos and wpos[u] > i]
            if late:
                want = known.get(key, {}).get("match", {}).get("mention_contains")
                if key in known and want and all(want in u for _, u in late):
                    ctx.known("%s — %s (findings/C04/%s.go: %s mentions %s, which is defined below it)" % (key, known[key]["what"], key, late[0][0], late[0][1]))
                else:
                    viol("C04: a witness program that is not a listed known finding mentions a definition that is not above it",
                         {"proto": "c04-witness", "file": path}, "only definitions above", late[:4])
        # ---- an obligation or the correspondence broke and nothing concrete was found yet: search further
        if build.broken and not found:
            for seed in range(ctx.seed * 7000 + 1000, ctx.seed * 7000 + 1000 + 120):
                files, decls = c04gen.package(seed, ndecls=10 + seed % 10)
                for li, fs in enumerate([files, c04gen.relayout(decls, seed * 3 + 1), c04gen.relayout(decls, seed * 3 + 2), c04gen.relayout(decls, seed * 3 + 3)]):
                    res = analyse(fs, decls, scratch, build)
                    stats["search_layouts"] += 1
                    for kind, detail in (res["problems"] if res["accepted"] else []):
                        viol("C04 (search after a broken obligation): " + kind, {"proto": "c04", "seed": seed, "layout": li, "files": fs},
                             "one definition per declaration, each after everything it mentions", {"problem": detail, "emitted_order": res["order"]})
                    if found:
                        break
                if found:
                    break
        # ---- fixed probe packages: shapes that reach the translator's internal failure paths, method values, conversions to interfaces
        #      in recursive functions. If goose accepts the package, every top-level function is defined exactly once and every
        #      definition mentions only definitions above it (never itself as a global).
        import c07
        probes = dict(("panic-site:" + k, v) for k, v in c07.PROBES.items())
        probes["blank-and-init-declarations"] = ("func init() {\n}\n\nfunc init() {\n\tKeep()\n}\n\nfunc _() {\n}\n\nfunc _() uint64 {\n\treturn 1\n}\n\nvar _ uint64 = 3\n\nvar _ = uint64(4)\n\n"
                                                 "func Keep() uint64 {\n\treturn 2\n}\n")
        probes["call-through-anonymous-struct-field"] = ("func one() uint64 {\n\treturn 1\n}\n\nfunc viaAnonymousStruct() uint64 {\n\treturn struct{ g func() uint64 }{g: one}.g()\n}\n\nfunc two() uint64 {\n\treturn 2\n}\n")
        probes["method-value-before-method"] = ("type MV struct {\n\tv uint64\n}\n\nfunc UseMV(s MV) uint64 {\n\tg := s.Late\n\treturn g()\n}\n\n"
                                                "func CallsDirect(s MV) uint64 {\n\treturn s.Late() + 1\n}\n\nfunc (s MV) Late() uint64 {\n\treturn s.v\n}\n")
        probes["interface-argument-in-recursion"] = ("type Shape interface {\n\tArea() uint64\n}\n\ntype Sq struct {\n\tside uint64\n}\n\nfunc (s Sq) Area() uint64 {\n\treturn s.side\n}\n\n"
                                                     "func Caller() uint64 {\n\treturn Measure(Sq{side: 2})\n}\n\nfunc Measure(s Shape) uint64 {\n\treturn s.Area()\n}\n\n"
                                                     "func Steps(s Shape, n uint64) uint64 {\n\tif n == 0 {\n\t\treturn 0\n\t}\n\treturn Steps(Sq{side: n}, n-1) + 1\n}\n")
        probes["struct-store-and-load-before-struct"] = ("func copyS(p, q *LateS) {\n\t*q = *p\n}\n\ntype LateS struct {\n\ta uint64\n}\n")
        probes["field-store-before-struct"] = ("func setA(p *LateS) {\n\tp.a = 3\n}\n\ntype LateS struct {\n\ta uint64\n}\n")
        probes["field-address-before-struct"] = ("func refA(p *LateS) *uint64 {\n\treturn &p.a\n}\n\ntype LateS struct {\n\ta uint64\n}\n")
        probes["method-value-of-own-method"] = ("type SV struct {\n\tv uint64\n}\n\nfunc applyF(f func() uint64) uint64 {\n\treturn f()\n}\n\n"
                                                "func (s *SV) m() uint64 {\n\tif s.v == 0 {\n\t\treturn 0\n\t}\n\treturn applyF(s.m)\n}\n")
        probes["constant-group-forward-reference"] = ("const (\n\tFirstC uint64 = SecondC + 1\n\tSecondC uint64 = 1\n)\n\nfunc useC() uint64 {\n\treturn FirstC\n}\n")
        probes["blank-methods"] = ("type BM struct {\n\tv uint64\n}\n\nfunc (s BM) _() {\n}\n\nfunc (s BM) _() uint64 {\n\treturn s.v\n}\n")
        probes["blank-types"] = ("type _ struct {\n\ta uint64\n}\n\ntype _ struct {\n\tb uint64\n}\n\nfunc keepT() uint64 {\n\treturn 1\n}\n")
        probes["method-value-on-named-integer"] = ("type NI uint64\n\nfunc (n NI) get() uint64 {\n\treturn uint64(n)\n}\n\nfunc useNI(n NI) uint64 {\n\tg := n.get\n\treturn g()\n}\n")
        probes["interface-conversion-before-method"] = ("type Sh interface {\n\tarea() uint64\n}\n\nfunc measure(s Sh) uint64 {\n\treturn s.area()\n}\n\nfunc useSq(s SqL) uint64 {\n\treturn measure(s)\n}\n\n"
                                                      "type SqL struct {\n\tside uint64\n}\n\nfunc (s SqL) area() uint64 {\n\treturn s.side\n}\n")
        probes["method-on-alias-receiver"] = ("type SA struct {\n\tv uint64\n}\n\ntype AA = SA\n\nfunc (x AA) m() uint64 {\n\treturn x.v\n}\n\nfunc callM(s SA) uint64 {\n\treturn s.m()\n}\n")
        probes["type-parameter-named-like-a-function"] = ("func id[T any](x T) T {\n\treturn x\n}\n\nfunc T() uint64 {\n\treturn id[uint64](1)\n}\n")
        probes["self-call-inside-function-literal"] = ("func applyG(f func() uint64) uint64 {\n\treturn f()\n}\n\nfunc countdown(n uint64) uint64 {\n\tif n == 0 {\n\t\treturn 0\n\t}\n"
                                                       "\treturn applyG(func() uint64 {\n\t\treturn countdown(n - 1)\n\t})\n}\n\ntype TreeL struct {\n\tnext *TreeL\n\tv    uint64\n}\n\n"
                                                       "func (t *TreeL) Walk() uint64 {\n\tif t.next == nil {\n\t\treturn t.v\n\t}\n\tg := func() uint64 {\n\t\treturn t.next.Walk()\n\t}\n\treturn g() + t.v\n}\n")
        probes["variable-spec-with-two-names"] = ("var firstV, secondV uint64 = 1, 2\n\nfunc sumV() uint64 {\n\treturn firstV + secondV\n}\n")
        probes["variable-group-spec-with-two-names"] = ("var (\n\tloneV         uint64 = 5\n\tthirdV, fourthV uint64 = 3, 4\n)\n\nfunc sumG() uint64 {\n\treturn thirdV + fourthV + loneV\n}\n")
        probes["constant-spec-with-two-names"] = ("const firstK, secondK uint64 = 1, 2\n\nfunc sumK() uint64 {\n\treturn firstK + secondK\n}\n")
        factsrc = "func fact(n uint64) uint64 {\n\tif n == 0 {\n\t\treturn 1\n\t}\n\treturn n * fact(n-1)\n}\n"
        usesrc = "func useFact() uint64 {\n\treturn fact(3)\n}\n"
        msrc = ("type RL struct {\n\tnext *RL\n\tv    uint64\n}\n\nfunc (l *RL) sum() uint64 {\n\tif l.next == nil {\n\t\treturn l.v\n\t}\n\treturn l.v + l.next.sum()\n}\n")
        musesrc = "func useSum(l *RL) uint64 {\n\treturn l.sum() + 1\n}\n"
        # a recursive function or method that another declaration calls too, declared before and after that caller: the self-call goes
        # through the binder, the other call through the global — whichever is translated first
        probes["recursive-and-called-elsewhere:caller-first"] = usesrc + "\n" + factsrc
        probes["recursive-and-called-elsewhere:caller-last"] = factsrc + "\n" + usesrc
        probes["recursive-method-and-called-elsewhere:caller-first"] = musesrc + "\n" + msrc
        probes["recursive-method-and-called-elsewhere:caller-last"] = msrc + "\n" + musesrc
        must_mention = {"recursive-and-called-elsewhere:caller-first": [("useFact", "fact")], "recursive-and-called-elsewhere:caller-last": [("useFact", "fact")],
                        "recursive-method-and-called-elsewhere:caller-first": [("useSum", "RL__sum")], "recursive-method-and-called-elsewhere:caller-last": [("useSum", "RL__sum")]}
        probes["interface-parameter-followed-by-another"] = ("type Sh2 interface {\n\tarea() uint64\n}\n\ntype Sq2 struct {\n\tside uint64\n}\n\nfunc (s Sq2) area() uint64 {\n\treturn s.side\n}\n\n"
                                                             "func takes2(i Sh2, k uint64) uint64 {\n\treturn i.area() + k\n}\n\nfunc use2(s Sq2) uint64 {\n\tx := takes2(s, 3)\n\treturn x\n}\n")
        probes["variable-group-forward-reference"] = ("var (\n\tLimitV uint64 = BaseV + 1\n\tBaseV  uint64 = 1\n)\n\nfunc useV() uint64 {\n\treturn LimitV\n}\n")
        probes["variable-groups-crosswise"] = ("var (\n\tAv uint64 = Xv + 1\n\tBv uint64 = 1\n)\n\nvar (\n\tXv uint64 = 3\n\tYv uint64 = Bv\n)\n\nfunc useXY() uint64 {\n\treturn Av + Yv\n}\n")
        probes["constant-groups-crosswise"] = ("const (\n\tAc uint64 = Xc + 1\n\tBc uint64 = 1\n)\n\nconst (\n\tXc uint64 = 3\n\tYc uint64 = Bc\n)\n\nfunc useXYc() uint64 {\n\treturn Ac + Yc\n}\n")
        probes["pointer-method-on-alias-receiver"] = ("type SB struct {\n\tv uint64\n}\n\ntype AB = SB\n\nfunc (x *AB) bump() {\n\tx.v = x.v + 1\n}\n\nfunc (x AB) get() uint64 {\n\treturn x.v\n}\n\n"
                                                      "func callB() uint64 {\n\tp := &SB{v: 1}\n\tp.bump()\n\treturn p.get()\n}\n")
        probes["interface-conversion-for-method-call"] = ("type Sh3 interface {\n\tarea() uint64\n}\n\ntype HH struct {\n\tk uint64\n}\n\nfunc (h HH) takes(i Sh3) uint64 {\n\treturn i.area() + h.k\n}\n\n"
                                                          "func useHH(h HH, s Sq3) uint64 {\n\tx := h.takes(s)\n\treturn x\n}\n\ntype Sq3 struct {\n\tside uint64\n}\n\nfunc (s Sq3) area() uint64 {\n\treturn s.side\n}\n")
        for pid, psrc in sorted(probes.items()):
            root = os.path.join(scratch, "probe")
            gomod.write_module(root, {"p": {"p.go": "package p\n\n" + psrc}})
            rc, gerr, text = k4.translate(root, flags=())
            stats["probe_packages"] += 1
            shutil.rmtree(root, ignore_errors=True)
            if rc != 0 or text is None:
                stats["probe_packages_rejected"] += 1
                continue
            reps = k4.gl_session(text, ["names"])
            if reps[0].startswith("parse-error"):
                continue          # (well-formedness is C05's subject)
            order = reps[1][6:].split(",") if reps[1] != "names -" else []
            funcs = re.findall(r"^func (\w+)\(", psrc, re.M)
            funcs = [f for f in funcs if f not in ("_", "init")]
            # … and every name of a package-level const or var spec (alone or in a group)
            for mv in re.finditer(r"^(?:var|const) ([A-Za-z_]\w*(?:, [A-Za-z_]\w*)*) ", psrc, re.M):
                funcs += [x for x in mv.group(1).split(", ") if x != "_"]
            for grp in re.finditer(r"^(?:var|const) \(\n(.*?)^\)", psrc, re.M | re.S):
                for mv in re.finditer(r"^\t([A-Za-z_]\w*(?:, [A-Za-z_]\w*)*)\s", grp.group(1), re.M):
                    funcs += [x for x in mv.group(1).split(", ") if x != "_"]
            twice = sorted({n for n in order if order.count(n) > 1})
            if twice or "_" in order:
                viol("C04: goose accepts the package, but several definitions share one name (or are named `_`)",
                     {"proto": "c04-probe", "probe": pid, "source": "package p\n\n" + psrc}, "distinct declarations yield distinct definitions", {"defined_more_than_once": twice, "definitions": order})
            # a conversion X__to__Y packs the methods of X into the interface Y: both are definitions of the file, and every use of a
            # conversion of that shape in the file has a definition (checked only when the file defines some conversion)
            convs = [n for n in order if "__to__" in n]
            odd = [n for n in convs if n.split("__to__")[0] not in order or n.split("__to__")[1] not in order]
            if odd:
                viol("C04: a struct-to-interface conversion is defined under a name that does not consist of a struct and an interface of the package",
                     {"proto": "c04-probe", "probe": pid, "source": "package p\n\n" + psrc}, "Struct__to__Interface", {"defined": odd, "definitions": order})
            missing = [f for f in funcs if order.count(f) != 1]
            if missing:
                viol("C04: goose accepts the package, but a top-level function, constant or variable has no definition (or more than one)",
                     {"proto": "c04-probe", "probe": pid, "source": "package p\n\n" + psrc}, {"each_defined_once": funcs}, {"missing_or_repeated": missing, "definitions": order})
            if pid.endswith(":mutual_recursion"):
                continue          # a cyclic dependency graph: the order clause speaks about acyclic ones only
            us = k4.gl_session(text, ["usesord " + n for n in order])[1:]
            pos = {}
            for i, n in enumerate(order):
                pos.setdefault(n, i)
            for i, n in enumerate(order):
                ms = us[i][8:].split(",") if us[i].startswith("usesord ") and us[i] != "usesord -" else []
                late = [u for u in ms if u in pos and pos[u] >= i]
                if late:
                    viol("C04: a definition mentions a definition that is not above it (or itself as a global)",
                         {"proto": "c04-probe", "probe": pid, "source": "package p\n\n" + psrc, "emitted": k4.emitted_def(text, n)}, "only definitions above", {"definition": n, "mentions": late, "order": order})
                # a method is emitted under the name Type__method: a name of that shape which no definition of the file carries
                # is a method that was declared in Go and is not there under the name its uses expect
                for dn, gn in must_mention.get(pid, []):
                    if n == dn and gn not in ms:
                        viol("C04: a call of a package-level function from another declaration is not printed as a mention of that function's definition",
                             {"proto": "c04-probe", "probe": pid, "source": "package p\n\n" + psrc, "emitted": k4.emitted_def(text, n)}, "%s mentions the global %s" % (dn, gn), {"mentions": ms})
                ghost = [u for u in ms if re.fullmatch(r"\w*__\w+", u) and u not in pos and "__to__" not in u]
                if ghost:
                    viol("C04: a definition mentions a method name that no definition of the file has",
                         {"proto": "c04-probe", "probe": pid, "source": "package p\n\n" + psrc, "emitted": k4.emitted_def(text, n)}, "every Type__method name mentioned is defined in the file", {"definition": n, "mentions": ghost, "order": order})
        # ---- completeness of the dependency recording on the repository's own example packages (every construct the examples use):
        #      each definition's same-package mentions are among the dependencies recorded for the unit that emitted it
        if build.hooks_ok:
            for ex in sorted(os.listdir(os.path.join(C.REPO, "internal", "examples"))):
                exdir = os.path.join(C.REPO, "internal", "examples", ex)
                if not glob.glob(os.path.join(exdir, "*.go")):
                    continue
                pr = subprocess.run([HDEPS, C.REPO, "./internal/examples/" + ex], env=C.GOENV, stdout=subprocess.PIPE, stderr=subprocess.PIPE, text=True, timeout=300)
                if pr.returncode != 0 or not pr.stdout.strip():
                    continue
                hh = json.loads(pr.stdout.splitlines()[0])
                if hh.get("err") or not hh.get("infos"):
                    continue
                gold = glob.glob(os.path.join(exdir, "*.gold.v"))
                gaps = recording_gaps(hh, open(gold[0]).read() if gold else None)
                stats["example_packages_checked"] += 1
                if gold:
                    cap = captured_library_names(open(gold[0]).read())
                    kcap = next((e for e in C.load_known("C04") if e.get("status") == "known" and e.get("key") == "library-identifier-captured"), None)
                    listed = set((kcap or {}).get("match", {}).get("names", []))
                    if cap and {u for _, u in cap} <= listed:
                        ctx.known("%s — %s (this run: internal/examples/%s: %s mentions %s)" % (kcap["key"], kcap["what"], ex, cap[0][0], cap[0][1]))
                    elif cap:
                        viol("C04: a function of the package is named like a Gallina identifier the translator emits, and a definition below it uses that identifier",
                             {"proto": "c04-examples", "package": "internal/examples/" + ex}, "no definition captures an identifier of GooseLang's library", {"definition_uses": cap[:6]})
                if gaps is None:
                    continue
                stats["example_definitions_checked"] += len(hh.get("emitted") or [])
                # (the listed finding interface-conversion-order: conversions S__to__I are not recorded; its witness is replayed below)
                if "interface-conversion-order" in {e["key"] for e in C.load_known("C04") if e.get("status") == "known"}:
                    stats["example_conversion_mentions_not_recorded"] += sum(1 for _, u in gaps if "__to__" in u)
                    gaps = [g for g in gaps if "__to__" not in g[1]]
                if gaps:
                    viol("C04: a definition of one of the repository's example packages mentions a same-package definition that the translator did not "
                         "record as a dependency (another declaration order emits it before that definition)",
                         {"proto": "c04-examples", "package": "internal/examples/" + ex}, "every mention recorded", {"definition_mentions": gaps[:6]})
        # ---- re-translating over an older output file: still exactly one definition per declaration
        found = gomod.retranslate_stream(ctx, scratch, "C04: the output file holds more or other definitions than the package", found)
    finally:
        shutil.rmtree(scratch, ignore_errors=True)
    C.report_broken_obligations(ctx, build, found)
    ctx.coverage.update({
        "evaluations": stats["layouts"],
        "distinct_nontrivial": stats["layouts"],
        "rule": "packages of 8-19 declarations drawn by pylib/c04gen.py (functions, pointer/value methods incl. names shared with functions, "
                "structs with pointer/value/slice/map fields, named types, constants and globals with constant initialisers) over a random acyclic "
                "dependency graph using every reference form (call, method call, struct literal, new, var annotation, make of slice/map, "
                "conversion, field type) plus self-recursion (also through t.next.m()); each package in 3 layouts: random order over 1-4 files "
                "with names in any lexical order",
        "samples": samples,
        "stats": dict(stats),
        "declaration_kinds": dict(kinds),
    })
    ctx.assumptions += [
        "the hook VerifDecls repeats the first loop of Decls (same package, same unexported functions); it is compiled only with the build tag verif",
        "the parser GL/Parse.lean reads the definitions Coq would read (calibrated on every gold file of the repository)",
    ]
    return ctx.finish(build)


def replay(ctx, path):
    """re-run the layout stored in the replay file (the files themselves are in it)"""
    _inp = json.load(open(path)).get("input", {})
    if isinstance(_inp, dict) and _inp.get("proto") == "retranslate":
        C.ensure_built("C04", ["printer"], need_harness=False, extra_go=EXTRA_GO)
        return gomod.replay_retranslate(_inp)
    obj = json.load(open(path))
    inp = obj.get("input", {})
    if inp.get("proto") != "c04" or "files" not in inp:
        return check(ctx)
    build = C.ensure_built("C04", ["printer"], need_harness=False, extra_go=EXTRA_GO)
    _, decls = c04gen.package(inp["seed"], ndecls=8 + inp["seed"] % 12)
    scratch = C.scratch()
    try:
        res = analyse(inp["files"], decls, scratch, build)
    finally:
        shutil.rmtree(scratch, ignore_errors=True)
    print(json.dumps({"accepted": res["accepted"], "problems": res["problems"][:5], "emitted_order": res["order"]}, indent=1))
    bad = (not res["accepted"]) or bool(res["problems"])
    print("verdict:", "violates the property" if bad else "meets the property")
    return 1 if bad else 0
