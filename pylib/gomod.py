"""Scratch Go modules for the CLI-level checks (C06, C08, C17): a root module `example.com/m`
with `replace` directives to /repo and to local stand-ins for modules that are not in the module
cache (github.com/mit-pdos/gokv, and modules with '.'/'-' in their paths), plus a runner for the
REAL goose binary built from /repo/cmd/goose."""
import json
import os
import re
import shutil
import subprocess
import time

import common as C

GOOSE = os.path.join(C.BIN, "goose")
# the real binaries are built WITHOUT the hook tag: a change that compiles without the hooks must stay checkable
EXTRA_GO = (("github.com/goose-lang/goose/cmd/goose", "goose", {"tags": "nohooks"}),)
EXTRA_GO_RACE = EXTRA_GO + (("github.com/goose-lang/goose/cmd/goose", "goose-race", {"tags": "nohooks", "race": True}),)
ANSI = re.compile(r"\x1b\[[0-9;]*m")

# local stand-in modules: module path -> {relative package dir: {file: content}}
FAKE_MODULES = {
    "github.com/mit-pdos/gokv": {
        "grove_ffi": {"ffi.go": "package grove_ffi\n\nfunc GetTimeRange() (uint64, uint64) {\n\treturn 0, 1\n}\n\nfunc Token() uint64 {\n\treturn 7\n}\n"},
        # an FFI package built on top of another FFI: its dependencies must not count
        "grove_on_disk": {"g.go": "package grove_on_disk\n\nfunc Token() uint64 {\n\treturn 8\n}\n"},
        # a builtin (no Require is printed for it) that is NOT an FFI package: the FFI behind it counts
        "time": {"t.go": "package time\n\nimport \"github.com/mit-pdos/gokv/grove_ffi\"\n\nfunc Stamp() uint64 {\n\treturn grove_ffi.Token()\n}\n"},
    },
    # a second package NAMED util (different import path): two files of one package may import one each
    "example.org/other": {
        "util": {"u.go": "package util\n\nfunc F() uint64 {\n\treturn 11\n}\n"},
    },
    "example.org/go-journal.v2": {
        "util": {"u.go": "package util\n\nfunc F() uint64 {\n\treturn 1\n}\n"},
        "trusted_lib": {"t.go": "package trusted_lib\n\nfunc F() uint64 {\n\treturn 2\n}\n"},
        "wal-2.x": {"w.go": "package wal\n\nfunc F() uint64 {\n\treturn 3\n}\n"},
        "dot.ted": {"d.go": "package ted\n\nfunc F() uint64 {\n\treturn 4\n}\n"},
    },
}


def write_module(root, pkgs, grove_uses_disk=False, go_version="1.22", module="example.com/m"):
    """pkgs: {relative dir ('' = module root): {filename: content}}"""
    shutil.rmtree(root, ignore_errors=True)
    os.makedirs(root)
    lines = ["module " + module, "", "go " + go_version, "", "require (", "\tgithub.com/goose-lang/goose v0.0.0",
             "\tgithub.com/goose-lang/primitive v0.1.0", "\tgithub.com/tchajed/marshal v0.6.1"]
    for m in FAKE_MODULES:
        lines.append("\t%s v0.0.0" % m)
    lines += [")", "", "replace github.com/goose-lang/goose => " + C.REPO]
    for m in FAKE_MODULES:
        lines.append("replace %s => ./_deps/%s" % (m, m.replace("/", "_")))
    open(os.path.join(root, "go.mod"), "w").write("\n".join(lines) + "\n")
    shutil.copy(os.path.join(C.REPO, "go.sum"), os.path.join(root, "go.sum"))
    for m, mpk in FAKE_MODULES.items():
        mroot = os.path.join(root, "_deps", m.replace("/", "_"))
        os.makedirs(mroot)
        gm = "module %s\n\ngo %s\n" % (m, go_version)
        if m == "github.com/mit-pdos/gokv" and grove_uses_disk:
            gm += "\nrequire github.com/goose-lang/goose v0.0.0\n\nreplace github.com/goose-lang/goose => %s\n" % C.REPO
        open(os.path.join(mroot, "go.mod"), "w").write(gm)
        if "goose-lang/goose" in gm:
            shutil.copy(os.path.join(C.REPO, "go.sum"), os.path.join(mroot, "go.sum"))
        for d, files in mpk.items():
            os.makedirs(os.path.join(mroot, d), exist_ok=True)
            for fn, content in files.items():
                if grove_uses_disk and d == "grove_ffi" and fn == "ffi.go":
                    content = content.replace("package grove_ffi\n", "package grove_ffi\n\nimport \"github.com/goose-lang/goose/machine/disk\"\n") + \
                        "\nfunc OnDisk() uint64 {\n\treturn disk.Size()\n}\n"
                open(os.path.join(mroot, d, fn), "w").write(content)
    for d, files in pkgs.items():
        os.makedirs(os.path.join(root, d), exist_ok=True)
        for fn, content in files.items():
            open(os.path.join(root, d, fn), "w").write(content)


def run_goose(root, args, patterns, out="Goose", cwd=None, binary=None, env_extra=None, timeout=300):
    env = dict(C.GOENV)
    env["NO_COLOR"] = "1"
    if env_extra:
        env.update(env_extra)
    cmd = [binary or GOOSE, "-out", out] + list(args) + list(patterns)
    p = subprocess.run(cmd, cwd=cwd or root, env=env, stdout=subprocess.PIPE, stderr=subprocess.PIPE, text=True, timeout=timeout)
    return p.returncode, ANSI.sub("", p.stdout), ANSI.sub("", p.stderr)


def tree(outdir):
    """{relative path: (bytes, mtime_ns, inode)}"""
    res = {}
    for d, _, fs in os.walk(outdir):
        for f in fs:
            p = os.path.join(d, f)
            st = os.stat(p)
            res[os.path.relpath(p, outdir)] = (open(p, "rb").read(), st.st_mtime_ns, st.st_ino)
    return res


def split_output(text):
    """Parse an emitted .v file into (notice, prelude, requires, header, body, footer)."""
    lines = text.split("\n")
    notice, prelude = lines[0], lines[1]
    i = 2
    reqs = []
    while i < len(lines) and lines[i].startswith("From ") and "Require" in lines[i] and "ffi." not in lines[i]:
        reqs.append(lines[i])
        i += 1
    while i < len(lines) and lines[i] == "":
        i += 1
    if lines[i].startswith("Section code."):
        header = "\n".join(lines[i:i + 3])
        i += 3
    else:
        header = lines[i]
        i += 1
    rest = "\n".join(lines[i:])
    footer = ""
    if rest.endswith("\nEnd code.\n"):
        footer = "\nEnd code.\n"
        rest = rest[: -len("\nEnd code.\n")] + "\n"
    return notice, prelude, reqs, header, rest, footer


# ---------------------------------------------------------------------------------------
# re-translation over an existing output tree (the command's "write only if changed" path)

STALE_WAYS = ("prefix", "longer", "truncated", "case", "same-length", "empty")


def make_stale(content, way):
    """An older version of an output file, differing from `content` in one particular way."""
    if way == "prefix":
        return b"(* stale *)\n" + content
    if way == "longer":
        return content + b"\n(* left over from an older version *)\nDefinition old: val := #0.\nEnd code.\n"
    if way == "truncated":
        return content[: max(1, len(content) // 2)]
    if way == "case":          # differs only in the case of letters inside one definition body
        i = content.rfind(b"Definition ")
        return content[:i] + content[i:].swapcase() if i >= 0 else content.swapcase()
    if way == "same-length":   # same size, one digit or letter changed near the end
        b = bytearray(content)
        for i in range(len(b) - 1, -1, -1):
            if chr(b[i]).isalnum():
                b[i] = ord("7") if chr(b[i]) != "7" else ord("8")
                break
        return bytes(b)
    return b""


def retranslation_disagreement(pkgs, scratch, ways=STALE_WAYS, flags=()):
    """Translate `pkgs` into a fresh directory; then, for every way of being stale, plant an older version of
    every output file and translate again into that directory: each file must end up byte-identical to the
    fresh translation.  Returns None or a description of the first difference (its `input` replays it)."""
    ref_root = os.path.join(scratch, "rt_ref")
    shutil.rmtree(ref_root, ignore_errors=True)
    write_module(ref_root, pkgs)
    rc0, _, err0 = run_goose(ref_root, list(flags), ["./..."])
    ref = tree(os.path.join(ref_root, "Goose"))
    bad = None
    if not ref:
        shutil.rmtree(ref_root, ignore_errors=True)
        return None
    for way in ways:
        root = os.path.join(scratch, "rt_" + way)
        shutil.rmtree(root, ignore_errors=True)
        write_module(root, pkgs)
        old = time.time() - 100000
        for rel, (content, _, _) in ref.items():
            p = os.path.join(root, "Goose", rel)
            os.makedirs(os.path.dirname(p), exist_ok=True)
            open(p, "wb").write(make_stale(content.replace(ref_root.encode(), root.encode()), way))
            os.utime(p, (old, old))
        rc, _, err = run_goose(root, list(flags), ["./..."])
        got = tree(os.path.join(root, "Goose"))
        for rel, (content, _, _) in ref.items():
            want = content.replace(ref_root.encode(), b"<ROOT>")
            have = got.get(rel, (b"<missing>",))[0].replace(root.encode(), b"<ROOT>")
            if have != want and bad is None:
                k = next((i for i in range(min(len(have), len(want))) if have[i] != want[i]), min(len(have), len(want)))
                bad = {"input": {"proto": "retranslate", "packages": pkgs, "stale": way, "flags": list(flags)},
                       "file": rel, "exit": rc,
                       "expected": "the file equals the translation into an empty directory (%d bytes)" % len(want),
                       "observed": "%d bytes; first difference at byte %d: have %r, want %r" % (len(have), k, have[k:k + 80], want[k:k + 80])}
        shutil.rmtree(root, ignore_errors=True)
        if bad:
            break
    shutil.rmtree(ref_root, ignore_errors=True)
    return bad


RT_PACKAGE = {"rt": {"a.go": "package rt\n\n// Greeting is looked at by callers.\nfunc Greeting() string {\n\treturn \"ok, Fine\"\n}\n\ntype Pair struct {\n\ta uint64\n\tb uint64\n}\n\nfunc Sum(p Pair, n uint64) uint64 {\n\tvar acc uint64 = p.a\n\tfor i := uint64(0); i < n; i++ {\n\t\tacc = acc + p.b\n\t}\n\treturn acc\n}\n",
                     "b.go": "package rt\n\nconst Limit uint64 = 12\n\nfunc Twice(x uint64) uint64 {\n\treturn Sum(Pair{a: x, b: x}, 1) + Limit\n}\n"}}


def retranslate_stream(ctx, scratch, what, found, pkgs=None):
    """Run the re-translation stream; report the first difference as a violation of ctx.prop. Returns found."""
    bad = retranslation_disagreement(pkgs or RT_PACKAGE, scratch)
    ctx.coverage.setdefault("retranslations", 0)
    ctx.coverage["retranslations"] += len(STALE_WAYS)
    if bad and not found:
        ctx.violation("counterexample", what + " (translating again over an older output file: %s)" % bad["input"]["stale"], bad["input"],
                      expected=bad["expected"], observed={"file": bad["file"], "exit": bad["exit"], "difference": bad["observed"]})
        return True
    return found


def replay_retranslate(inp):
    scratch = C.scratch()
    try:
        bad = retranslation_disagreement(inp["packages"], scratch, ways=[inp["stale"]], flags=inp.get("flags", []))
    finally:
        shutil.rmtree(scratch, ignore_errors=True)
    print(json.dumps(bad, indent=1, default=str))
    print("verdict:", "violates the property" if bad else "meets the property")
    return 1 if bad else 0
