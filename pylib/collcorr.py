"""Correspondence for Model/Coll.lean (maps, append/copy, range loops): random CollGo functions are written
as Go, built and run natively, and translated by the REAL goose.  Per function

 (a) the parse tree of what goose emits must be exactly what `driver coll` (Model.Coll.tr) prints —
     rejections included, with the same message kind;
 (b) the value native Go computes must be the value of the model's Go semantics (`driver collgo`), of the
     model's target semantics run on the model's translation (`driver collt`), and of the Lean interpreter
     run on the emitted text (`gl eval`);
 (c) functions built to panic: native Go panics, the model's Go semantics says `panicked`, the model's
     target semantics and the interpreter are stuck.

The generator keeps a concrete Go state (scopes, objects) and a small interpreter of the generated syntax:
each statement is chosen by looking at the state (indexes in range, slice bounds below the capacity, …),
then executed; loop bodies are generated against the state of the first iteration and the whole loop is then
executed by the interpreter.  Names come from a six-name pool for all types (shadowing also with a change of
type, aliasing of maps and backing arrays); map keys from a five-key pool (overwrites, deletes of absent
keys, re-inserts).

Go's growth policy for `append` is not `growCap`: the observable results are made independent of the NEW
capacity.  A slice made by an `append` that had to reallocate has an UNKNOWN capacity here: it is never
folded with cap(), never re-sliced beyond its length, and only appended to in the form `x = append(x, …)`
when no other variable refers to its array (then in-place and reallocation cannot be told apart).  With a
known capacity both policies agree on which case applies (len + n ≤ cap, or not).

Loop bodies of `range` over a map only accumulate commutatively into `var` variables, so that the iteration
order cannot be observed.

Kept out of the stream, because the Lean interpreter of the emitted text (GL/Sem.lean) — not goose — differs there:
 * a `range` over a slice whose body writes to the array being ranged over: GL/Sem.lean's ForSlice reads all the
   elements when the loop starts; Go, the model and Perennial's ForSlice read element i when iteration i starts
   (`for _, x := range s { acc = acc*10 + x; s[2] = 7 }` over three zeros: Go 7, interpreter 0);
 * `append(s, t...)` with cap(s) == 0 and len(t) == 0: GL/Sem.lean is stuck ("SliceAppendSlice: bad slice");
 * numbers from 2^62 on (the model's numbers are unbounded; wrap-around is the subject of Lemmas/Arith);
 * `make([]uint64, m[k], 3)`: go1.23.5 stops with an internal compiler error (unhandled expr INDEXMAP).

Standalone:  python3 pylib/collcorr.py <seed> <nfuncs>  [<more seeds>…]   (seed a..b for a range)
"""
import copy
import os
import random
import re
import shutil
import sys

sys.path.insert(0, os.path.dirname(os.path.abspath(__file__)))
import common as C  # noqa: E402
import gomod  # noqa: E402
import gogen  # noqa: E402
import k4  # noqa: E402
import c07  # noqa: E402

NAMES = ["x", "y", "m", "n", "s", "t", "u"]
KEYS = [0, 1, 2, 3, 5]
TYPES = ["u64", "bool", "map", "mapD", "sl"]
GOTY = {"u64": "uint64", "bool": "bool", "map": "map[uint64]uint64", "mapD": "M", "sl": "[]uint64", "mapK": "map[uint32]uint64"}
CMPS = {"==": lambda a, b: a == b, "!=": lambda a, b: a != b, "<": lambda a, b: a < b,
        "<=": lambda a, b: a <= b, ">": lambda a, b: a > b, ">=": lambda a, b: a >= b}
INT_NAMES = ("i", "j")       # range indexes: Go's int, written uint64(i) where used


class Dead(Exception):
    """the generator cannot go on this way"""


class GoPanic(Exception):
    pass


class Unknown(Exception):
    """the result would depend on the capacity chosen by append"""


# values: ("num", n) ("bool", b) ("map", oid) ("sl", oid|None, off, len, cap|None)
# objects: ["cell", value] ["arr", [..]] ["map", {k: v}]

class State:
    def __init__(self):
        self.scopes = [{}]      # name -> [kind, ty, value]   (innermost last)
        self.heap = []

    def lookup(self, x):
        for sc in reversed(self.scopes):
            if x in sc:
                return sc[x]
        return None

    def visible(self):
        vis = {}
        for sc in self.scopes:
            for x, ent in sc.items():
                vis[x] = ent
        return vis

    def alloc(self, obj):
        self.heap.append(obj)
        return len(self.heap) - 1

    def refs_to(self, oid, but=None):
        """number of bindings (in any scope) whose slice value uses array `oid`, not counting entry `but`"""
        n = 0
        for sc in self.scopes:
            for ent in sc.values():
                if ent is not but and ent[2][0] == "sl" and ent[2][1] == oid:
                    n += 1
        return n


class Interp:
    """Go's meaning of the generated syntax on a State."""

    def __init__(self, st):
        self.st = st
        self.protected = set()       # arrays being ranged over: writes to them raise Unknown (see the docstring)

    def num(self, v):
        assert v[0] == "num", v
        if v[1] >= 2 ** 62:
            raise Unknown()      # wrap-around is not the subject here (Lemmas/Arith); the model's numbers are unbounded
        return v[1]

    def eval(self, e):
        st = self.st
        k = e[0]
        if k == "lit":
            return ("num", e[1])
        if k == "blit":
            return ("bool", e[1])
        if k == "var":
            ent = st.lookup(e[1])
            assert ent is not None, e
            return ent[2]
        if k == "+":
            return ("num", self.num(self.eval(e[1])) + self.num(self.eval(e[2])))
        if k == "*":
            return ("num", self.num(self.eval(e[1])) * self.num(self.eval(e[2])))
        if k == "cmp":
            return ("bool", CMPS[e[1]](self.num(self.eval(e[2])), self.num(self.eval(e[3]))))
        if k == "mkmap":
            return ("map", st.alloc(["map", {}]))
        if k == "toM":
            return self.eval(e[1])
        if k == "mkmapK32":
            return ("map", st.alloc(["map", {}]))
        if k == "get":
            m = self.eval(e[1])
            key = self.num(self.eval(e[2]))
            return ("num", st.heap[m[1]][1].get(key, 0))
        if k == "mlen":
            m = self.eval(e[1])
            return ("num", len(st.heap[m[1]][1]))
        if k == "make":
            n = self.num(self.eval(e[1]))
            if n == 0:
                return ("sl", None, 0, 0, 0)
            return ("sl", st.alloc(["arr", [0] * n]), 0, n, n)
        if k == "makecap":
            n = self.num(self.eval(e[1]))
            c = self.num(self.eval(e[2]))
            if c < n:
                raise GoPanic()
            if c == 0:
                return ("sl", None, 0, 0, 0)
            return ("sl", st.alloc(["arr", [0] * c]), 0, n, c)
        if k == "idx":
            s = self.eval(e[1])
            i = self.num(self.eval(e[2]))
            if i >= s[3]:
                raise GoPanic()
            return ("num", st.heap[s[1]][1][s[2] + i])
        if k == "len":
            return ("num", self.eval(e[1])[3])
        if k == "cap":
            c = self.eval(e[1])[4]
            if c is None:
                raise Unknown()
            return ("num", c)
        if k in ("sub", "take", "skip"):
            s = self.eval(e[1])
            _, o, off, ln, cap = s
            if k == "sub":
                lo, hi = self.num(self.eval(e[2])), self.num(self.eval(e[3]))
            elif k == "take":
                lo, hi = 0, self.num(self.eval(e[2]))
            else:
                lo, hi = self.num(self.eval(e[2])), ln
            if cap is None:
                if hi > ln:
                    raise Unknown()
                if lo > hi:
                    raise GoPanic()
                return ("sl", o, off + lo, hi - lo, None)
            if lo > hi or hi > cap:
                raise GoPanic()
            if k == "take":
                return ("sl", o, off, hi, cap)
            return ("sl", o, off + lo, hi - lo, cap - lo)
        raise ValueError(k)

    def elems(self, s):
        if s[3] == 0:
            return []
        return list(self.st.heap[s[1]][1][s[2]:s[2] + s[3]])

    def write(self, oid, at, xs):
        if xs and oid in self.protected:
            raise Unknown()
        arr = self.st.heap[oid][1]
        arr[at:at + len(xs)] = xs

    def append(self, s, xs, target_ent=None):
        """append xs to the slice value s; target_ent: the entry of x in `x = append(x, …)`"""
        st = self.st
        _, o, off, ln, cap = s
        if (o is None or cap == 0) and not xs:
            # append(s, empty...) with cap(s) == 0: GL/Sem.lean's SliceAppendSlice is stuck ("bad slice": a slice of
            # capacity 0 is the nil slice there, and the in-place case looks up object 0 for it); Go, the model and
            # Perennial return s.  Kept out of the stream (reported; not goose's).
            raise Unknown()
        if cap is None:
            # allowed only when nobody else can see the old array
            if target_ent is None or target_ent[2] != s or st.refs_to(o, but=target_ent) > 0:
                raise Unknown()
            return ("sl", st.alloc(["arr", self.elems(s) + xs]), 0, ln + len(xs), None)
        if ln + len(xs) <= cap:
            if xs:
                self.write(o, off + ln, xs)
            return ("sl", o, off, ln + len(xs), cap)
        return ("sl", st.alloc(["arr", self.elems(s) + xs]), 0, ln + len(xs), None)

    def evalR(self, r, target_ent=None):
        k = r[0]
        if k == "append":
            s = self.eval(r[1])
            x = self.num(self.eval(r[2]))
            return self.append(s, [x], target_ent)
        if k == "appends":
            s = self.eval(r[1])
            t = self.eval(r[2])
            return self.append(s, self.elems(t), target_ent)
        if k == "copy":
            d = self.eval(r[1])
            s = self.eval(r[2])
            n = min(d[3], s[3])
            if n:
                self.write(d[1], d[2], self.elems(s)[:n])
            return ("num", n)
        return self.eval(r)

    def run_block(self, body, scope=None):
        self.st.scopes.append(scope or {})
        try:
            for s in body:
                self.exec(s)
        finally:
            self.st.scopes.pop()

    def exec(self, s):
        st = self.st
        k = s[0]
        if k in ("def", "var"):
            v = self.evalR(s[2])
            st.scopes[-1][s[1]] = [k, s[3], v]
        elif k == "set":
            ent = st.lookup(s[1])
            ent[2] = self.evalR(s[2], ent)
        elif k == "mset":
            m = self.eval(s[1])
            key = self.num(self.eval(s[2]))
            st.heap[m[1]][1][key] = self.num(self.eval(s[3]))
        elif k == "del":
            m = self.eval(s[1])
            st.heap[m[1]][1].pop(self.num(self.eval(s[2])), None)
        elif k == "get2":
            m = self.eval(s[3])
            key = self.num(self.eval(s[4]))
            d = st.heap[m[1]][1]
            if s[1] is not None:
                st.scopes[-1][s[1]] = ["def", "u64", ("num", d.get(key, 0))]
            if s[2] is not None:
                st.scopes[-1][s[2]] = ["def", "bool", ("bool", key in d)]
        elif k == "seti":
            sl = self.eval(s[1])
            i = self.num(self.eval(s[2]))
            x = self.num(self.eval(s[3]))
            if i >= sl[3]:
                raise GoPanic()
            self.write(sl[1], sl[2] + i, [x])
        elif k == "copy":
            self.evalR(s)
        elif k == "rangem":
            m = self.eval(s[3])
            for key, val in list(st.heap[m[1]][1].items()):
                sc = {}
                if s[1] is not None:
                    sc[s[1]] = ["def", "u64", ("num", key)]
                if s[2] is not None:
                    sc[s[2]] = ["def", "u64", ("num", val)]
                self.run_block(s[4], sc)
        elif k == "ranges":
            sl = self.eval(s[3])
            mine = sl[1] is not None and sl[1] not in self.protected
            if mine:
                self.protected.add(sl[1])
            try:
                for i in range(sl[3]):
                    sc = {}
                    if s[1] is not None:
                        sc[s[1]] = ["def", "u64", ("num", i)]
                    if s[2] is not None:
                        sc[s[2]] = ["def", "u64", ("num", st.heap[sl[1]][1][sl[2] + i])]
                    self.run_block(s[4], sc)
            finally:
                if mine:
                    self.protected.discard(sl[1])
        elif k == "blk":
            self.run_block(s[1])
        elif k == "if":
            c = self.eval(s[1])
            self.run_block(s[2] if c[1] else s[3])
        else:
            raise ValueError(k)


class Gen:
    def __init__(self, r):
        self.r = r
        self.st = State()
        self.counts = {}
        self.expect = None        # None | ("reject", kind) | ("panic",)
        self.want_special = None
        self.ghost = 0            # > 0 while generating code that is not executed
        self.in_loop = 0          # > 0 inside a loop body: only iteration-stable statements
        self.accs = ["acc"]       # the accumulators: never read except in `a = a + …`

    def count(self, k):
        self.counts[k] = self.counts.get(k, 0) + 1

    # ---------- looking at the state ----------

    def peek(self, e):
        """the value of an expression (or right-hand side) in the current state, without changing it"""
        st = copy.deepcopy(self.st)
        try:
            return Interp(st).evalR(e)
        except (GoPanic, Unknown):
            return None

    def commit(self, stmt):
        """execute a statement; Dead if it panics or depends on an unknown capacity"""
        st = copy.deepcopy(self.st)
        it = Interp(st)
        it.protected = set(self.protected)
        try:
            it.exec(stmt)
        except (GoPanic, Unknown, AssertionError, KeyError, TypeError, IndexError):
            raise Dead()
        self.st = st
        return stmt

    protected = frozenset()

    def vars_of(self, ty):
        return [x for x, (kind, t, val) in self.st.visible().items() if t == ty and x not in self.accs]

    # ---------- expressions ----------

    def lit(self):
        return ("lit", self.r.choice([0, 1, 1, 2, 2, 3, 4, 5, 7]))

    def key(self):
        """a map key: mostly from the small pool"""
        r = self.r
        if r.random() < 0.75:
            return ("lit", r.choice(KEYS))
        return self.expr("u64", 1, lambda v: v[1] <= 9)

    def expr(self, ty, depth=2, pred=None):
        for _ in range(24):
            e = self.try_expr(ty, depth)
            if e is None:
                continue
            v = self.peek(e)
            if v is not None and (pred is None or pred(v)):
                return e
        return self.fallback(ty, pred)

    def fallback(self, ty, pred):
        r = self.r
        cands = []
        if ty == "u64":
            cands = [("lit", n) for n in range(0, 12)]
        elif ty == "bool":
            cands = [("blit", True), ("blit", False)]
        elif ty == "map":
            cands = [("mkmap", False)]
        elif ty == "mapD":
            cands = [("mkmap", True)]
        elif ty == "sl":
            cands = [("make", ("lit", n)) for n in range(0, 5)] + [("makecap", ("lit", n), ("lit", n + k)) for n in range(0, 3) for k in range(1, 3)]
        r.shuffle(cands)
        for e in cands:
            v = self.peek(e)
            if v is not None and (pred is None or pred(v)):
                return e
        raise Dead()

    def nonlit(self, e):
        return e[0] not in ("lit", "blit")

    def try_expr(self, ty, depth):
        r = self.r
        vs = self.vars_of(ty)
        if vs and (depth <= 0 or r.random() < (0.85 if ty in ("map", "mapD", "sl") else 0.5)):
            self.count("var")
            return ("var", r.choice(vs))
        if depth <= 0:
            return self.fallback(ty, None)
        if ty == "u64":
            k = r.randrange(10)
            if k == 0:
                return self.lit()
            if k in (1, 2):
                a = self.expr("u64", depth - 1)
                b = self.expr("u64", depth - 1)
                if not (self.nonlit(a) or self.nonlit(b)):
                    return a
                self.count("add" if k == 1 else "mul")
                if k == 2:
                    va, vb = self.peek(a), self.peek(b)
                    if va is None or vb is None or va[1] * vb[1] > 10 ** 6:
                        return a
                return ("+" if k == 1 else "*", a, b)
            if k in (3, 4):
                mty = r.choice(["map", "mapD"])
                m = self.expr(mty, depth - 1)
                self.count("MapGet")
                return ("get", m, self.key())
            if k == 5:
                m = self.expr(r.choice(["map", "mapD"]), depth - 1)
                self.count("MapLen")
                return ("mlen", m)
            if k == 6:
                s = self.expr("sl", depth - 1, lambda v: v[3] > 0)
                n = self.peek(s)[3]
                i = self.expr("u64", depth - 1, lambda v: v[1] < n)
                self.count("SliceGet")
                return ("idx", s, i)
            if k == 7:
                self.count("slice.len")
                return ("len", self.expr("sl", depth - 1))
            if k == 8:
                self.count("slice.cap")
                return ("cap", self.expr("sl", depth - 1, lambda v: v[4] is not None))
            return self.lit()
        if ty == "bool":
            a = self.expr("u64", depth - 1, None)
            b = self.expr("u64", depth - 1)
            if not self.nonlit(a) and not self.nonlit(b):
                a = self.nonlit_u64()
            self.count("cmp")
            return ("cmp", r.choice(list(CMPS)), a, b)
        if ty == "mapD" and r.random() < 0.6:
            self.count("conversion-to-M")
            return ("toM", self.expr("map", depth - 1))
        if ty in ("map", "mapD"):
            self.count("NewMap")
            return ("mkmap", ty == "mapD")
        if ty == "sl":
            k = r.randrange(6)
            if k == 0:
                self.count("NewSlice")
                return ("make", self.expr("u64", depth - 1, lambda v: v[1] <= 5))
            if k == 1:
                n = self.expr("u64", depth - 1, lambda v: v[1] <= 4)
                nv = self.peek(n)[1]
                c = self.expr("u64", depth - 1, lambda v: nv <= v[1] <= 7)
                if n[0] == "lit" and c[0] == "lit" and nv > c[1]:
                    return None
                if n[0] == "get" or c[0] == "get":
                    return None     # go1.23.5: make([]T, m[k], 3) is an internal compiler error (unhandled expr INDEXMAP)
                self.count("NewSliceWithCap")
                return ("makecap", n, c)
            s = self.expr("sl", depth - 1)
            sv = self.peek(s)
            _, o, off, ln, cap = sv
            top = ln if cap is None else cap
            if k == 2:
                b = self.expr("u64", depth - 1, lambda v: v[1] <= top)
                bv = self.peek(b)[1]
                a = self.expr("u64", depth - 1, lambda v: v[1] <= bv)
                if a[0] == "lit" and b[0] == "lit" and a[1] > b[1]:
                    return None
                self.count("SliceSubslice")
                return ("sub", s, a, b)
            if k == 3:
                self.count("SliceTake")
                return ("take", s, self.expr("u64", depth - 1, lambda v: v[1] <= top))
            if k == 4:
                self.count("SliceSkip")
                return ("skip", s, self.expr("u64", depth - 1, lambda v: v[1] <= ln))
            return self.fallback("sl", None)
        return None

    def nonlit_u64(self):
        vs = self.vars_of("u64")
        if vs:
            return ("var", self.r.choice(vs))
        ms = self.vars_of("map") + self.vars_of("mapD")
        if ms:
            return ("mlen", ("var", self.r.choice(ms)))
        ss = self.vars_of("sl")
        if ss:
            return ("len", ("var", self.r.choice(ss)))
        return ("mlen", ("mkmap", False))

    def rexpr(self, ty, target=None):
        """a right-hand side of type ty; target: the name assigned to (for x = append(x, …))"""
        r = self.r
        if self.in_loop == 0 and ty == "sl" and r.random() < 0.55:
            known = lambda v: v[4] is not None and (v[1] is None or v[1] not in self.protected)  # noqa: E731
            k = r.randrange(4)
            if target is not None and r.random() < 0.5:
                ent = self.st.lookup(target)
                if ent is not None and ent[1] == "sl" and (ent[2][4] is not None or self.st.refs_to(ent[2][1], but=ent) == 0):
                    s = ("var", target)
                else:
                    s = self.expr("sl", 1, known)
            else:
                s = self.expr("sl", 1, known)
            sv = self.peek(s)
            if k < 3:
                self.count("SliceAppend-inplace" if sv[4] is not None and sv[3] < sv[4] else "SliceAppend-grow")
                return ("append", s, self.expr("u64", 1))
            t = self.expr("sl", 1)
            tv = self.peek(t)
            self.count("SliceAppendSlice-inplace" if sv[4] is not None and sv[3] + tv[3] <= sv[4] else "SliceAppendSlice-grow")
            return ("appends", s, t)
        if self.in_loop == 0 and ty == "u64" and r.random() < 0.12:
            d = self.expr("sl", 1, lambda v: v[1] is None or v[1] not in self.protected)
            s = self.expr("sl", 1)
            self.count("SliceCopy-value")
            return ("copy", d, s)
        return self.expr(ty, 2)

    # ---------- statements ----------

    def use_of(self, x):
        """an expression of type uint64 that uses x, or a statement folding a boolean"""
        kind, ty, val = self.st.lookup(x)
        if ty == "u64":
            return ("var", x)
        if ty in ("map", "mapD", "mapK"):
            return ("mlen", ("var", x))
        if ty == "sl":
            return ("len", ("var", x))
        return None

    def fold_into_acc(self, x):
        kind, ty, val = self.st.lookup(x)
        if ty == "bool":
            return self.commit(("if", ("var", x), [("set", "acc", ("+", ("var", "acc"), ("lit", 1)))], []))
        return self.commit(("set", "acc", ("+", ("var", "acc"), self.use_of(x))))

    def declare(self, out, here, ty=None):
        r = self.r
        here = self.st.scopes[-1]
        free = [x for x in NAMES if x not in here]
        if not free:
            raise Dead()
        x = r.choice(free)
        if self.want_special == "map-key" and self.expect is None and ty is None:
            out.append(self.commit((r.choice(["def", "var"]), x, ("mkmapK32",), "mapK")))
            out.append(self.fold_into_acc(x))
            self.expect = ("reject", "maps must be from uint64 or string")
            return
        kind = "def" if r.random() < 0.5 else "var"
        ty = ty or r.choice(["u64", "u64", "bool", "map", "map", "map", "mapD", "sl", "sl", "sl", "sl"])
        e = self.rexpr(ty)
        out.append(self.commit((kind, x, e, ty)))
        self.count(kind + ":" + ty)
        out.append(self.fold_into_acc(x))
        val = self.st.lookup(x)[2]
        if ty == "sl" and val[3] > 0 and (val[1] not in self.protected):
            # distinct non-zero contents, so that a wrong offset or a missed aliasing is a wrong value
            for _ in range(r.randrange(1, 3)):
                out.append(self.commit(("seti", ("var", x), ("lit", r.randrange(val[3])), ("lit", r.randrange(1, 10)))))
        if ty == "map" and r.random() < 0.7:
            for _ in range(r.randrange(1, 3)):
                out.append(self.commit(("mset", ("var", x), ("lit", r.choice(KEYS)), ("lit", r.randrange(1, 10)))))

    def stmts(self, depth, n):
        r = self.r
        out = []
        for k in range(n):
            here = self.st.scopes[-1]
            expect_before = self.expect
            c = r.randrange(30)
            if depth == 2 and k < 5 and self.in_loop == 0 and self.ghost == 0:
                # a function starts with declarations, so that later statements have something to alias
                try:
                    self.declare(out, here, ["map", "sl", None, None, None][k]) if k < 4 else None
                except Dead:
                    pass
                continue
            if self.want_special == "panic" and self.expect is None and self.ghost == 0 and self.in_loop == 0 and k >= 4 and r.random() < 0.3:
                c = 100
            try:
                if c < 5:
                    if self.in_loop:
                        x = r.choice([z for z in NAMES if z not in here] or [None])
                        if x is None:
                            continue
                        e = self.expr("u64", 2)
                        out.append(self.commit(("def", x, e, "u64")))
                        out.append(self.fold_into_acc(x))
                        self.count("def-in-loop")
                    else:
                        self.declare(out, here)
                elif c < 7:
                    self.assign(out)
                elif c < 9 and self.in_loop == 0:
                    if r.random() < 0.5:
                        self.append_probe(out)
                    else:
                        self.alias_probe(out)
                elif c < 12:
                    self.map_store(out)
                elif c < 14:
                    self.map_delete(out)
                elif c < 16:
                    self.lookup2(out, here)
                elif c < 18:
                    self.store_idx(out)
                elif c < 19:
                    self.copy_stmt(out)
                elif c < 22 and depth > 0:
                    self.range_map(out)
                elif c < 25 and depth > 0:
                    self.range_slice(out, depth)
                elif c == 100:
                    out.append(self.panic_stmt())
                    self.expect = ("panic",)
                    return out, True
                elif c < 27 and depth > 0:
                    self.st.scopes.append({})
                    try:
                        body, dead = self.stmts(depth - 1, r.randrange(1, 4))
                    finally:
                        self.st.scopes.pop()
                    out.append(("blk", body))
                    self.count("block")
                    if dead:
                        return out, True
                elif depth > 0:
                    cond = self.expr("bool", 1)
                    taken = self.peek(cond)[1]
                    other = self.ghost_branch(depth - 1) if r.random() < 0.6 else []
                    self.st.scopes.append({})
                    try:
                        body, dead = self.stmts(depth - 1, r.randrange(1, 3))
                    finally:
                        self.st.scopes.pop()
                    out.append(("if", cond, body, other) if taken else ("if", cond, other, body))
                    self.count("if")
                    if dead:
                        return out, True
            except Dead:
                self.expect = expect_before      # a refused shape inside a statement that was given up
                continue
        return out, False

    def ghost_branch(self, depth):
        """a branch that is not executed: generated on a copy of the state (only well-typed, otherwise arbitrary)"""
        saved_st, saved_expect = self.st, self.expect
        self.st = copy.deepcopy(saved_st)
        self.st.scopes.append({})
        want = self.want_special
        self.want_special = None if want == "panic" else want
        self.ghost += 1
        try:
            body, _ = self.stmts(depth, self.r.randrange(1, 3))
        finally:
            self.st = saved_st
            self.want_special = want
            self.ghost -= 1
        return body

    def assign(self, out):
        r = self.r
        special = self.want_special == "assign-def" and self.expect is None and self.in_loop == 0
        cands = [x for x, ent in self.st.visible().items() if ent[0] == ("def" if special else "var") and x not in self.accs]
        if self.in_loop:
            cands = [x for x in cands if self.st.lookup(x)[1] in ("u64", "bool")]
        if not cands:
            raise Dead()
        x = r.choice(cands)
        ent = self.st.lookup(x)
        e = self.rexpr(ent[1], target=x)
        out.append(self.commit(("set", x, e)))
        self.count("assign:" + ent[1])
        if special:
            self.expect = ("reject", "is not assignable")

    def append_probe(self, out):
        """t := append(s, e) on an existing slice, then writes through the old and through the new slice"""
        r = self.r
        here = self.st.scopes[-1]
        free = [x for x in NAMES if x not in here]
        ss = [x for x in self.vars_of("sl") if self.st.lookup(x)[2][4] is not None and self.st.lookup(x)[2][1] not in self.protected]
        if not free or not ss:
            raise Dead()
        sname = r.choice(ss)
        sv = self.st.lookup(sname)[2]
        t = r.choice(free)
        if sname == t:
            raise Dead()
        if r.random() < 0.7:
            rhs = ("append", ("var", sname), self.expr("u64", 1))
            grows = sv[3] + 1 > sv[4]
        else:
            other = self.expr("sl", 1)
            rhs = ("appends", ("var", sname), other)
            grows = sv[3] + self.peek(other)[3] > sv[4]
        out.append(self.commit((r.choice(["def", "var"]), t, rhs, "sl")))
        out.append(self.fold_into_acc(t))
        self.count("append-probe-grow" if grows else "append-probe-inplace")
        tv = self.st.lookup(t)[2]
        if tv[3] > 0:
            out.append(self.commit(("seti", ("var", t), ("lit", r.randrange(tv[3])), ("lit", r.randrange(10, 20)))))
        ent = self.st.lookup(sname)
        if ent[1] == "sl" and ent[2][3] > 0:
            out.append(self.commit(("seti", ("var", sname), ("lit", r.randrange(ent[2][3])), ("lit", r.randrange(20, 30)))))
        if tv[3] > 0 and r.random() < 0.5:
            out.append(self.commit(("seti", ("var", t), ("lit", tv[3] - 1), ("lit", r.randrange(30, 40)))))

    def alias_probe(self, out):
        """n := m on an existing map, then inserts and deletes through both names"""
        r = self.r
        here = self.st.scopes[-1]
        free = [x for x in NAMES if x not in here]
        ms = self.vars_of("map")
        if not free or not ms:
            raise Dead()
        m = r.choice(ms)
        n = r.choice(free)
        if n == m:
            raise Dead()
        out.append(self.commit((r.choice(["def", "var"]), n, ("var", m), "map")))
        out.append(self.fold_into_acc(n))
        self.count("map-alias-probe")
        for _ in range(r.randrange(2, 5)):
            who = r.choice([m, n])
            if self.st.lookup(who)[1] != "map":
                continue
            if r.random() < 0.6:
                out.append(self.commit(("mset", ("var", who), ("lit", r.choice(KEYS)), self.expr("u64", 1))))
            else:
                out.append(self.commit(("del", ("var", who), ("lit", r.choice(KEYS)))))
        out.append(self.commit(("set", "acc", ("+", ("var", "acc"), ("+", ("get", ("var", n), ("lit", r.choice(KEYS))), ("get", ("var", m), ("lit", r.choice(KEYS))))))))

    def map_store(self, out):
        special = self.want_special == "mset-defined" and self.expect is None
        m = self.expr("mapD" if special else "map", 1)
        out.append(self.commit(("mset", m, self.key(), self.expr("u64", 2))))
        self.count("MapInsert")
        if special:
            self.expect = ("reject", "index update to unexpected target of type")

    def map_delete(self, out):
        special = self.want_special == "del-defined" and self.expect is None
        m = self.expr("mapD" if special else "map", 1)
        out.append(self.commit(("del", m, self.key())))
        self.count("MapDelete")
        if special:
            self.expect = ("reject", "delete on non-map")

    def lookup2(self, out, here):
        r = self.r
        here = self.st.scopes[-1]
        free = [x for x in NAMES if x not in here]
        r.shuffle(free)
        form = r.randrange(4)
        v = free.pop() if free and form != 1 else None
        ok = free.pop() if free and form != 2 else None
        if v is None and ok is None:
            raise Dead()
        m = self.expr(r.choice(["map", "mapD"]), 1)
        out.append(self.commit(("get2", v, ok, m, self.key())))
        self.count("MapGet-2" + ("" if v and ok else "-blank"))
        for x in (v, ok):
            if x is not None:
                out.append(self.fold_into_acc(x))

    def store_idx(self, out):
        s = self.expr("sl", 1, lambda v: v[3] > 0 and v[1] not in self.protected)
        n = self.peek(s)[3]
        i = self.expr("u64", 1, lambda v: v[1] < n)
        out.append(self.commit(("seti", s, i, self.expr("u64", 2))))
        self.count("SliceSet")

    def copy_stmt(self, out):
        d = self.expr("sl", 1, lambda v: v[1] is None or v[1] not in self.protected)
        s = self.expr("sl", 1)
        out.append(self.commit(("copy", d, s)))
        self.count("SliceCopy")

    def binder(self, avoid):
        r = self.r
        if r.random() < 0.3:
            cands = [x for x in NAMES if x not in avoid]
            if cands:
                return r.choice(cands)
        return None

    def accum_stmt(self, named):
        """`a = a + E` with E over the loop variables, literals and reads of things no loop body changes"""
        r = self.r
        a = r.choice(self.accs)
        parts = [("var", x) for x in named]
        r.shuffle(parts)
        e = None
        for p in parts:
            if r.random() < 0.4:
                p = ("*", p, ("lit", r.randrange(2, 5)))
            e = p if e is None else ("+", e, p)
        if e is None or r.random() < 0.3:
            extra = self.lit() if r.random() < 0.5 or not named else ("get", self.expr(r.choice(["map", "mapD"]), 0), ("var", r.choice(named)))
            e = extra if e is None else ("+", e, extra)
        return ("set", a, ("+", ("var", a), e))

    def range_map(self, out):
        r = self.r
        m = self.expr(r.choice(["map", "map", "mapD"]), 1)
        form = r.randrange(6)
        avoid = set(self.accs)
        k = None if form in (1, 3) else (self.binder(avoid) or "k")
        v = None if form in (2, 3) else (self.binder(avoid | {k}) or "v")
        named = [x for x in (k, v) if x is not None]
        saved = self.st
        self.st = copy.deepcopy(saved)
        sc = {}
        for x in named:
            sc[x] = ["def", "u64", ("num", 1)]
        self.st.scopes.append(sc)
        self.ghost += 1
        self.in_loop += 1
        try:
            body = []
            if named:
                # every named loop variable must be used
                s0 = self.accum_stmt(named)
                uses = repr(s0)
                if not all(repr(("var", x)) in uses for x in named):
                    e = None
                    for x in named:
                        e = ("var", x) if e is None else ("+", e, ("var", x))
                    s0 = ("set", "acc", ("+", ("var", "acc"), e))
                body.append(s0)
            for _ in range(r.randrange(0, 3)):
                if r.random() < 0.3 and named:
                    cond = ("cmp", r.choice(list(CMPS)), ("var", r.choice(named)), self.lit())
                    body.append(("if", cond, [self.accum_stmt(named)], [self.accum_stmt(named)] if r.random() < 0.5 else []))
                else:
                    body.append(self.accum_stmt(named))
        finally:
            self.st = saved
            self.ghost -= 1
            self.in_loop -= 1
        out.append(self.commit(("rangem", k, v, m, body)))
        self.count("MapIter" + ("" if len(named) == 2 else "-blank"))

    def range_slice(self, out, depth):
        r = self.r
        s = self.expr("sl", 1)
        sv = self.peek(s)
        form = r.randrange(6)
        i = None if form in (1, 3) else r.choice(INT_NAMES)
        x = None if form in (2, 3) else (self.binder(set(self.accs)) or "e")
        named = [z for z in (i, x) if z is not None]
        saved, saved_prot = self.st, self.protected
        self.st = copy.deepcopy(saved)
        sc = {}
        if i is not None:
            sc[i] = ["def", "u64", ("num", 0)]
        if x is not None:
            first = self.peek(("idx", s, ("lit", 0))) if sv[3] > 0 else None
            sc[x] = ["def", "u64", first or ("num", 1)]
        self.st.scopes.append(sc)
        if sv[1] is not None and sv[1] < len(self.st.heap):
            self.protected = set(saved_prot) | {sv[1]}
        self.ghost += 1
        self.in_loop += 1
        try:
            body = []
            if named:
                e = None
                for z in named:
                    e = ("var", z) if e is None else ("+", e, ("var", z))
                body.append(self.commit(("set", "acc", ("+", ("*", ("var", "acc"), ("lit", 2)), e))))
            more, _ = self.stmts(min(depth - 1, 1), r.randrange(0, 3))
            body += more
        finally:
            self.st = saved
            self.protected = saved_prot
            self.ghost -= 1
            self.in_loop -= 1
        out.append(self.commit(("ranges", i, x, s, body)))
        self.count("ForSlice" + ("" if len(named) == 2 else "-blank"))

    def panic_stmt(self):
        """a statement that panics in Go when executed"""
        r = self.r
        k = r.randrange(5)
        self.count("panic-shape-%d" % k)
        known = lambda v: v[4] is not None  # noqa: E731
        if k == 0:
            s = self.expr("sl", 1)
            return ("set", "acc", ("idx", s, ("lit", self.peek(s)[3] + r.randrange(0, 2))))
        if k == 1:
            s = self.expr("sl", 1)
            return ("seti", s, ("lit", self.peek(s)[3]), ("lit", 1))
        if k == 2:
            s = self.expr("sl", 1, known)
            return ("set", "acc", ("len", ("take", s, ("lit", self.peek(s)[4] + 1))))
        if k == 3:
            s = self.expr("sl", 1)
            return ("set", "acc", ("len", ("skip", s, ("lit", self.peek(s)[3] + 1))))
        n = self.nonlit_u64()
        nv = self.peek(n)[1]
        return ("set", "acc", ("len", ("makecap", ("+", n, ("lit", 2)), ("lit", nv + 1))))

    def final_fold(self):
        """statements that fold everything reachable from every visible variable into acc"""
        st = self.st
        out = []
        seen_maps = set()
        for x, (kind, ty, val) in sorted(st.visible().items()):
            if x in self.accs:
                continue
            if ty == "u64":
                out.append(("set", "acc", ("+", ("var", "acc"), ("var", x))))
            elif ty == "bool":
                out.append(("if", ("var", x), [("set", "acc", ("+", ("var", "acc"), ("lit", 1)))], [("set", "acc", ("+", ("var", "acc"), ("lit", 2)))]))
            elif ty == "mapK":
                out.append(("set", "acc", ("+", ("var", "acc"), ("mlen", ("var", x)))))
            elif ty in ("map", "mapD"):
                out.append(("set", "acc", ("+", ("var", "acc"), ("mlen", ("var", x)))))
                if val[1] not in seen_maps:
                    seen_maps.add(val[1])
                    out.append(("rangem", "k", "v", ("var", x), [("set", "acc", ("+", ("var", "acc"), ("+", ("*", ("var", "k"), ("lit", 3)), ("var", "v"))))]))
            else:
                _, o, off, ln, cap = val
                e = ("len", ("var", x))
                if cap is not None:
                    e = ("+", e, ("cap", ("var", x)))
                for i in range(ln):
                    e = ("+", e, ("*", ("idx", ("var", x), ("lit", i)), ("lit", i + 1)))
                out.append(("set", "acc", ("+", ("var", "acc"), e)))
        res = []
        for s in out:
            res.append(self.commit(s))
        return res

    def program(self):
        r = self.r
        k = r.random()
        self.want_special = ("assign-def" if k < 0.04 else "mset-defined" if k < 0.07 else "del-defined" if k < 0.10
                             else "map-key" if k < 0.12 else "panic" if k < 0.20 else None)
        a0 = r.randrange(1, 4)
        body = [self.commit(("var", "acc", ("lit", a0), "u64"))]
        more, dead = self.stmts(2, r.randrange(7, 14))
        body += more
        if not dead:
            body += self.final_fold()
        total = self.st.lookup("acc")[2][1]
        return body, ("var", "acc"), total


# ---------- rendering: tokens of the line protocol ----------

def btok(b):
    return "_" if b is None else b


def etoks(e):
    k = e[0]
    if k == "lit":
        return [str(e[1])]
    if k == "blit":
        return ["true" if e[1] else "false"]
    if k == "var":
        return [e[1]]
    if k in ("+", "*"):
        return [k] + etoks(e[1]) + etoks(e[2])
    if k == "cmp":
        return [e[1]] + etoks(e[2]) + etoks(e[3])
    if k == "mkmap":
        return ["mkmapD" if e[1] else "mkmap"]
    if k == "mkmapK32":
        return ["mkmapK32"]
    if k in ("mlen", "make", "len", "cap", "toM"):
        return [k] + etoks(e[1])
    if k in ("get", "makecap", "idx", "take", "skip", "append", "appends", "copy"):
        return [k] + etoks(e[1]) + etoks(e[2])
    if k == "sub":
        return ["sub"] + etoks(e[1]) + etoks(e[2]) + etoks(e[3])
    raise ValueError(k)


def toks(ss, ret=None):
    parts = []
    for s in ss:
        k = s[0]
        if k in ("def", "var", "set"):
            parts.append([k, s[1]] + etoks(s[2]))
        elif k == "mset":
            parts.append(["mset"] + etoks(s[1]) + etoks(s[2]) + etoks(s[3]))
        elif k == "del":
            parts.append(["del"] + etoks(s[1]) + etoks(s[2]))
        elif k == "get2":
            parts.append(["get2", btok(s[1]), btok(s[2])] + etoks(s[3]) + etoks(s[4]))
        elif k == "seti":
            parts.append(["seti"] + etoks(s[1]) + etoks(s[2]) + etoks(s[3]))
        elif k == "copy":
            parts.append(["copy"] + etoks(s[1]) + etoks(s[2]))
        elif k in ("rangem", "ranges"):
            parts.append([k, btok(s[1]), btok(s[2])] + etoks(s[3]) + ["["] + toks(s[4]) + ["]"])
        elif k == "blk":
            parts.append(["blk", "["] + toks(s[1]) + ["]"])
        else:
            parts.append(["if"] + etoks(s[1]) + ["["] + toks(s[2]) + ["]", "["] + toks(s[3]) + ["]"])
    if ret is not None:
        parts.append(["ret"] + etoks(ret))
    out = []
    for i, p in enumerate(parts):
        if i:
            out.append(";")
        out += p
    return out


# ---------- rendering: Go ----------

def go_e(e):
    k = e[0]
    if k == "lit":
        return str(e[1])
    if k == "blit":
        return "true" if e[1] else "false"
    if k == "var":
        return "uint64(%s)" % e[1] if e[1] in INT_NAMES else e[1]
    if k in ("+", "*"):
        return "(%s %s %s)" % (go_e(e[1]), k, go_e(e[2]))
    if k == "cmp":
        return "%s %s %s" % (go_e(e[2]), e[1], go_e(e[3]))
    if k == "mkmap":
        return "make(M)" if e[1] else "make(map[uint64]uint64)"
    if k == "mkmapK32":
        return "make(map[uint32]uint64)"
    if k == "toM":
        return "M(%s)" % go_e(e[1])
    if k == "get":
        return "%s[%s]" % (go_operand(e[1]), go_e(e[2]))
    if k == "mlen" or k == "len":
        return "uint64(len(%s))" % go_e(e[1])
    if k == "cap":
        return "uint64(cap(%s))" % go_e(e[1])
    if k == "make":
        return "make([]uint64, %s)" % go_e(e[1])
    if k == "makecap":
        return "make([]uint64, %s, %s)" % (go_e(e[1]), go_e(e[2]))
    if k == "idx":
        return "%s[%s]" % (go_operand(e[1]), go_e(e[2]))
    if k == "sub":
        return "%s[%s:%s]" % (go_operand(e[1]), go_e(e[2]), go_e(e[3]))
    if k == "take":
        return "%s[:%s]" % (go_operand(e[1]), go_e(e[2]))
    if k == "skip":
        return "%s[%s:]" % (go_operand(e[1]), go_e(e[2]))
    if k == "append":
        return "append(%s, %s)" % (go_e(e[1]), go_e(e[2]))
    if k == "appends":
        return "append(%s, %s...)" % (go_e(e[1]), go_e(e[2]))
    if k == "copy":
        return "uint64(copy(%s, %s))" % (go_e(e[1]), go_e(e[2]))
    raise ValueError(k)


def go_operand(e):
    if e[0] in ("var", "idx", "make", "makecap", "mkmap", "sub", "take", "skip", "get", "toM"):
        return go_e(e)
    return "(" + go_e(e) + ")"


def go_src(ss, ind):
    pad = "\t" * ind
    out = []
    for s in ss:
        k = s[0]
        if k == "def":
            if s[3] == "u64" and s[2][0] != "copy":
                out.append("%s%s := uint64(%s)" % (pad, s[1], go_e(s[2])))
            else:
                out.append("%s%s := %s" % (pad, s[1], go_e(s[2])))
        elif k == "var":
            out.append("%svar %s %s = %s" % (pad, s[1], GOTY[s[3]], go_e(s[2])))
        elif k == "set":
            out.append("%s%s = %s" % (pad, s[1], go_e(s[2])))
        elif k == "mset":
            out.append("%s%s[%s] = %s" % (pad, go_operand(s[1]), go_e(s[2]), go_e(s[3])))
        elif k == "del":
            out.append("%sdelete(%s, %s)" % (pad, go_e(s[1]), go_e(s[2])))
        elif k == "get2":
            out.append("%s%s, %s := %s[%s]" % (pad, btok(s[1]), btok(s[2]), go_operand(s[3]), go_e(s[4])))
        elif k == "seti":
            out.append("%s%s[%s] = %s" % (pad, go_operand(s[1]), go_e(s[2]), go_e(s[3])))
        elif k == "copy":
            out.append("%scopy(%s, %s)" % (pad, go_e(s[1]), go_e(s[2])))
        elif k in ("rangem", "ranges"):
            a, b = s[1], s[2]
            if a is None and b is None:
                head = "for range %s {" % go_e(s[3])
            elif b is None:
                head = "for %s := range %s {" % (a, go_e(s[3]))
            else:
                head = "for %s, %s := range %s {" % (btok(a), b, go_e(s[3]))
            out += [pad + head] + go_src(s[4], ind + 1) + [pad + "}"]
        elif k == "blk":
            out += ["%s{" % pad] + go_src(s[1], ind + 1) + ["%s}" % pad]
        else:
            out.append("%sif %s {" % (pad, go_e(s[1])))
            out += go_src(s[2], ind + 1)
            if s[3]:
                out += ["%s} else {" % pad] + go_src(s[3], ind + 1)
            out.append("%s}" % pad)
    return out


TYPE_DECL = "type M map[uint64]uint64\n"


def gen_function(r):
    for _ in range(50):
        g = Gen(r)
        try:
            body, ret, total = g.program()
        except Dead:
            continue
        return g, body, ret, total
    raise C.Infra("collcorr: the generator cannot produce a function")


def run(seed, nfuncs, scratch):
    r = random.Random(seed)
    funcs = []
    counts = {}
    for i in range(nfuncs):
        g, body, ret, total = gen_function(r)
        funcs.append(("c%d" % i, body, ret, total, g.expect))
        for k, v in g.counts.items():
            counts[k] = counts.get(k, 0) + v
    src = ["package p", "", TYPE_DECL]
    for name, body, ret, total, expect in funcs:
        src.append("func %s() uint64 {" % name)
        src += go_src(body, 1)
        src.append("\treturn %s" % go_e(ret))
        src += ["}", ""]
    text_src = "\n".join(src)
    lines_src = text_src.split("\n")
    line_of = {}
    for name, _, _, _, _ in funcs:
        lo = lines_src.index("func %s() uint64 {" % name) + 1
        hi = lo
        while lines_src[hi - 1] != "}":
            hi += 1
        line_of[name] = (lo, hi)
    runner = [gogen.PRINTER, "func RunAll() {"] + ['\tcall("%s#0", func() string { return show(%s()) })' % (f[0], f[0]) for f in funcs] + ["}"]
    files = {"p/p.go": text_src, "p/run.go": "\n".join(runner),
             "cmd/main.go": "package main\n\nimport \"example.com/m/p\"\n\nfunc main() {\n\tp.RunAll()\n}\n"}
    root = os.path.join(scratch, "coll")
    gomod.write_module(root, k4.split_files(files))
    nat, nerr = k4.native(root)
    if nat is None:
        raise C.Infra("collcorr: generated package does not build: " + nerr)
    rc, gerr, text = k4.translate(root)
    if text is None:
        raise C.Infra("collcorr: goose wrote nothing: " + gerr[-500:])
    errs = c07.parse_errors(gerr)
    lines = [" ".join(toks(body, ret)) for _, body, ret, _, _ in funcs]
    model = C.driver("coll", lines)
    model_go = C.driver("collgo", lines)
    model_t = C.driver("collt", lines)
    reps = k4.gl_session(text, ["names"])
    if reps[0].startswith("parse-error"):
        return {"functions": nfuncs}, {"what": "emitted file does not parse", "detail": k4.unhex(reps[0])}
    emitted = set(reps[1][6:].split(",")) if reps[1] != "names -" else set()
    present = [f[0] for f in funcs if f[0] in emitted]
    canon = dict(zip(present, k4.gl_session(text, ["canon " + n for n in present])[1:]))
    evals = dict(zip(present, k4.gl_session(text, ["eval " + n for n in present])[1:]))
    stats = {"functions": nfuncs, "accepted": 0, "rejected": 0, "panicking": 0, "constructs": counts}
    bad = None          # the first disagreement; one with a concrete failing input (values differ) is preferred
    bad_value = None

    def fail(**kw):
        nonlocal bad, bad_value
        if bad is None:
            bad = kw
        if bad_value is None and kw["what"].startswith("values differ"):
            bad_value = kw
    for (name, body, ret, total, expect), line, m, mg, mt in zip(funcs, lines, model, model_go, model_t):
        lo, hi = line_of[name]
        gosrc = "\n".join(lines_src[lo - 1:hi])
        want = nat.get(name + "#0")
        if name in emitted:
            c = canon[name]
            mm = re.match(r"canon \(func %s \[\] \(rec \w+ \[5f\] (.*)\)\)$" % name, c)
            got = mm.group(1) if mm else "unreadable: " + c[:100]
            ev = k4.unhex(evals[name])
            if expect is not None and expect[0] == "reject":
                fail(what="goose accepts a function the generator built to be rejected (%s)" % expect[1], function=name, go=gosrc, line=line, model=m[:300])
                continue
            if got != m:
                if expect is None and want == "u64:%d" % total and ev != "value " + want:
                    # the real translator left the model AND the emitted program computes something else: a failing input
                    fail(what="values differ (and the emitted tree differs from Model.Coll.tr)", function=name, go=gosrc, line=line,
                         native_go=want, model_go_semantics=mg, model_target_semantics=mt, interpreter_on_emitted=ev, model=m, goose=got)
                else:
                    fail(what="the emitted tree differs from Model.Coll.tr", function=name, go=gosrc, line=line, model=m, goose=got)
                continue
            if expect is not None and expect[0] == "panic":
                stats["panicking"] += 1
                if want != "gopanic" or mg != "panicked" or mt != "stuck" or not ev.startswith("stuck"):
                    fail(what="a function built to panic", function=name, go=gosrc, line=line, native_go=want, model_go_semantics=mg,
                         model_target_semantics=mt, interpreter_on_emitted=ev)
                continue
            stats["accepted"] += 1
            if want != "u64:%d" % total:
                fail(what="the generator's own bookkeeping disagrees with native Go (generator defect)", function=name, go=gosrc, line=line,
                     native_go=want, generator=total)
            elif want != "u64:" + mg or want != "u64:" + mt or ev != "value " + want:
                fail(what="values differ", function=name, go=gosrc, line=line, native_go=want, model_go_semantics=mg,
                     model_target_semantics=mt, interpreter_on_emitted=ev)
        else:
            stats["rejected"] += 1
            msgs = [msg for cat, msg, f, ln in errs if ln is not None and lo <= ln <= hi]
            if expect is None or expect[0] != "reject":
                fail(what="goose rejects a function the generator built to be accepted", function=name, go=gosrc, line=line, goose_errors=msgs[:3], model=m[:300])
                continue
            kind = expect[1]
            ok = m.startswith("error ") and kind.replace(" ", "-") in m and any(kind in x for x in msgs)
            if not ok:
                fail(what="goose rejects (%s), the model says `%s`" % (kind, m[:200]), function=name, go=gosrc, line=line, goose_errors=msgs[:3])
    shutil.rmtree(root, ignore_errors=True)
    return stats, bad_value or bad


def main(argv):
    if len(argv) < 3:
        print(__doc__)
        return 2
    seeds = []
    for a in argv[1:-1] if len(argv) > 3 else [argv[1]]:
        if ".." in a:
            lo, hi = a.split("..")
            seeds += list(range(int(lo), int(hi) + 1))
        else:
            seeds.append(int(a))
    nfuncs = int(argv[-1])
    import json
    tot = {}
    rcode = 0
    for seed in seeds:
        scratch = C.scratch("collcorr.")
        try:
            stats, bad = run(seed, nfuncs, scratch)
        finally:
            shutil.rmtree(scratch, ignore_errors=True)
        for k, v in stats.items():
            if isinstance(v, int):
                tot[k] = tot.get(k, 0) + v
            else:
                d = tot.setdefault(k, {})
                for kk, vv in v.items():
                    d[kk] = d.get(kk, 0) + vv
        print("seed %d: %s%s" % (seed, {k: v for k, v in stats.items() if isinstance(v, int)}, "" if bad is None else "  DISAGREEMENT"))
        if bad is not None:
            print(json.dumps(bad, indent=1, ensure_ascii=False))
            rcode = 1
    print("total:", json.dumps(tot, sort_keys=True))
    return rcode


if __name__ == "__main__":
    sys.exit(main(sys.argv))
