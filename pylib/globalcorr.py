"""Correspondence stream for the model of package-level variables (Model/Global.lean, Props/C02Global.lean).

Types are drawn over numbers, references (pointer / slice / map) and named structs nested up to three levels; each becomes
    type … ; var gN T = <initialiser of that type> ; func useN() uint64 { … reads a number out of gN … }
and is translated by the real goose.  The tie: goose refuses the variable (with the message of the guard in globalVarDecl) exactly when
the model's `holdsReference` says the type holds a reference (driver: `global <type in prefix tokens>` → `holds true|false`), and a
variable it accepts is used by a function whose emitted code returns what Go returns (the reference-free case of
`global_faithful_without_references`, observed).  Arrays are left out here: goose has no array literals, so an array-typed global
cannot be initialised in the subset at all (the guard's array case is pinned by text only).
"""
import os
import random

import common as C
import gogen
import k4


def gen_type(r, depth):
    """prefix tokens of the model's Ty: n | r T | s k T1 … Tk"""
    c = r.random()
    if depth == 0 or c < 0.35:
        return ["n"]
    if c < 0.45:
        return ["r"] + gen_type(r, depth - 1)
    k = r.randrange(1, 4)
    out = ["s", str(k)]
    for _ in range(k):
        out += gen_type(r, depth - 1)
    return out


class Emit:
    def __init__(self, prefix, r):
        self.prefix, self.r, self.decls, self.n = prefix, r, [], 0

    def go(self, toks, i=0):
        """returns (Go type text, initialiser text, expression reading a number out of value `v` or None, next index)"""
        t = toks[i]
        if t == "n":
            k = self.r.randrange(1, 50)
            return "uint64", "uint64(%d)" % k, lambda v: v, i + 1, k
        if t == "r":
            ty, init, rd, j, val = self.go(toks, i + 1)
            kind = self.r.randrange(3)
            if kind == 0:
                return "*" + ty, "new(%s)" % ty, None, j, None
            if kind == 1:
                return "[]" + ty, "make([]%s, 1)" % ty, None, j, None
            return "map[uint64]" + ty, "make(map[uint64]%s)" % ty, None, j, None
        k = int(toks[i + 1])
        j = i + 2
        name = "%sS%d" % (self.prefix, self.n)
        self.n += 1
        fields, inits, reader, val = [], [], None, None
        for f in range(k):
            ty, init, rd, j, v = self.go(toks, j)
            fields.append("\tf%d %s" % (f, ty))
            inits.append("f%d: %s" % (f, init))
            if rd is not None and reader is None:
                reader, val = (lambda x, f=f, rd=rd: rd("%s.f%d" % (x, f))), v
        self.decls.append("type %s struct {\n%s\n}\n" % (name, "\n".join(fields)))
        return name, "%s{%s}" % (name, ", ".join(inits)), reader, j, val


def run(seed, n, scratch):
    r = random.Random(seed * 104729 + 7)
    cases = [["n"], ["r", "n"], ["s", "2", "n", "n"], ["s", "2", "r", "n", "n"], ["s", "2", "n", "s", "1", "r", "n"], ["s", "1", "s", "2", "n", "n"], ["r", "s", "1", "n"]]
    seen = {" ".join(c) for c in cases}
    while len(cases) < n:
        t = gen_type(r, 3)
        if " ".join(t) in seen:
            continue
        seen.add(" ".join(t))
        cases.append(t)
    src, fns = "", []
    for i, toks in enumerate(cases):
        e = Emit("G%d" % i, r)
        ty, init, rd, _, val = e.go(toks)
        src += "".join(e.decls) + "\n"
        src += "var g%d %s = %s\n\n" % (i, ty, init)
        body = "\treturn %s + 1000" % rd("g%d" % i) if rd is not None else "\treturn 7"
        src += "func use%d() uint64 {\n%s\n}\n\n" % (i, body)
        fns.append(("use%d" % i, "g%d" % i, toks, rd is not None))
    runner = [gogen.PRINTER, "func RunAll() {"] + ['\tcall("%s#0", func() string { return show(%s()) })' % (f[0], f[0]) for f in fns] + ["}"]
    files = {"p/p.go": "package p\n\n" + src, "p/run.go": "\n".join(runner), "cmd/main.go": "package main\n\nimport \"example.com/m/p\"\n\nfunc main() {\n\tp.RunAll()\n}\n"}
    calls = [(f[0] + "#0", f[0], []) for f in fns]
    res = k4.run_package(files, calls, os.path.join(scratch, "glob"))
    if res["parse_error"]:
        raise C.Infra("globals stream: emitted file unreadable: %s" % res["parse_error"])
    model = C.driver("global", ["global " + " ".join(t) for t in cases])
    text = res["text"] or ""
    stats = {"global_cases": len(cases), "global_accepted": 0, "global_refused": 0}
    bad = []
    mism = {m["fn"]: m for m in res["mismatches"]}
    for (fn, g, toks, reads), m in zip(fns, model):
        if m not in ("holds true", "holds false"):
            raise C.Infra("global driver: %r for %r" % (m, toks))
        accepted = k4.emitted_def(text, g) is not None or ("Definition %s " % g) in text or ("Definition %s:" % g) in text
        stats["global_accepted" if accepted else "global_refused"] += 1
        if accepted == (m == "holds true"):
            bad.append({"kind": "guard", "type": " ".join(toks), "model": m, "goose_accepts": accepted})
        elif accepted and reads and fn in mism:
            bad.append({"kind": "semantics", "type": " ".join(toks), "go": mism[fn]["go"], "gooselang": mism[fn]["gl"]})
    if stats["global_refused"] and "globals are translated as constants" not in res["goose_stderr"]:
        bad.append({"kind": "message", "detail": "globals were refused, but not with the message of the guard", "stderr_tail": res["goose_stderr"][-400:]})
    return stats, bad
