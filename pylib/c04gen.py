"""Generator of Go packages for C04: many small top-level declarations of every kind (functions,
methods with pointer/value receivers, structs, named types, constants, globals) with a random
ACYCLIC dependency graph (self-recursion allowed, including method self-calls on a receiver
expression that is not a plain variable), laid out in a random order over 1-4 files whose names
sort in any order.  Every reference kind goose knows is used: calls, method calls, struct
literals, new(T), var x T, field types, slice/map element types, conversions to named types,
constants in initialisers, and type annotations only."""
import random

FILE_NAMES = ["a.go", "b.go", "m.go", "z.go", "a_b.go", "zz.go", "k1.go", "Z_up.go", "0first.go"]
METHOD_NAMES = ["Size", "Get", "Len", "Entry", "Total", "Sum"]


class Decl:
    def __init__(self, kind, name, coq_names, level):
        self.kind, self.name, self.coq_names, self.level = kind, name, coq_names, level
        self.deps = set()     # names of Decl objects (their Go-level key) this one mentions
        self.text = ""


def package(seed, ndecls=14):
    r = random.Random(seed)
    decls = []
    structs, consts, named, funcs, methods, globs, generics = [], [], [], [], [], [], []
    # a few simple names are shared between a function and a method (distinct Coq names: f vs T__f)
    shared = r.sample(METHOD_NAMES[:5], 2)
    for i in range(ndecls):
        level = i
        kind = r.choice(["struct", "struct", "const", "named", "func", "func", "func", "method", "method", "global", "constgroup", "generic"])
        if kind == "method" and not structs:
            kind = "struct"
        if kind == "struct":
            d = Decl("struct", "T%d" % i, ["T%d" % i], level)
            fields = ["\tv uint64"]
            for k in range(r.randrange(0, 3)):
                if structs and r.random() < 0.7:
                    t = r.choice(structs)
                    form = r.choice(["*%s", "%s", "[]%s", "map[uint64]%s", "[]*%s"])
                    fields.append("\tf%d %s" % (k, form % t.name))
                    d.deps.add(t.name)
                elif named and r.random() < 0.5:
                    t = r.choice(named)
                    fields.append("\tf%d %s" % (k, t.name))
                    d.deps.add(t.name)
            if r.random() < 0.4:
                fields.append("\tnext *%s" % d.name)      # self reference through a pointer
            d.text = "type %s struct {\n%s\n}\n" % (d.name, "\n".join(fields))
            d.has_next = "next *" in d.text
            structs.append(d)
        elif kind == "const":
            d = Decl("const", "K%d" % i, ["K%d" % i], level)
            if consts and r.random() < 0.6:
                c = r.choice(consts)
                d.text = "const %s uint64 = %s + %d\n" % (d.name, c.name, r.randrange(1, 9))
                d.deps.add(c.name)
            else:
                d.text = "const %s uint64 = %d\n" % (d.name, r.randrange(100))
            consts.append(d)
        elif kind == "constgroup":
            # one Go declaration, several Coq definitions; members may mention each other (in any order) and outside constants
            members = ["K%d_%d" % (i, j) for j in range(r.randrange(2, 4))]
            d = Decl("constgroup", "CG%d" % i, list(members), level)
            lines = []
            # (a member may mention members that come LATER in the group: the order of use inside the group is a random permutation)
            rank = list(range(len(members)))
            r.shuffle(rank)
            for j, mname in enumerate(members):
                below = [m for m in range(len(members)) if rank[m] < rank[j]]
                if below and r.random() < 0.5:
                    lines.append("\t%s uint64 = %s + %d" % (mname, members[r.choice(below)], j))
                elif consts and r.random() < 0.4:
                    c = r.choice(consts)
                    lines.append("\t%s uint64 = %s + %d" % (mname, c.name, j))
                    d.deps.add(c.name)
                else:
                    lines.append("\t%s uint64 = %d" % (mname, r.randrange(100)))
            d.text = "const (\n%s\n)\n" % "\n".join(lines)
            for mname in members:
                m = Decl("const", mname, [], level)        # a name usable by later declarations; emitted by the group
                consts.append(m)
        elif kind == "generic":
            d = Decl("generic", "GN%d" % i, ["GN%d" % i], level)
            d.text = ("func GN%d[T any](x T, n uint64) uint64 {\n\tif n == 0 {\n\t\treturn %d\n\t}\n\treturn GN%d[T](x, n-1) + 1\n}\n"
                      % (i, r.randrange(9), i))
            generics.append(d)
        elif kind == "global":
            d = Decl("global", "G%d" % i, ["G%d" % i], level)
            if consts and r.random() < 0.7:
                c = r.choice(consts)
                d.text = "var %s uint64 = %s\n" % (d.name, c.name)
                d.deps.add(c.name)
            else:
                d.text = "var %s uint64 = %d\n" % (d.name, r.randrange(100))
            globs.append(d)
        elif kind == "named":
            d = Decl("named", "N%d" % i, ["N%d" % i], level)
            d.text = "type %s uint64\n" % d.name
            named.append(d)
        else:
            if kind == "method":
                t = r.choice(structs)
                mname = r.choice(METHOD_NAMES)
                pool = [f.name for f in funcs] + [s2.name for s2 in structs if s2.name != t.name] + [c.name for c in consts]
                if pool and r.random() < 0.5:
                    mname = r.choice(pool)       # a method whose simple name is also a top-level name (Coq names stay distinct: T__name)
                if any(m.recv == t.name and m.mname == mname for m in methods):
                    mname = "M%d" % i
                ptr = r.random() < 0.7
                d = Decl("method", "%s.%s" % (t.name, mname), ["%s__%s" % (t.name, mname)], level)
                d.recv, d.mname, d.ptr = t.name, mname, ptr
                d.deps.add(t.name)
                sig = "func (t %s%s) %s(x uint64) uint64" % ("*" if ptr else "", t.name, mname)
            else:
                fname = shared.pop() if shared and r.random() < 0.3 else "F%d" % i
                d = Decl("func", fname, [fname], level)
                sig = "func %s(x uint64) uint64" % fname
            body = ["\tvar acc uint64 = x"]
            for k in range(r.randrange(1, 5)):
                c = r.randrange(13)
                if c == 0 and funcs:
                    f = r.choice(funcs)
                    body.append("\tacc = acc + %s(%d)" % (f.name, k))
                    d.deps.add(f.name)
                elif c == 1 and consts:
                    cc = r.choice(consts)
                    body.append("\tacc = acc + %s" % cc.name)
                    d.deps.add(cc.name)
                elif c == 2 and structs:
                    t2 = r.choice(structs)
                    body.append("\ts%d := &%s{v: acc}\n\tacc = acc + s%d.v" % (k, t2.name, k))
                    d.deps.add(t2.name)
                elif c == 3 and structs:
                    t2 = r.choice(structs)
                    body.append("\tn%d := new(%s)\n\tacc = acc + n%d.v" % (k, t2.name, k))
                    d.deps.add(t2.name)
                elif c == 4 and structs:
                    t2 = r.choice(structs)
                    body.append("\tvar z%d %s\n\tacc = acc + z%d.v" % (k, t2.name, k))     # mentioned in a type annotation only
                    d.deps.add(t2.name)
                elif c == 5 and methods:
                    m = r.choice(methods)
                    recv = "&%s{v: acc}" % m.recv if m.ptr else "%s{v: acc}" % m.recv
                    body.append("\tr%d := %s\n\tacc = acc + r%d.%s(%d)" % (k, recv, k, m.mname, k))
                    d.deps.add(m.name)
                    d.deps.add(m.recv)
                elif c == 6 and named:
                    nn = r.choice(named)
                    body.append("\tacc = acc + uint64(%s(acc))" % nn.name)
                    d.deps.add(nn.name)
                elif c == 7 and globs:
                    g = r.choice(globs)
                    body.append("\tacc = acc + %s" % g.name)
                    d.deps.add(g.name)
                elif c == 8 and structs:
                    t2 = r.choice(structs)
                    body.append("\tsl%d := make([]%s, 1)\n\tacc = acc + sl%d[0].v" % (k, t2.name, k))
                    d.deps.add(t2.name)
                elif c == 9 and structs:
                    t2 = r.choice(structs)
                    body.append("\tmp%d := make(map[uint64]*%s)\n\tacc = acc + uint64(len(mp%d))" % (k, t2.name, k))
                    d.deps.add(t2.name)
                elif c == 11 and generics:
                    gfn = r.choice(generics)
                    body.append("\tacc = acc + %s[uint64](acc, 2) + %s(true, 1)" % (gfn.name, gfn.name))
                    d.deps.add(gfn.name)
                elif c == 10:
                    # self recursion through the recursive binder
                    if kind == "method":
                        t = next(s for s in structs if s.name == d.recv)
                        if d.ptr and getattr(t, "has_next", False):
                            body.append("\tif t.next != nil {\n\t\tacc = acc + t.next.%s(x)\n\t}" % d.mname)
                        else:
                            body.append("\tif x > 0 {\n\t\tacc = acc + t.%s(x-1)\n\t}" % d.mname)
                    else:
                        body.append("\tif x > 0 {\n\t\tacc = acc + %s(x-1)\n\t}" % d.name)
                else:
                    body.append("\tacc = acc*3 + %d" % k)
            d.text = sig + " {\n" + "\n".join(body) + "\n\treturn acc\n}\n"
            (methods if kind == "method" else funcs).append(d)
        decls.append(d)
    # layout
    nfiles = r.randrange(1, 5)
    names = r.sample(FILE_NAMES, nfiles)
    files = {n: [] for n in names}
    order = list(decls)
    r.shuffle(order)
    for d in order:
        files[r.choice(names)].append(d)
    out = {}
    for n, ds in files.items():
        out["p/" + n] = "package p\n\n" + "\n".join(d.text for d in ds)
    return out, decls


def relayout(decls, seed):
    """the same declarations in another order / split (the quantifier: all permutations and splits)"""
    r = random.Random(seed)
    nfiles = r.randrange(1, 5)
    names = r.sample(FILE_NAMES, nfiles)
    files = {n: [] for n in names}
    order = list(decls)
    r.shuffle(order)
    for d in order:
        files[r.choice(names)].append(d)
    return {"p/" + n: "package p\n\n" + "\n".join(d.text for d in ds) for n, ds in files.items()}
