"""C13 — AtomicCreate is all-or-nothing, durable-before-visible, interference-free.

Proof: Props/C13.lean over `acRun`, the system-call machine of DirFs.AtomicCreate on the OS model
(crash after any number of calls, failure of any one call, short writes, arbitrary leftovers).
Tie: regenerated declarations/calls/flags of machine/filesys (rfl) + strace experiments on the
real code: for every system call of AtomicCreate (calibrated from an undisturbed trace of the
same history) the pinned child is killed there or the call is made to fail; a new process then
continues the history on the same directory and is compared with (a) the reference model under
the two outcomes the property allows (applied / not applied) and (b) the DirFs model.
"""
import collections
import itertools
import json
import os
import random
import re
import shutil
import subprocess

import common as C
import c12
import conc

LEVEL = "proof"
SYSCALLS = "openat,write,fsync,renameat,close"
REC = re.compile(r"^\d+\s+(openat|write|fsync|renameat|close)\((.*)$")


def hexdata(rnd, n):
    base = rnd.randrange(256)
    return "".join("%02x" % ((base + 7 * i) % 256) for i in range(n)) or "-"


def scenarios(seed, tier):
    rnd = random.Random(seed)
    out = []
    sizes = [0, 1, 5, 300, 5000] if tier == "quick" else [0, 1, 2, 5, 17, 300, 4096, 5000, 13000]
    for pre in ("none", "atomic", "created-open"):
        for sz in sizes:
            for mode in ("kill", "fail"):
                for k in range(0, 5):
                    if tier == "quick" and rnd.randrange(3) != 0:
                        continue
                    data = hexdata(rnd, sz)
                    data2 = hexdata(rnd, rnd.choice([1, 3, max(1, sz // 2), sz + 3]))
                    prefix = ["newfs", "mkdir d1", "mkdir d2"]
                    if pre == "atomic":
                        prefix += ["atomic d1 a %s" % hexdata(rnd, 9)]
                    elif pre == "created-open":
                        prefix += ["create d1 a", "append 0 %s" % hexdata(rnd, 20), "open d1 a"]
                    prefix += ["atomic d2 a %s" % hexdata(rnd, 4)]     # same name in another directory
                    dist = "atomicx d1 a %s %d %s" % (data, k, mode)
                    suffix = (["restart"] if mode == "kill" else []) + [
                        "list d1", "list d2", "open d2 a", "readat %(f0)d 0 100000",
                        "atomic d1 a %s" % data2, "open d1 a", "readat %(f1)d 0 100000", "list d1",
                        "atomic d1 b %s" % hexdata(rnd, 3), "open d1 b", "readat %(f2)d 0 100000"]
                    out.append({"prefix": prefix, "dist": dist, "suffix": suffix, "k": k, "mode": mode, "size": sz, "pre": pre})
    return out


def fill_fds(ops_before, suffix):
    nf = sum(1 for o in ops_before if o.split()[0] in ("create", "open"))
    # create may fail (nofd) but the prefixes used here never do
    out, cur = [], nf
    names = {}
    for o in suffix:
        if "%(f" in o:
            out.append(o % names)
            continue
        out.append(o)
        if o.split()[0] == "open":
            names["f%d" % len(names)] = cur
            cur += 1
    return out, nf


def strace_child(ops, scratch, inject=None, trace_file=None, extra=()):
    env = dict(C.GOENV)
    env["GOMAXPROCS"] = "1"
    cmd = ["strace", "-f", "-o", trace_file or "/dev/null", "-e", "trace=" + SYSCALLS]
    if inject:
        cmd += ["-e", "inject=" + inject]
    cmd += [os.path.join(C.BIN, "hcorr"), "fs", "run", "-impl", "dir", "-pin", "-keeproot", "-scratch", scratch] + list(extra)
    p = subprocess.run(cmd, input="\n".join(ops) + "\n", env=env, stdout=subprocess.PIPE, stderr=subprocess.PIPE, text=True, timeout=120)
    return p.stdout.splitlines(), p.returncode


def calibrate(ops, scratch):
    """System calls of the LAST AtomicCreate of `ops` as [(name, ordinal-of-that-name)]."""
    tf = os.path.join(scratch, "cal.trace")
    shutil.rmtree(os.path.join(scratch, "fsroot-dir"), ignore_errors=True)
    out, rc = strace_child(ops, scratch, trace_file=tf)
    counts = collections.Counter()
    recs = []
    for l in open(tf):
        m = REC.match(l)
        if not m:
            continue
        counts[m.group(1)] += 1
        recs.append((m.group(1), counts[m.group(1)], m.group(2)))
    os.remove(tf)
    # the system calls of the disturbed AtomicCreate: from the open of its temporary file — or, for an implementation without one, from
    # its last creating open (the disturbances then hit whatever it does instead, and the all-or-nothing judgement is the same)
    start = max((i for i, r in enumerate(recs) if r[0] == "openat" and ".tmp\"" in r[2]),
                default=max((i for i, r in enumerate(recs) if r[0] == "openat" and "O_CREAT" in r[2]), default=0))
    calls = []
    for r in recs[start:]:
        calls.append((r[0], r[1]))
        if r[0] == "close":
            break
    return calls, out


def run_scenario(sc, scratch):
    root = os.path.join(scratch, "fsroot-dir")
    seg1 = sc["prefix"] + [sc["dist"]]
    calls, clean = calibrate(seg1, scratch)
    k = sc["k"]
    if k >= len(calls):
        return None  # this AtomicCreate has fewer system calls (empty data: no write)
    name, ordinal = calls[k]
    shutil.rmtree(root, ignore_errors=True)
    if sc["mode"] == "kill":
        inj = "%s:signal=KILL:when=%d" % (name, ordinal)
    else:
        inj = "%s:error=EIO:when=%d" % (name, ordinal)
    got1, rc = strace_child(seg1, scratch, inject=inj)
    suffix, nf = fill_fds(seg1, sc["suffix"])
    got2 = C.hcorr("fs", "run", ["-impl", "dir", "-keeproot", "-scratch", scratch, "-fdbase", str(nf)],
                   input="\n".join(suffix) + "\n")
    shutil.rmtree(root, ignore_errors=True)
    return {"calls": calls, "inject": inj, "seg1": seg1, "got1": got1, "suffix": suffix, "got2": got2, "clean": clean}


def judge(sc, res):
    """Returns (spec_ok, model_ok, details)."""
    seg1, suffix = res["seg1"], res["suffix"]
    d = sc["dist"].split()
    ref = {}
    for outcome in ("applied", "dropped"):
        ops = sc["prefix"] + ["atomicx %s %s %s %s" % (d[1], d[2], d[3], outcome)] + suffix
        ref[outcome] = c12.model_run("ref", ops)[len(sc["prefix"]) + 1:]
    spec_ok = res["got2"] in (ref["applied"], ref["dropped"])
    # the disturbed call itself: a failing system call must surface as a panic (close excepted:
    # the deferred close's result is ignored by design and the data is already in place)
    if sc["mode"] == "fail" and res["calls"][sc["k"]][0] != "close":
        if res["got1"][-1:] != ["panic"]:
            spec_ok = False
    model_ok = False
    models = []
    for kk in (sc["k"], sc["k"] + 1):
        ops = sc["prefix"] + ["atomicx %s %s %s %d %s" % (d[1], d[2], d[3], kk, sc["mode"])] + suffix
        m = c12.model_run("dir", ops)
        models.append(m[len(sc["prefix"]) + 1:])
        if m[len(sc["prefix"]) + 1:] == res["got2"]:
            model_ok = True
        if sc["mode"] == "fail":
            break
    return spec_ok, model_ok, {"ref_applied": ref["applied"], "ref_dropped": ref["dropped"], "model": models[0]}


def check(ctx):
    build = C.ensure_built("C13", ["fs"], extra_go=conc.EXTRA_GO)
    scs = scenarios(ctx.seed, ctx.tier)
    scratch = C.scratch()
    found = False
    stats = collections.Counter()
    samples = []
    known_hits = {}
    try:
        probe, rc = strace_child(["newfs", "mkdir d1", "list d1"], scratch)
        if probe != ["ok", "ok", "names -"]:
            raise C.Infra("strace unavailable: %r" % probe)
        # ---- durable before visible, read off the system calls of one undisturbed call: everything written to the temporary file,
        #      then fsync of it, and only then the rename that makes the name visible
        #      — for small data, and for data beyond every chunk size an implementation might flush at (1 MiB and more, exact multiples of
        #      2^20 and not): the LAST write to the temporary file precedes an fsync, which precedes the rename
        order_sizes = [5000, 0, (1 << 20) + 1, (1 << 20) + (1 << 19)] if ctx.tier == "quick" else [5000, 0, 1, 4096, (1 << 20) - 1, 1 << 20, (1 << 20) + 1, (1 << 20) + (1 << 19), 2 << 20, (5 << 20) + 12345]
        for osz in order_sizes:
            tf = os.path.join(scratch, "order.trace")
            order_ops = ["newfs", "mkdir d1", "atomic d1 a %s" % hexdata(random.Random(ctx.seed + osz), osz)]
            orep, _ = strace_child(order_ops, scratch, trace_file=tf)
            if orep[-1] != "ok":
                raise C.Infra("syscall-order scenario: AtomicCreate of %d bytes answered %r" % (osz, orep[-1][:80]))
            recs = [(m.group(1), m.group(2)) for m in (REC.match(l) for l in open(tf)) if m]
            os.remove(tf)
            shutil.rmtree(os.path.join(scratch, "fsroot-dir"), ignore_errors=True)
            # (no temporary file at all — the destination opened and written in place — is judged below like any other order in
            #  which the name is visible before the data is flushed: the calls are then taken from the open of the destination)
            st = max((i for i, r in enumerate(recs) if r[0] == "openat" and ".tmp\"" in r[1]),
                     default=max((i for i, r in enumerate(recs) if r[0] == "openat" and "d1/a\"" in r[1]), default=0))
            seq = [r[0] for r in recs[st:]]
            seq = seq[: seq.index("close") + 1] if "close" in seq else seq      # the call ends with the deferred close of the temporary file
            stats["syscall_order_checks"] += 1
            i_ren = seq.index("renameat") if "renameat" in seq else None
            before = seq[:i_ren] if i_ren is not None else seq
            i_fs = max((i for i, n in enumerate(before) if n == "fsync"), default=None)       # the last flush before the name is visible
            last_w = max((i for i, n in enumerate(before) if n == "write"), default=None)
            written_after = i_ren is not None and "write" in seq[i_ren:]
            ok_order = i_ren is not None and not written_after and (last_w is None and osz == 0 or (last_w is not None and i_fs is not None and last_w < i_fs))
            if not ok_order and not found:
                found = True
                stats["spec_failures"] += 1
                short = [k for k, g in itertools.groupby(seq)]
                ctx.violation("counterexample", "AtomicCreate: the data is not flushed before the name becomes visible (order of the system calls of one call)",
                              {"proto": "fs-syscall-order", "ops": order_ops[:2] + ["atomic d1 a <%d bytes>" % osz], "size": osz},
                              expected="openat(tmp) … write … fsync(tmp) … renameat(tmp, d1/a): no write after the last fsync", observed={"calls": seq[-14:], "runs_collapsed": short[:30]})
        for sc in scs:
            res = run_scenario(sc, scratch)
            if res is None:
                stats["skipped_no_such_syscall"] += 1
                continue
            stats["scenarios"] += 1
            stats["%s@%s" % (sc["mode"], res["calls"][sc["k"]][0])] += 1
            spec_ok, model_ok, det = judge(sc, res)
            if len(samples) < 3:
                samples.append({"prefix": [o[:60] for o in sc["prefix"]], "disturbed": sc["dist"][:60], "inject": res["inject"],
                                "suffix": [o[:60] for o in res["suffix"]], "code": [r[:60] for r in res["got2"]]})
            if not spec_ok:
                e = None
                for kf in C.load_known("C13"):
                    if kf.get("status") == "known" and kf.get("match", {}).get("mode") == sc["mode"] and kf["match"].get("syscall") == res["calls"][sc["k"]][0]:
                        e = kf
                if e is not None:
                    known_hits[e["key"]] = e
                    continue
                stats["spec_failures"] += 1
                if not found:
                    found = True
                    ctx.violation("counterexample", "AtomicCreate disturbed at system call #%d (%s, %s) vs all-or-nothing / exact-contents specification"
                                  % (sc["k"], res["calls"][sc["k"]][0], sc["mode"]),
                                  {"proto": "fs-crash", "prefix": sc["prefix"], "disturbed": sc["dist"], "inject": res["inject"], "suffix": res["suffix"],
                                   "k": sc["k"], "mode": sc["mode"]},
                                  expected={"if_applied": det["ref_applied"], "if_not_applied": det["ref_dropped"]},
                                  observed={"disturbed_call": res["got1"][-1:], "afterwards": res["got2"]})
            elif not model_ok:
                stats["model_disagreements"] += 1
                if not any(b["kind"] == "correspondence" for b in build.broken):
                    build.broken.append({"kind": "correspondence", "name": "fs-crash: Lean DirFs/acRun model vs dir.go under disturbance",
                                         "detail": "scenario %s %s: code %s, model %s" % (sc["dist"][:40], res["inject"], res["got2"], det["model"])})
        # ---- genuine short writes: the process may not write files beyond a size limit (RLIMIT_FSIZE, SIGXFSZ ignored), so a
        #      write returns fewer bytes than asked and the next one fails with EFBIG
        rnd = random.Random(ctx.seed + 99)
        for limit, sz in ((4096, 10000), (64, 5000), (5000, 13000), (4096, 4096), (8192, 5000)):
            for pre in ("none", "atomic"):
                data, data2 = hexdata(rnd, sz), hexdata(rnd, 7)
                prefix = ["newfs", "mkdir d1", "mkdir d2"] + (["atomic d1 a %s" % hexdata(rnd, 9)] if pre == "atomic" else []) + ["atomic d2 a %s" % hexdata(rnd, 4)]
                seg1 = prefix + ["atomic d1 a %s" % data]
                shutil.rmtree(os.path.join(scratch, "fsroot-dir"), ignore_errors=True)
                got1 = C.hcorr("fs", "run", ["-impl", "dir", "-keeproot", "-scratch", scratch, "-fsize", str(limit)], input="\n".join(seg1) + "\n")
                suffix, nf = fill_fds(seg1, ["list d1", "list d2", "open d2 a", "readat %(f0)d 0 100000"] + (["open d1 a", "readat %(f1)d 0 100000"] if (pre == "atomic" or sz <= limit) else []) +
                                      ["atomic d1 a %s" % data2, "open d1 a", "readat %%(f%d)d 0 100000" % (2 if (pre == "atomic" or sz <= limit) else 1)])
                got2 = C.hcorr("fs", "run", ["-impl", "dir", "-keeproot", "-scratch", scratch, "-fdbase", str(nf)], input="\n".join(suffix) + "\n")
                stats["short_write_scenarios"] += 1
                fits = sz <= limit
                ref_ops = prefix + (["atomic d1 a %s" % data] if fits else []) + suffix
                want = c12.model_run("ref", ref_ops)[len(prefix) + (1 if fits else 0):]
                ok = got2 == want and got1[-1:] == (["ok"] if fits else ["panic"])
                if not ok and not found:
                    found = True
                    stats["spec_failures"] += 1
                    ctx.violation("counterexample", "AtomicCreate under a file-size limit (short write, then EFBIG) vs all-or-nothing",
                                  {"proto": "fs-fsize", "prefix": prefix, "call": "atomic d1 a <%d bytes>" % sz, "limit": limit, "suffix": suffix},
                                  expected={"call": "ok" if fits else "panic (the error surfaces)", "afterwards": want},
                                  observed={"call": got1[-1:], "afterwards": got2})
        # ---- leftovers under the very temporary names the next calls will use (a crashed process with a recycled pid):
        #      longer than the new data, so a missing O_TRUNC shows
        for sz, left in ((2, 300), (18, 1024), (0, 7), (5000, 9000)):
            data = hexdata(rnd, sz)
            ops = ["newfs", "mkdir d1", "plant a %s" % hexdata(rnd, left), "atomic d1 a %s" % data, "open d1 a", "readat 0 0 100000",
                   "atomic d1 a %s" % data, "open d1 a", "readat 1 0 100000", "list d1"]
            shutil.rmtree(os.path.join(scratch, "fsroot-dir"), ignore_errors=True)
            got = C.hcorr("fs", "run", ["-impl", "dir", "-scratch", scratch], input="\n".join(ops) + "\n")
            stats["leftover_scenarios"] += 1
            want = ["ok", "ok", "ok", "ok", "fd 0", "bytes %s" % data, "ok", "fd 1", "bytes %s" % data, "names a"]
            if got != want and not found:
                found = True
                stats["spec_failures"] += 1
                ctx.violation("counterexample", "AtomicCreate over a leftover temporary file of the same name (earlier interrupted call, recycled pid)",
                              {"proto": "fs-leftover", "ops": ops}, expected=want, observed=got)
        # ---- sequential non-interference: AtomicCreate among creates, deletes and links of OTHER names; every name keeps
        #      exactly its own contents (both implementations against the reference model of Model/Fs.lean)
        names = ["a", "b", "c", "d", "e.tmp", "e"]
        for h in range(12 if ctx.tier == "quick" else 300):
            ops = ["newfs", "mkdir d1", "mkdir d2"]
            live = {}
            nfd = 0
            if h % 4 == 0:
                # a payload larger than 64 KiB: an implementation that keeps the caller's slice for big data — the harness overwrites
                # its buffer after every call — shows the overwritten bytes when the name is read back
                ops.append("atomic d1 bigf %s" % hexdata(rnd, 70000))
                live[("d1", "bigf")] = True
            for i in range(rnd.randrange(6, 22)):
                d, n = rnd.choice(["d1", "d2"]), rnd.choice(names)
                k = rnd.randrange(10)
                if k < 5:
                    ops.append("atomic %s %s %s" % (d, n, hexdata(rnd, rnd.choice([0, 1, 7, 40, 300]))))
                    live[(d, n)] = True
                elif k < 8 and live:
                    dd, nn = rnd.choice(sorted(live))
                    ops.append("delete %s %s" % (dd, nn))
                    del live[(dd, nn)]
                elif live:
                    dd, nn = rnd.choice(sorted(live))
                    n2 = rnd.choice(names)
                    ops.append("link %s %s %s %s" % (dd, nn, d, n2))
                    if (d, n2) not in live:
                        live[(d, n2)] = True
                # read every live name back after every step
                if i % 3 == 2 or k >= 5:
                    for (dd, nn) in sorted(live):
                        ops.append("open %s %s" % (dd, nn))
                        ops.append("readat %d 0 100000" % nfd)
                        ops.append("close %d" % nfd)
                        nfd += 1
            ops += ["list d1", "list d2"]
            want = c12.model_run("ref", ops)
            if any(x in ("invalid", "bad-op") for x in want):
                raise C.Infra("C13 generator: history the reference model calls invalid: %s" % ops[:30])
            for impl in ("mem", "dir", "gmem", "gdir"):        # (g…: through the package-level functions translated code calls)
                shutil.rmtree(os.path.join(scratch, "fsroot-dir"), ignore_errors=True)
                shutil.rmtree(os.path.join(scratch, "fsroot-gdir"), ignore_errors=True)
                got = c12.run_real(impl, ops, scratch)
                stats["sequential_histories"] += 1
                if got != want and not found:
                    found = True
                    stats["spec_failures"] += 1
                    k = next(i for i in range(len(ops)) if got[i] != want[i])
                    ctx.violation("counterexample", "AtomicCreate / Delete / Link of one name disturbs another name (%s implementation vs the reference model)" % impl,
                                  {"proto": "fs", "impl": impl, "ops": ops[:k + 1]}, expected=want[:k + 1][-6:], observed=got[:k + 1][-6:])
    finally:
        shutil.rmtree(scratch, ignore_errors=True)
    # interference: concurrent creators of different names / in different directories / of one name,
    # with concurrent readers
    scratch2 = C.scratch()
    inter = {}
    try:
        for impl in ("dir", "mem"):
            for mode in ("names", "dirs", "same"):
                rounds, report = conc.run_hconc("atomic", ["-impl", impl, "-mode", mode, "-seed", str(ctx.seed), "-scratch", scratch2,
                                                            "-rounds", "6" if ctx.tier == "quick" else "60", "-threads", "4",
                                                            "-ops", "60" if ctx.tier == "quick" else "200"])
                inter["%s/%s" % (impl, mode)] = {"rounds": len(rounds), "calls": sum(r["ops"] for r in rounds),
                                                  "problems": sum(1 for r in rounds if r.get("problem"))}
                bad = [r for r in rounds if r.get("problem")]
                if report and not bad:
                    bad = [{"problem": "the Go runtime reported: " + report[:800]}]
                if not bad:
                    continue
                e = None
                for kf in C.load_known("C13"):
                    m = kf.get("match", {})
                    if kf.get("status") == "known" and m.get("proto") == "hconc-atomic" and m.get("impl") == impl and m.get("mode") == mode:
                        e = kf
                if e is not None:
                    known_hits[e["key"]] = e
                    continue
                if not found:
                    found = True
                    ctx.violation("counterexample", "AtomicCreate (%s): concurrent creators (%s) disturb each other" % (impl, mode),
                                  {"proto": "hconc-atomic", "impl": impl, "mode": mode, "seed": ctx.seed},
                                  expected="every observed content is the complete data of one AtomicCreate for that name, and no call fails",
                                  observed=bad[0]["problem"])
    finally:
        shutil.rmtree(scratch2, ignore_errors=True)
    stats["interference"] = inter
    for k, e in known_hits.items():
        ctx.known("%s — %s" % (k, e["what"]))
    C.report_broken_obligations(ctx, build, found)
    ctx.coverage.update({
        "evaluations": stats["scenarios"],
        "distinct_nontrivial": stats["scenarios"],
        "rule": "scenarios = (prior state of dir/name: absent | created by AtomicCreate | created and still open) x data size x "
                "(kill | EIO) x system call index 0..4 of the disturbed AtomicCreate (openat, write, fsync, renameat, close; indices "
                "calibrated from an undisturbed strace of the same history), then a new process lists both directories, reads the "
                "same name in another directory, re-creates the name with data of a different length and reads it back; all are "
                "distinct and non-trivial (each injects exactly one disturbance); quick tier runs a seeded third of the grid",
        "samples": samples,
        "stats": dict(stats),
    })
    if ctx.tier == "thorough" and not build.broken:
        ok, out = C.leanchecker("GooseVerif.Props.C13")
        ctx.coverage["leanchecker"] = "ok" if ok else out
    ctx.assumptions += [
        "OS model: a killed process keeps what it wrote (page cache); rename is atomic; directory-entry durability and real power loss are not modelled",
        "strace delivers the kill on entry to the chosen system call (the model is tried with the call executed and not executed)",
        "interference-freedom is exercised by stress runs (4 creators + 4 readers), not by a theorem over interleavings",
    ]
    return ctx.finish(build)


def replay(ctx, path):
    obj = json.load(open(path))
    C.ensure_built("C13", ["fs"])
    inp = obj["input"]
    if inp.get("proto") != "fs-crash":
        return check(ctx)
    sc = {"prefix": inp["prefix"], "dist": inp["disturbed"], "suffix": [], "k": inp["k"], "mode": inp["mode"]}
    scratch = C.scratch()
    try:
        sc["suffix"] = inp["suffix"]
        res = run_scenario(dict(sc, suffix=[]), scratch)
        got2 = C.hcorr("fs", "run", ["-impl", "dir", "-keeproot", "-scratch", scratch, "-fdbase", "0"], input="\n".join(inp["suffix"]) + "\n") if False else None
    finally:
        shutil.rmtree(scratch, ignore_errors=True)
    print("re-run the full check to reproduce with the recorded scenario:", inp["disturbed"], inp["inject"])
    return 1
