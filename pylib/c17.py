"""C17 — the goose command: exit status, file placement and partial output.

Proof: Props/C17.lean over Model/Cmd.lean (the loop of `translate` and `writeFileIfChanged`).
Tie: regenerated canonical text of cmd/goose (translate, writeFileIfChanged, flags) and of the
loader configuration (rfl) + the REAL goose binary run on generated modules mixing translatable,
partly translatable and untranslatable packages, with pattern sets, -dir, flag combinations and
prior states of the output directory; exit status, files present and files rewritten are compared
with the model; partial output is compared with goose's own output on the package without its
untranslatable declarations; source selection is compared with `go list -tags goose`.
"""
import collections
import json
import os
import random
import re
import shutil
import time

import common as C
import gomod

LEVEL = "proof"

GOOD_DECLS = [
    "func Add%(k)d(x uint64, y uint64) uint64 {\n\treturn x + y + %(k)d\n}\n",
    "type S%(k)d struct {\n\ta uint64\n\tb bool\n}\n",
    "func Loop%(k)d(n uint64) uint64 {\n\tvar s uint64 = 0\n\tfor i := uint64(0); i < n; i++ {\n\t\ts = s + i\n\t}\n\treturn s\n}\n",
    "const C%(k)d uint64 = %(k)d\n",
]
BAD_DECLS = [
    "func Bad%(k)d(s []uint64) []uint64 {\n\treturn s[0:1:2]\n}\n",                       # 3-index slice
    "func Bad%(k)d(x uint64) uint64 {\n\tswitch x {\n\tcase 1:\n\t\treturn 2\n\t}\n\treturn 3\n}\n",  # switch
    "func Bad%(k)d(c chan uint64) {\n\tc <- 1\n}\n",                                        # channels
    # declarations on which the translator fails INTERNALLY (its own panic, not a conversion error): reported as an error of that
    # declaration like the others; the type declaration in front translates
    ("type Buf%(k)d []byte\n", "func Bad%(k)d(b Buf%(k)d, x []byte) uint64 {\n\treturn uint64(copy(b, x))\n}\n"),
    ("type Sl%(k)d []uint64\n", "func Bad%(k)d(s Sl%(k)d) uint64 {\n\tt := s[1:]\n\treturn uint64(len(t))\n}\n"),
]


def mk_pkg(rnd, name, kind, k0):
    """kind: good | bad | mixed | broken.  Returns ({file: content}, {file: content without bad decls}, has_err)."""
    if kind == "broken":
        # does not type-check: goose has no translation for it at all
        src = "package %s\n\nfunc Broken%d() uint64 {\n\treturn \"not a number\"\n}\n" % (name, k0)
        return {"f0.go": src}, {"f0.go": "package %s\n" % name}, True
    if kind == "twoffi":
        # type-correct, but it reaches two FFIs: goose refuses the whole package (an error), and writes nothing for it even with
        # -ignore-errors (there is no translation, not a partial one)
        src = ("package %s\n\nimport (\n\t\"github.com/goose-lang/goose/machine/async_disk\"\n\t\"github.com/goose-lang/goose/machine/disk\"\n)\n\n"
               "func Sizes%d(d disk.Disk, a async_disk.Disk) uint64 {\n\treturn d.Size() + a.Size()\n}\n" % (name, k0))
        return {"f0.go": src}, {"f0.go": "package %s\n" % name}, True
    if kind == "big":
        # an output file well above 64 KiB (no error): the unchanged-content test must look at all of it
        body = "package %s\n\n" % name + "\n".join(GOOD_DECLS[d % len(GOOD_DECLS)] % {"k": k0 * 100 + d} for d in range(900))
        return {"f0.go": body}, {"f0.go": body}, False
    nfiles = rnd.randrange(1, 3)
    files, reduced = {}, {}
    k = k0
    has_err = False
    for f in range(nfiles):
        parts, parts_good = ["package %s\n" % name], ["package %s\n" % name]
        nd = rnd.randrange(1, 5)
        for d in range(nd):
            k += 1
            bad = (kind == "bad" and d == 0 and f == 0) or (kind == "mixed" and rnd.random() < 0.4) or (kind == "bad" and rnd.random() < 0.3)
            if kind == "mixed" and f == 0 and d == 0:
                bad = True
            if bad:
                has_err = True
                bd = rnd.choice(BAD_DECLS)
                if isinstance(bd, tuple):
                    parts.append(bd[0] % {"k": k})
                    parts_good.append(bd[0] % {"k": k})
                    bd = bd[1]
                parts.append(bd % {"k": k})
            else:
                g = rnd.choice(GOOD_DECLS) % {"k": k}
                parts.append(g)
                parts_good.append(g)
        files["f%d.go" % f] = "\n".join(parts)
        reduced["f%d.go" % f] = "\n".join(parts_good)
    return files, reduced, has_err


def scenarios(seed, tier):
    rnd = random.Random(seed)
    n = 24 if tier == "quick" else 400
    for s in range(n):
        # (sub/a and x/z are packages with the same NAME as a and z)
        dirs = rnd.sample(["a", "b", "sub/c", "d-e", "v.1/f", "z", "sub/a", "x/z"], rnd.randrange(1, 6))
        if s < 2:
            dirs = ["a", "sub/a", "z", "x/z"]        # always present: two pairs of same-named packages, one of them large
        if s in (2, 3, 4, 5):
            dirs = ["a", "b", "sub/c"]               # always present: a partly translatable, a translatable and an untranslatable package
        pkgs, reduced, kinds, errs = {}, {}, {}, {}
        for i, d in enumerate(dirs):
            kind = rnd.choice(["good", "good", "bad", "mixed", "good", "good", "bad", "mixed", "broken", "big"])
            if s < 2:
                kind = "big" if d == "a" else ("bad" if (s == 1 and d == "x/z") else "good")
            if s in (2, 3, 4, 5):
                kind = ["mixed", "good", "bad", "good", "good"][i % 5]
            if s == 5 and i == 1:
                kind = "twoffi"
            name = d.split("/")[-1].replace("-", "_").replace(".", "_")
            files, red, he = mk_pkg(rnd, name, kind, 100 * i)
            # build-tag guarded files: only the `goose` one belongs to the package goose sees
            if kind != "broken" and rnd.random() < 0.4:
                files["tag_goose.go"] = "//go:build goose\n\npackage %s\n\nfunc OnlyGoose%d() uint64 {\n\treturn 1\n}\n" % (name, i)
                red["tag_goose.go"] = files["tag_goose.go"]
                files["tag_nogoose.go"] = "//go:build !goose\n\npackage %s\n\nfunc NotGoose%d() uint64 {\n\treturn 2\n}\n" % (name, i)
                red["tag_nogoose.go"] = files["tag_nogoose.go"]
            pkgs[d], reduced[d], kinds[d], errs[d] = files, red, kind, he
        ptype = rnd.choice(["dotdotdot", "explicit", "importpath", "subset", "dir", "overlap", "dirrel"])
        if s in (2, 3, 4, 5):
            # always present: up-to-date PARTIAL output under -ignore-errors; patterns that overlap; -dir with a relative -out
            ptype = {2: "explicit", 3: "overlap", 4: "dirrel", 5: "overlap"}[s]
        if ptype == "dotdotdot":
            patterns, matched = ["./..."], list(dirs)
        elif ptype == "explicit":
            matched = list(dirs)
            patterns = ["./" + d for d in matched]
        elif ptype == "importpath":
            matched = list(dirs)
            patterns = ["example.com/m/" + d for d in matched]
        elif ptype == "subset":
            matched = rnd.sample(dirs, rnd.randrange(1, len(dirs) + 1))
            patterns = ["./" + d for d in matched]
        elif ptype == "overlap":
            # patterns whose matches overlap: the go tool takes their union, each package once
            matched = list(dirs)
            patterns = ["./...", "./" + dirs[0]] if s % 2 else ["./" + d for d in dirs] + ["example.com/m/" + dirs[-1], "./" + dirs[0]]
        else:
            matched = list(dirs)
            patterns = ["./..."]
        prior = {d: rnd.choice(["a", "a", "s", "d"]) for d in matched}
        if s in (2, 5):
            prior = {d: "s" for d in matched}
        for d in matched:
            if kinds[d] == "big" and (rnd.random() < 0.7 or s < 2):
                prior[d] = "s"
        if rnd.random() < 0.15:
            prior[matched[-1]] = "u"
        yield {"pkgs": pkgs, "reduced": reduced, "kinds": kinds, "errs": errs, "patterns": patterns, "matched": matched,
               "ptype": ptype, "ignore": (rnd.random() < 0.5) or s in (2, 5), "prior": prior, "s": s,
               "extra_flags": rnd.sample(["-typecheck", "-source-comments", "-skip-interfaces"], rnd.randrange(0, 2))}


def outpath(d):
    return ("example.com/m/" + d).replace(".", "_").replace("-", "_") + ".v"


def go_list(root, patterns):
    p = C.run(["go", "list", "-tags", "goose", "-f", "{{.ImportPath}} {{.GoFiles}}"] + patterns, cwd=root)
    res = {}
    for l in p.stdout.splitlines():
        ip, files = l.split(" ", 1)
        res[ip] = sorted(files.strip("[]").split())
    return res


def check(ctx):
    build = C.ensure_built("C17", ["cmd"], extra_go=gomod.EXTRA_GO)
    scratch = C.scratch()
    found = False
    stats = collections.Counter()
    samples = []

    def viol(sc, what, expected, observed):
        nonlocal found
        if found:
            return
        found = True
        ctx.violation("counterexample", "goose command: " + what,
                      {"proto": "cli-cmd", "packages": sc["pkgs"], "patterns": sc["patterns"], "pattern_kind": sc["ptype"],
                       "ignore_errors": sc["ignore"], "extra_flags": sc["extra_flags"], "prior": sc["prior"]},
                      expected=expected, observed=observed)
    try:
        for sc in scenarios(ctx.seed, ctx.tier):
            root = os.path.join(scratch, "m")
            gomod.write_module(root, sc["pkgs"])
            outdir = os.path.join(root, "Goose")
            workdir = os.path.join(scratch, "work")
            shutil.rmtree(workdir, ignore_errors=True)
            if sc["ptype"] == "dirrel":
                # a relative -out is relative to the working directory, not to -dir
                os.makedirs(workdir)
                outdir = os.path.join(workdir, "gen")
            flags = (["-ignore-errors"] if sc["ignore"] else []) + sc["extra_flags"]
            # what each package translates to (with -ignore-errors), to prepare the prior state
            ref_root = os.path.join(scratch, "ref")
            gomod.write_module(ref_root, sc["pkgs"])
            gomod.run_goose(ref_root, ["-ignore-errors"] + sc["extra_flags"], ["./..."])
            ref_tree = gomod.tree(os.path.join(ref_root, "Goose"))
            old = time.time() - 100000
            for d in sc["matched"]:
                op = os.path.join(outdir, outpath(d))
                pr = sc["prior"][d]
                if pr == "a":
                    continue
                if pr == "u":
                    os.makedirs(op, exist_ok=True)       # a directory where the file should go: cannot be written
                    continue
                os.makedirs(os.path.dirname(op), exist_ok=True)
                content = ref_tree.get(outpath(d), (b"",))[0].replace(ref_root.encode(), root.encode())
                if pr == "d" or not content:
                    # stale in one of three ways: other text in front, extra text behind, truncated
                    how = (sc["s"] + len(d)) % 3
                    if how == 0 or not content:
                        content = b"(* stale *)\n" + content
                    elif how == 1:
                        content = content + b"\n(* left over from an older version *)\nDefinition old: val := #0.\n"
                    else:
                        content = content[: max(1, len(content) // 2)]
                    sc["prior"][d] = "d"
                open(op, "wb").write(content)
                os.utime(op, (old, old))
            before = gomod.tree(outdir)
            if sc["ptype"] == "dir":
                rc, out, err = gomod.run_goose(root, ["-dir", root] + flags, sc["patterns"], out=outdir, cwd=scratch)
            elif sc["ptype"] == "dirrel":
                rc, out, err = gomod.run_goose(root, ["-dir", root] + flags, sc["patterns"], out="gen", cwd=workdir)
                stray = gomod.tree(os.path.join(root, "gen"))
                if stray:
                    viol(sc, "with -dir and a relative -out, files were written below the module directory instead of the working directory",
                         "files under <working directory>/gen only", {"files_under_module_dir/gen": sorted(stray)})
            else:
                rc, out, err = gomod.run_goose(root, flags, sc["patterns"], out=outdir)
            after = gomod.tree(outdir)
            stats["scenarios"] += 1
            stats["pattern_" + sc["ptype"]] += 1
            # ---- source selection vs the Go toolchain
            listed = go_list(root, sc["patterns"])
            want_pkgs = {"example.com/m/" + d for d in sc["matched"]}
            if set(listed) != want_pkgs:
                raise C.Infra("generator and go list disagree on matched packages: %s vs %s" % (sorted(listed), sorted(want_pkgs)))
            # ---- the model
            order = sorted(sc["matched"], key=lambda d: "example.com/m/" + d)
            line = "cmd %d 0 %s" % (1 if sc["ignore"] else 0, " ".join("%s %d %s" % ("example.com/m/" + d, 2 if sc["kinds"][d] in ("broken", "twoffi") else 1 if sc["errs"][d] else 0, sc["prior"][d]) for d in order))
            model = C.driver("cli", [line])[0] if build.driver_ok else None
            # ---- the property, clause by clause
            any_err = any(sc["errs"][d] for d in sc["matched"])
            unwritable = [d for d in sc["matched"] if sc["prior"][d] == "u" and (not sc["errs"][d] or sc["ignore"]) and sc["kinds"][d] not in ("broken", "twoffi")]
            crashed = "goroutine " in err and "panic" in err
            if crashed:
                viol(sc, "crashed", "no stack trace", err[:600])
                continue
            if not unwritable:
                if (rc == 0) != (not any_err):
                    viol(sc, "exit status", "exit 0 exactly when every matched package translated without error (errors: %s)" % {d: sc["errs"][d] for d in sc["matched"]},
                         {"exit": rc, "stderr": err[-500:]})
                for d in sc["matched"]:
                    op = outpath(d)
                    should_exist_new = (not sc["errs"][d]) or (sc["ignore"] and sc["kinds"][d] not in ("broken", "twoffi"))
                    pr = sc["prior"][d]
                    if should_exist_new:
                        if op not in after:
                            viol(sc, "file placement", "file %s written" % op, {"files": sorted(after)})
                            continue
                        content = after[op][0].replace(root.encode(), b"<ROOT>")
                        if content != (ref_tree.get(op, (b"",))[0]).replace(ref_root.encode(), b"<ROOT>"):
                            viol(sc, "file content differs from goose's own translation of that package", op, content[:300].decode(errors="replace"))
                        if pr == "s" and (after[op][1], after[op][2]) != (before[op][1], before[op][2]):
                            viol(sc, "a file whose content would not change was rewritten", "%s untouched" % op, "mtime/inode changed")
                        if pr == "d" and after[op][1] == before[op][1]:
                            viol(sc, "a stale file was not rewritten", "%s rewritten" % op,
                                 {"mtime": "unchanged", "old_content_tail": before[op][0][-120:].decode(errors="replace")})
                    else:
                        # conversion error without -ignore-errors: goose writes nothing for it
                        if pr == "a" and op in after:
                            viol(sc, "a package with a conversion error was written without -ignore-errors", "no file %s" % op, {"files": sorted(after)})
                        if pr in ("s", "d") and after.get(op) != before.get(op):
                            viol(sc, "a package with a conversion error touched its old output without -ignore-errors", "%s untouched" % op, "changed")
                extra = set(after) - {outpath(d) for d in sc["matched"]}
                if extra:
                    viol(sc, "files outside the derived paths were written", "only %s" % sorted(outpath(d) for d in sc["matched"]), sorted(extra))
            else:
                if rc == 0:
                    viol(sc, "exit status with an unwritable output path", "non-zero", {"exit": rc})
            # ---- partial output = exactly the declarations that translated (when every output path could be written: after a failed
            #      write the command stops with a non-zero status, and what it had not reached yet keeps its earlier content)
            if sc["ignore"] and not unwritable:
                red_root = os.path.join(scratch, "red")
                gomod.write_module(red_root, {d: sc["reduced"][d] for d in sc["matched"]})
                gomod.run_goose(red_root, sc["extra_flags"], ["./..."])
                red_tree = gomod.tree(os.path.join(red_root, "Goose"))
                for d in sc["matched"]:
                    if sc["kinds"][d] != "mixed" or sc["prior"][d] == "u" or "-source-comments" in sc["extra_flags"]:
                        continue
                    op = outpath(d)
                    if op in after and op in red_tree and after[op][0] != red_tree[op][0]:
                        stats["partial_checked"] += 1
                        viol(sc, "partial output is not exactly the declarations that translated",
                             red_tree[op][0].decode()[:1500], after[op][0].decode()[:1500])
                    elif op in after:
                        stats["partial_checked"] += 1
            # ---- build tag
            for d in sc["matched"]:
                op = outpath(d)
                written_now = (not sc["errs"][d]) or (sc["ignore"] and sc["kinds"][d] not in ("broken", "twoffi"))    # else the file is the planted older one
                if "tag_goose.go" in sc["pkgs"][d] and op in after and not unwritable and written_now:
                    txt = after[op][0].decode()
                    stats["tagged_packages"] += 1
                    if "OnlyGoose" not in txt or "NotGoose" in txt:
                        viol(sc, "sources selected differ from `go list -tags goose`", listed.get("example.com/m/" + d), "OnlyGoose present: %s, NotGoose present: %s" % ("OnlyGoose" in txt, "NotGoose" in txt))
            # ---- model vs code
            if model is not None and not found:
                w = model.split()
                m_exit = int(w[1])
                m_written = set() if w[3] == "-" else set(w[3].split(","))
                real_written = {p for p in after if p not in before or (after[p][1], after[p][2]) != (before[p][1], before[p][2])}
                if (m_exit == 0) != (rc == 0) or (not unwritable and m_written != real_written):
                    stats["model_disagreements"] += 1
                    if not any(b["kind"] == "correspondence" for b in build.broken):
                        build.broken.append({"kind": "correspondence", "name": "cli: Lean Cmd.run vs cmd/goose",
                                             "detail": "model `%s` vs exit %d written %s (scenario %d)" % (model, rc, sorted(real_written), sc["s"])})
            if len(samples) < 2:
                samples.append({"patterns": sc["patterns"], "flags": flags, "kinds": sc["kinds"], "prior": sc["prior"], "exit": rc, "files": sorted(after), "model": model})
            for r in ("m", "ref", "red"):
                shutil.rmtree(os.path.join(scratch, r), ignore_errors=True)
        # ---- two packages whose import paths map to the same Coq path ('-', '.' and '_' all become '_'): one output file cannot hold
        #      both translations; the command must say so (non-zero exit) instead of silently keeping one
        fn2 = "func %s() uint64 {\n\treturn 1\n}\n"
        # (with packages between the colliding ones in the sorted order: a sub-package of the first, an unrelated one)
        col = {"a-b": {"f.go": "package ab\n\n" + fn2 % "Dash"}, "a_b": {"f.go": "package a_b\n\n" + fn2 % "Under"}, "a.b": {"f.go": "package ab\n\n" + fn2 % "Dot"},
               "a-b/sub": {"f.go": "package sub\n\n" + fn2 % "Sub"}, "a-c": {"f.go": "package ac\n\n" + fn2 % "Other"}}
        root = os.path.join(scratch, "col")
        gomod.write_module(root, col)
        rc, out, err = gomod.run_goose(root, [], ["./..."], out=os.path.join(root, "Goose"))
        t = gomod.tree(os.path.join(root, "Goose"))
        stats["colliding_path_scenarios"] += 1
        ncol = sum(1 for d in col if d in ("a-b", "a_b", "a.b"))
        if rc == 0 and len(t) < len(col) and not found:
            found = True
            ctx.violation("counterexample", "goose command: packages whose Coq paths coincide overwrite each other's output and the command exits 0",
                          {"proto": "cli-cmd", "packages": col, "patterns": ["./..."]}, expected="one file per translated package, or a non-zero exit status that reports the collision",
                          observed={"exit": rc, "files": sorted(t), "definitions": sorted(re.findall(r"^Definition (\w+):", "".join(v[0].decode() for v in t.values()), re.M))})
        if build.driver_ok and not found:
            mline = "cmd 0 0 " + " ".join("example.com/m/%s 0 a" % d for d in sorted(col))
            mo = C.driver("cli", [mline])[0].split()
            m_written = set() if mo[3] == "-" else set(mo[3].split(","))
            if (int(mo[1]) == 0) != (rc == 0) or m_written != set(t):
                build.broken.append({"kind": "correspondence", "name": "cli: Lean Cmd.run vs cmd/goose (colliding output paths)",
                                     "detail": "model `%s` vs exit %d files %s" % (" ".join(mo), rc, sorted(t))})
        shutil.rmtree(root, ignore_errors=True)
        # … and exactly two colliding packages that are NOT neighbours in the sorted order (a sub-package of the first lies between)
        col2 = {"x/a-b": {"f.go": "package ab\n\n" + fn2 % "Dash"}, "x/a-b/sub": {"f.go": "package sub\n\n" + fn2 % "Sub"}, "x/a_b": {"f.go": "package a_b\n\n" + fn2 % "Under"}}
        for pats in (["./..."], ["./x/a-b", "./x/a-b/sub", "./x/a_b"]):
            root = os.path.join(scratch, "col2")
            gomod.write_module(root, col2)
            rc, out, err = gomod.run_goose(root, [], pats, out=os.path.join(root, "Goose"))
            t = gomod.tree(os.path.join(root, "Goose"))
            stats["colliding_path_scenarios"] += 1
            if rc == 0 and len(t) < len(col2) and not found:
                found = True
                ctx.violation("counterexample", "goose command: packages whose Coq paths coincide overwrite each other's output and the command exits 0",
                              {"proto": "cli-cmd", "packages": col2, "patterns": pats}, expected="one file per translated package, or a non-zero exit status that reports the collision",
                              observed={"exit": rc, "files": sorted(t), "definitions": sorted(re.findall(r"^Definition (\w+):", "".join(v[0].decode() for v in t.values()), re.M))})
            shutil.rmtree(root, ignore_errors=True)
        # ---- a module whose path has a single element, and files selected by other build constraints than `goose`
        fn = "func %s() uint64 {\n\treturn 1\n}\n"
        one = {"": {"r.go": "package m\n\n" + fn % "Root"},
               "sub": {"s.go": "package sub\n\n" + fn % "Sub",
                       "linux.go": "//go:build linux\n\npackage sub\n\n" + fn % "OnLinux",
                       "go118.go": "//go:build go1.18\n\npackage sub\n\n" + fn % "OnGo118",
                       "either.go": "//go:build windows || go1.1\n\npackage sub\n\n" + fn % "Either",
                       "win.go": "//go:build windows\n\npackage sub\n\n" + fn % "OnWindows",
                       "both.go": "//go:build goose && linux\n\npackage sub\n\n" + fn % "GooseLinux",
                       "notgoose.go": "//go:build !goose\n\npackage sub\n\n" + fn % "NotGoose"}}
        root = os.path.join(scratch, "one")
        gomod.write_module(root, one, module="m")
        rc, out, err = gomod.run_goose(root, [], ["./..."], out=os.path.join(root, "Goose"))
        t = gomod.tree(os.path.join(root, "Goose"))
        stats["single_element_module"] += 1
        if rc != 0 or sorted(t) != ["m.v", "m/sub.v"]:
            if not found:
                found = True
                ctx.violation("counterexample", "goose command: file placement for a module whose path has one element",
                              {"proto": "cli-cmd", "module": "m", "packages": one, "patterns": ["./..."]}, expected={"exit": 0, "files": ["m.v", "m/sub.v"]},
                              observed={"exit": rc, "files": sorted(t), "stderr": err[-400:]})
        else:
            name_of = {"s.go": "Sub", "linux.go": "OnLinux", "go118.go": "OnGo118", "either.go": "Either", "win.go": "OnWindows", "both.go": "GooseLinux", "notgoose.go": "NotGoose"}
            # … in the caller's environment, and with another target platform in the environment (GOOS/GOARCH select files too)
            for envx in ({}, {"GOOS": "windows", "GOARCH": "arm64"}, {"GOOS": "darwin"}):
                env = dict(C.GOENV)
                env.update(envx)
                p2 = C.run(["go", "list", "-tags", "goose", "-f", "{{.GoFiles}}", "./sub"], cwd=root, env=env)
                listed = sorted(p2.stdout.strip().strip("[]").split())
                if not listed:
                    raise C.Infra("go list failed under %s: %s" % (envx, p2.stderr[-300:]))
                want = sorted(name_of[f] for f in listed)
                if envx:
                    shutil.rmtree(os.path.join(root, "Goose"), ignore_errors=True)
                    rc, out, err = gomod.run_goose(root, [], ["./..."], out=os.path.join(root, "Goose"), env_extra=envx)
                    t = gomod.tree(os.path.join(root, "Goose"))
                    if "m/sub.v" not in t:
                        if not found:
                            found = True
                            ctx.violation("counterexample", "goose command under another target platform in the environment", {"proto": "cli-cmd", "module": "m", "packages": {"sub": one["sub"]}, "env": envx},
                                          expected={"files": listed}, observed={"exit": rc, "stderr": err[-400:]})
                        continue
                txt = t["m/sub.v"][0].decode()
                got = sorted(re.findall(r"^Definition (\w+):", txt, re.M))
                stats["constraint_files_listed"] += len(listed)
                if got != want and not found:
                    found = True
                    ctx.violation("counterexample", "sources selected differ from `go list -tags goose` (build constraints other than the goose tag)",
                                  {"proto": "cli-cmd", "module": "m", "packages": {"sub": one["sub"]}, "env": envx}, expected={"files": listed, "definitions": want}, observed={"definitions": got})
        found = gomod.retranslate_stream(ctx, scratch, "goose command: a stale output file was not replaced by the new translation", found)
    finally:
        shutil.rmtree(scratch, ignore_errors=True)
    C.report_broken_obligations(ctx, build, found)
    ctx.coverage.update({
        "evaluations": stats["scenarios"],
        "distinct_nontrivial": stats["scenarios"],
        "rule": "generated modules of 1-4 packages (directory names with '-', '.', nesting), each good / bad (every file has an untranslatable "
                "declaration) / mixed, optionally with //go:build goose and !goose files; pattern sets ./..., explicit directories, import paths, "
                "subsets, -dir from another working directory; -ignore-errors on/off plus one of the cosmetic flags; prior output state per package: "
                "absent / identical / stale / a directory in the file's place; all scenarios distinct",
        "samples": samples,
        "stats": dict(stats),
    })
    if ctx.tier == "thorough" and not build.broken:
        ok, out = C.leanchecker("GooseVerif.Props.C17")
        ctx.coverage["leanchecker"] = "ok" if ok else out
    ctx.assumptions += [
        "the per-package translation result (error or not, content) is an input of the model: C01-C07 are about it",
        "source selection is compared with `go list -tags goose` as the oracle (tool-chain behaviour: partial)",
        "checks run as root, so 'unwritable' is realised by a directory in the file's place",
    ]
    return ctx.finish(build)


def replay(ctx, path):
    _inp = json.load(open(path)).get("input", {})
    if isinstance(_inp, dict) and _inp.get("proto") == "retranslate":
        C.ensure_built("C17", ["cmd"], need_harness=False, extra_go=gomod.EXTRA_GO)
        return gomod.replay_retranslate(_inp)
    return check(ctx)
