"""C09 — disks are arrays of independent 4096-byte registers; Mem ≡ File.

Proof: Props/C09.lean (refinement of MemDisk and FileDisk models to the register array, for
every history). Tie: regenerated declarations of machine/disk and machine/async_disk (rfl against
Expected) + differential runs of the six real variants (mem, file, through async_disk, through
the global wrappers) against the compiled models; a disagreement is judged by the executable
register-array specification (driver `disk spec`), shrunk, and written as the replay.
"""
import collections
import json
import os
import shutil

import common as C

LEVEL = "proof"
IMPLS = ["mem", "file", "amem", "afile", "gmem", "gfile"]
MODEL_OF = {"mem": "mem", "amem": "mem", "gmem": "mem", "file": "file", "afile": "file", "gfile": "file"}


def is_start(op):
    return op.startswith("new")


def run_real(impl, ops, scratch):
    out = C.hcorr("disk", "run", ["-impl", impl, "-scratch", scratch], input="\n".join(ops) + "\n", timeout=1800)
    if len(out) != len(ops):
        raise C.Infra("disk run %s answered %d lines for %d ops" % (impl, len(out), len(ops)))
    return out


def changed_decls():
    """Names of declarations whose regenerated text differs from the expectation (for the replay)."""
    import re
    pat = re.compile(r'\("((?:[^"\\]|\\.)*)", "((?:[^"\\]|\\.)*)"\)')
    try:
        g = dict(pat.findall(open(os.path.join(C.GEN, "DiskFacts.lean")).read()))
        e = dict(pat.findall(open(os.path.join(C.LEAN, "GooseVerif", "Expected", "DiskFacts.lean")).read()))
    except OSError:
        return []
    return sorted(k for k in set(g) | set(e) if g.get(k) != e.get(k))


def explore(ctx, build, streams, impls_for, prop_name):
    """Shared by C09 and C11. Returns (found_counterexample, stats)."""
    scratch = C.scratch()
    stats = {"ops": 0, "histories": 0, "per_stream": {}, "replies": collections.Counter(), "samples": [],
             "model_disagreements": 0, "spec_disagreements": 0, "distinct": set()}
    found = False
    try:
        for stream in streams:
            ops = C.hcorr("disk", "gen", ["-seed", str(ctx.seed), "-tier", ctx.tier, "-stream", stream])
            spec = C.driver("disk spec".split()[0], ops) if False else None
            spec = C.run([C.DRIVER, "disk", "spec"], input="\n".join(ops) + "\n", env=os.environ.copy()).stdout.splitlines() if build.driver_ok else None
            models = {}
            hs = C.split_histories(ops, is_start)
            stats["ops"] += len(ops)
            stats["histories"] += len(hs)
            stats["per_stream"][stream] = {"ops": len(ops), "histories": len(hs), "impls": impls_for(stream)}
            for idxs in hs:
                stats["distinct"].add("\n".join(ops[i] for i in idxs))
            for impl in impls_for(stream):
                real = run_real(impl, ops, scratch)
                for r in real:
                    stats["replies"][r.split()[0]] += 1
                if len(stats["samples"]) < 3:
                    k = hs[min(1, len(hs) - 1)]
                    stats["samples"].append({"impl": impl, "stream": stream,
                                             "history": [{"op": ops[i], "code": real[i]} for i in k[:14]]})
                if spec is not None:
                    fh = C.failing_histories(ops, real, spec, is_start)
                    stats["spec_disagreements"] += len(fh)
                    if fh:
                        hist, _ = fh[0]

                        def fails(cand, impl=impl):
                            rr = run_real(impl, cand, scratch)
                            ss = C.run([C.DRIVER, "disk", "spec"], input="\n".join(cand) + "\n", env=os.environ.copy()).stdout.splitlines()
                            return rr != ss
                        small = C.shrink_history(hist, fails)
                        rr = run_real(impl, small, scratch)
                        ss = C.run([C.DRIVER, "disk", "spec"], input="\n".join(small) + "\n", env=os.environ.copy()).stdout.splitlines()
                        if not handle_counterexample(ctx, prop_name, impl, stream, small, ss, rr):
                            found = True
                        continue
                # model vs code (only meaningful when the specification has no complaint)
                mk = MODEL_OF[impl]
                if stream in ("big", "huge") or not build.driver_ok:
                    continue
                if mk not in models:
                    models[mk] = C.run([C.DRIVER, "disk", mk], input="\n".join(ops) + "\n", env=os.environ.copy()).stdout.splitlines()
                fh = C.failing_histories(ops, real, models[mk], is_start)
                if fh:
                    stats["model_disagreements"] += len(fh)
                    hist, k = fh[0]
                    build.broken.append({"kind": "correspondence", "name": "disk: Lean %s model vs %s" % (mk, impl),
                                         "detail": "model and code disagree although the specification is met; first at op %d of history %s" % (k, hist[:k + 1][-4:])})
    finally:
        shutil.rmtree(scratch, ignore_errors=True)
    return found, stats


KNOWN_CACHE = {}


def handle_counterexample(ctx, prop, impl, stream, ops, want, got):
    """Returns True when the counterexample is a listed known finding (not a violation)."""
    for e in C.load_known(prop):
        if e.get("status") != "known":
            continue
        m = e.get("match", {})
        if m.get("ops") == ops:
            if e["key"] not in KNOWN_CACHE:
                KNOWN_CACHE[e["key"]] = True
                ctx.known("%s — %s" % (e["key"], e["what"]))
            return True
    key = (prop, impl)
    if key in KNOWN_CACHE:
        return False
    KNOWN_CACHE[key] = True
    ctx.violation("counterexample", "disk (%s, stream %s): real implementation vs register-array specification" % (impl, stream),
                  {"proto": "disk", "impl": impl, "ops": ops}, expected=want, observed=got)
    return False


def check(ctx):
    build = C.ensure_built("C09", ["disk"])
    # (`huge`: block counts whose byte length is not a file offset; were such a disk opened, blocks whose byte offsets agree
    #  modulo 2^64 would be ONE register — the specification refuses them, as Props/C11 `not_openable_iff` says the code does)
    streams = ["core", "big", "huge"] if ctx.tier == "quick" else ["core", "big", "huge", "shortbuf"]

    def impls_for(stream):
        if stream in ("big", "huge"):
            return ["file", "afile", "gfile"]
        return IMPLS
    # the shortbuf stream (ReadTo into a non-block buffer) is outside the property's quantifier:
    # only the models are compared there, never the specification
    found, stats = explore_c09(ctx, build, streams, impls_for)
    if short_write_scenarios(ctx, build, stats, found):
        found = True
    if build.broken and not found:
        ch = changed_decls()
        if ch:
            for b in build.broken:
                if b["kind"] == "proof-obligation":
                    b["detail"] += " | declarations that differ from Expected: " + ", ".join(ch)
    C.report_broken_obligations(ctx, build, found)
    finish_cov(ctx, stats)
    if ctx.tier == "thorough" and not build.broken:
        ok, out = C.leanchecker("GooseVerif.Props.C09")
        ctx.coverage["leanchecker"] = "ok" if ok else out
    ctx.assumptions += [
        "Linux pread/pwrite/ftruncate on a regular file behave as Model/Disk.lean's OS-file model says (sampled by every file-backed run)",
        "offset arithmetic is modelled in unbounded Nat; NewFileDisk refuses block counts above MaxInt64/BlockSize and for every disk it opens the uint64/int64 offsets equal the Nat ones (Props/C11 openable_offsets_exact); the `big` stream exercises offsets beyond 2^32 bytes on sparse files",
        "ReadTo into a buffer that is not 4096 bytes is outside the quantifier (MemDisk copies a prefix, FileDisk panics): compared against the models only",
        "hand-written models are tied by canonical declaration text (any edit of machine/disk breaks facts_ok) and by sampling",
    ]
    return ctx.finish(build)


def short_write_scenarios(ctx, build, stats, found):
    """A pwrite that the kernel cuts short (RLIMIT_FSIZE inside the block, SIGXFSZ ignored) reports a byte count, not an error.
    C09's reading: a Write that RETURNS has stored exactly its block, and no Write — returned or panicked — touches another block.
    (That the failure is reported at all is C11's business; here a panic is accepted.)"""
    if not build.driver_ok:
        return False
    hit = False
    n = agree = 0
    for a in (2, 0):
        for cut in (1, 100, 3000, 4095):
            ops = ["new 4", "buf 4096 7", "buf 4096 9", "write %d 0" % a, "write %d 0" % ((a + 1) % 4), "fsize %d" % (a * 4096 + cut),
                   "write %d 1" % a, "read %d" % a, "read %d" % ((a + 1) % 4), "read %d" % ((a + 3) % 4)]
            plain = [o for o in ops if not o.startswith("fsize")]
            ss = C.run([C.DRIVER, "disk", "spec"], input="\n".join(plain) + "\n", env=os.environ.copy()).stdout.splitlines()
            ss = ss[:5] + ["ok"] + ss[5:]
            for impl in ("file", "afile", "gfile"):
                scratch = C.scratch()
                try:
                    rr = run_real(impl, ops, scratch)
                finally:
                    shutil.rmtree(scratch, ignore_errors=True)
                n += 1
                stats["ops"] += len(ops)
                if len(rr) != len(ops) or any(r.startswith("harness-error") or r in ("bad-op", "unsupported") for r in rr):
                    raise C.Infra("C09 short-write scenario could not be set up (%s): %s" % (impl, rr))
                want = list(ss)
                if rr[6] == "panic":
                    want[6] = "panic"
                    want[7] = rr[7]        # the block of a Write that panicked is unspecified by C09 …
                    # … but Model/ShortWrite predicts it (Props/C09 write_panic_prefix): the kernel's schedule under this limit is
                    # "cut bytes, then EFBIG", and the block must be the first `cut` new bytes over the old ones
                    mm = C.run([C.DRIVER, "disk", "sw"], input="sw 4096 7 9 %d e\n" % cut, env=os.environ.copy()).stdout.split()
                    got = rr[7].split()
                    if len(mm) == 3 and mm[0] == "panic" and len(got) == 3 and got[2] == mm[1]:
                        agree += 1
                    else:
                        build.broken.append({"kind": "correspondence", "name": "disk: Lean ShortWrite model vs %s" % impl,
                                             "detail": "after a Write cut short at byte %d and then refused, the model leaves %s, the code %s"
                                                       % (cut, mm, got)})
                if rr != want and not (found or hit):
                    hit = True
                    ctx.violation("counterexample", "disk (%s): a Write cut short by the file-size limit returned normally but the block "
                                  "(or a neighbour) does not hold what the register array holds" % impl,
                                  {"proto": "disk", "impl": impl, "ops": ops, "scenario": "short-write"}, expected=want, observed=rr)
    # the read loop (Props/C09 readto_panic_prefix): an image truncated behind the disk's back inside block 2 makes pread return
    # `cut` bytes and then 0; ReadTo panics having overwritten exactly a prefix of the caller's used buffer
    rn = ragree = 0
    for cut in (0, 1, 100, 3000, 4095):
        ops = ["new 4", "buf 4096 7", "write 2 0", "extrunc %d" % (2 * 4096 + cut), "buf 4096 5", "readto 2 1", "peek 1"]
        mm = C.run([C.DRIVER, "disk", "sw"], input="sr 4096 7 5 %s0\n" % ("%d " % cut if cut else ""), env=os.environ.copy()).stdout.split()
        for impl in ("file", "afile", "gfile"):
            scratch = C.scratch()
            try:
                rr = run_real(impl, ops, scratch)
            finally:
                shutil.rmtree(scratch, ignore_errors=True)
            rn += 1
            stats["ops"] += len(ops)
            if len(rr) != len(ops) or any(r.startswith("harness-error") or r in ("bad-op", "unsupported") for r in rr):
                raise C.Infra("C09 short-read scenario could not be set up (%s): %s" % (impl, rr))
            if len(mm) == 2 and [rr[5], rr[6]] == [mm[0], "bytes 4096 " + mm[1]]:
                ragree += 1
            else:
                build.broken.append({"kind": "correspondence", "name": "disk: Lean ShortWrite read-loop model vs %s" % impl,
                                     "detail": "ReadTo of a block of which only %d bytes exist: the model says %s, the code %s" % (cut, mm, rr[5:])})
    stats["short_read_runs"] = rn
    stats["short_read_model_agreements"] = ragree
    stats["short_write_runs"] = n
    stats["short_write_model_agreements"] = agree
    return hit


def explore_c09(ctx, build, streams, impls_for):
    core = [s for s in streams if s != "shortbuf"]
    found, stats = explore(ctx, build, core, impls_for, "C09")
    if "shortbuf" in streams and build.driver_ok:
        scratch = C.scratch()
        try:
            ops = C.hcorr("disk", "gen", ["-seed", str(ctx.seed), "-tier", ctx.tier, "-stream", "shortbuf"])
            for impl in IMPLS:
                real = run_real(impl, ops, scratch)
                model = C.run([C.DRIVER, "disk", MODEL_OF[impl]], input="\n".join(ops) + "\n", env=os.environ.copy()).stdout.splitlines()
                fh = C.failing_histories(ops, real, model, is_start)
                if fh:
                    build.broken.append({"kind": "correspondence", "name": "disk shortbuf: Lean %s model vs %s" % (MODEL_OF[impl], impl),
                                         "detail": "first failing history starts %s" % fh[0][0][:5]})
            stats["ops"] += len(ops)
            stats["per_stream"]["shortbuf"] = {"ops": len(ops), "impls": IMPLS, "compared_with": "models only"}
        finally:
            shutil.rmtree(scratch, ignore_errors=True)
    return found, stats


def finish_cov(ctx, stats):
    ctx.coverage.update({
        "evaluations": stats["ops"],
        "distinct_nontrivial": len(stats["distinct"]),
        "rule": "histories drawn by `hcorr disk gen` from one splitmix64 stream (VERIF_SEED): disk sizes 0..64 (and sparse "
                "disks beyond 2^20 blocks for the file variants), ops buf/poke/peek/read/readto/write/size/barrier with in-range, "
                "boundary (size-1, size, size+k) and extreme (2^52.., 2^63, 2^64-1) addresses, block-sized and wrong-sized "
                "buffers, buffer re-use and mutation after Write / of Read results, a final read-back sweep; evaluations = ops "
                "generated (each executed on every listed variant); distinct_nontrivial = distinct histories (all have >= 5 ops)",
        "samples": stats["samples"],
        "per_stream": stats["per_stream"],
        "short_write_runs": stats.get("short_write_runs", 0),
        "short_write_model_agreements": stats.get("short_write_model_agreements", 0),
        "short_read_runs": stats.get("short_read_runs", 0),
        "short_read_model_agreements": stats.get("short_read_model_agreements", 0),
        "reply_kinds_observed": dict(stats["replies"]),
        "spec_disagreements": stats["spec_disagreements"],
        "model_disagreements": stats["model_disagreements"],
    })


def replay(ctx, path):
    obj = json.load(open(path))
    build = C.ensure_built(ctx.prop, ["disk"])
    inp = obj["input"]
    if "ops" not in inp:
        return check(ctx)
    scratch = C.scratch()
    try:
        rr = run_real(inp["impl"], inp["ops"], scratch)
        plain = [o for o in inp["ops"] if not o.startswith("fsize")]
        ss = C.run([C.DRIVER, "disk", "spec"], input="\n".join(plain) + "\n", env=os.environ.copy()).stdout.splitlines()
        if inp.get("scenario") == "short-write":     # see short_write_scenarios
            k = [i for i, o in enumerate(inp["ops"]) if o.startswith("fsize")][0]
            ss = ss[:k] + ["ok"] + ss[k:]
            if len(rr) > k + 2 and rr[k + 1] == "panic":
                ss[k + 1], ss[k + 2] = "panic", rr[k + 2]
    finally:
        shutil.rmtree(scratch, ignore_errors=True)
    for o, s, r in zip(inp["ops"], ss, rr):
        print("%-28s spec=%-32s code=%s%s" % (o, s, r, "" if s == r else "   <-- differs"))
    return 1 if rr != ss else 0
