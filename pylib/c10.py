"""C10 — concurrent disk operations are linearizable per block.

Proof: Props/C10.lean (generic lock theorem instantiated with the MemDisk protocol whose lock modes
are read from the regenerated lock summaries). Correspondence / search: client goroutines hammer
the real MemDisk and FileDisk; every history is checked with porcupine against the register array,
reads are checked for torn blocks, and the same workload runs under the race detector.
"""
import json
import shutil

import common as C
import conc

LEVEL = "proof"


def check(ctx):
    build = C.ensure_built("C10", ["disk"], extra_go=conc.EXTRA_GO)
    scratch = C.scratch()
    found = False
    stats = {}
    samples = []
    quick = ctx.tier == "quick"
    plans = [
        ("mem", False, ["-rounds", "60" if quick else "1500", "-threads", "4", "-ops", "60"]),
        ("mem", False, ["-rounds", "20" if quick else "300", "-threads", "8", "-ops", "40"]),
        ("file", False, ["-rounds", "40" if quick else "800", "-threads", "4", "-ops", "60"]),
        ("mem", True, ["-rounds", "15" if quick else "200", "-threads", "6", "-ops", "50"]),
        ("file", True, ["-rounds", "10" if quick else "100", "-threads", "4", "-ops", "40"]),
    ]
    try:
        for k, (impl, race, args) in enumerate(plans):
            rounds, report = conc.run_hconc("disk", ["-impl", impl, "-seed", str(ctx.seed * 100 + k), "-scratch", scratch] + args, race=race)
            key = "%s%s#%d" % (impl, "-race" if race else "", k)
            stats[key] = conc.summarize(rounds)
            if not samples and rounds:
                samples.append({"impl": impl, "round": rounds[0]})
            bad = [r for r in rounds if r["linearizable"] == "Illegal" or r.get("torn")]
            if bad and not found:
                found = True
                r = bad[0]
                ctx.violation("counterexample", "disk (%s): concurrent history not linearizable w.r.t. the register array%s"
                              % (impl, " / torn block" if r.get("torn") else ""),
                              {"proto": "hconc-disk", "impl": impl, "args": args, "history": r.get("history")},
                              expected="a total order of the operations, consistent with real time, in which every read returns the last written whole block",
                              observed=r.get("torn") or r.get("problem") or "porcupine: Illegal")
            if report and not found:
                found = True
                ctx.violation("counterexample", "disk (%s): the race detector reports a data race inside the library" % impl,
                              {"proto": "hconc-disk-race", "impl": impl, "args": args}, expected="no data race", observed=report)
        # ---- the one-client case on a large sparse file disk: operations on distinct addresses (also addresses that agree modulo
        #      2^20 or 2^32) never interfere
        import c09
        f2, st2 = c09.explore(ctx, build, ["big"], lambda s: ["file"], "C10")
        stats["sequential-big-file"] = {"rounds": st2["histories"], "operations": st2["ops"], "overlapping_pairs": 0, "verdicts": {}}
        found = found or f2
    finally:
        shutil.rmtree(scratch, ignore_errors=True)
    C.report_broken_obligations(ctx, build, found)
    total = sum(s["operations"] for s in stats.values())
    ctx.coverage.update({
        "evaluations": total,
        "distinct_nontrivial": sum(s["rounds"] for s in stats.values()),
        "rule": "each round: a fresh 3-block disk, 4-8 goroutines x 40-60 random Read/Write/Size ops on two hot addresses (plus out-of-range "
                "ones); writers write uniform blocks with a unique value so a torn block is self-evident; histories with "
                "invocation/response timestamps are checked by porcupine (partitioned per address); the same workload runs under "
                "-race. evaluations = operations executed; distinct_nontrivial = rounds (histories); overlapping_pairs measures how "
                "concurrent the histories really were",
        "samples": samples,
        "per_plan": stats,
    })
    if ctx.tier == "thorough" and not build.broken:
        ok, out = C.leanchecker("GooseVerif.Props.C10")
        ctx.coverage["leanchecker"] = "ok" if ok else out
    ctx.assumptions += [
        "sync.RWMutex gives reader/writer exclusion (modelled by the Step relation's guards)",
        "FileDisk: the kernel's atomicity of pread/pwrite on overlapping ranges is assumed; only commutation of distinct addresses is proved",
        "the Go scheduler and memory model are not modelled: stress runs + race detector are supporting evidence (partial)",
    ]
    return ctx.finish(build)


def replay(ctx, path):
    return check(ctx)
