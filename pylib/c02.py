"""C02 — outside the subset goose rejects instead of mistranslating.

Tie (T-corr): every entry of the catalogue pylib/c02cat.py (out-of-subset statements, control-flow
shapes, declaration forms, look-alikes of builtins and FFI packages) is placed at every position of
a set of subset contexts; each resulting function is compiled and run natively on fixed argument
vectors, translated by the REAL goose with -ignore-errors, and — when goose accepts it — evaluated
by the Lean reference interpreter.  A function must be rejected or agree with Go on every vector."""
import collections
import json
import os
import sys
import re
import shutil

import common as C
import gomod
import gogen
import k4
import c02cat
import trcorr

LEVEL = "proof"


def catalogue_package():
    fns = c02cat.functions()
    src = "package p\n" + c02cat.HELPERS + "\n" + "\n".join(f[3] for f in fns)
    runner = [gogen.PRINTER, "func RunAll() {"]
    calls = []
    for name, eid, cid, _ in fns:
        for vi, (a, b) in enumerate(c02cat.ARGS):
            runner.append('\tcall("%s#%d", func() string { return show(%s(uint64(%d), uint64(%d))) })' % (name, vi, name, a, b))
            calls.append(("%s#%d" % (name, vi), name, ["u64:%d" % a, "u64:%d" % b]))
    runner.append("}")
    files = {"p/p.go": src, "p/run.go": "\n".join(runner),
             "cmd/main.go": "package main\n\nimport \"example.com/m/p\"\n\nfunc main() {\n\tp.RunAll()\n}\n"}
    return fns, files, calls


def lookalike_package(src, extra):
    # the runner lives in package main: package p may redefine len, append, …
    printer = gogen.PRINTER.replace("//go:build !goose\n\npackage p", "package main").replace("import (", "import (\n\t\"example.com/m/p\"", 1)
    files = {"p/p.go": src,
             "cmd/main.go": printer + "\nfunc main() {\n\tcall(\"F#0\", func() string { return show(p.F()) })\n}\n"}
    for d, fs in extra.items():
        for fn, content in fs.items():
            files["%s/%s" % (d, fn)] = content
    return files, [("F#0", "F", [])]


def known_entries():
    return {e["match"]["entry"]: e for e in C.load_known("C02") if e.get("status") == "known" and "entry" in e.get("match", {})}


def check(ctx, build=None):
    if build is None:
        build = C.ensure_built("C02", ["guards", "translator", "printer"], need_harness=False, extra_go=gomod.EXTRA_GO)
    if not build.driver_ok:
        raise C.Infra("the Lean driver does not build; the interpreter is needed for C02")
    scratch = C.scratch()
    found = False
    stats = collections.Counter()
    known = known_entries()
    known_hit = collections.OrderedDict()
    per_entry = collections.defaultdict(lambda: collections.Counter())
    samples = []

    def viol(what, inp, expected, observed):
        nonlocal found
        if os.environ.get("VERIF_DEBUG"):
            sys.stderr.write("debug: %s %s %s\n" % (what, json.dumps(inp)[:200], json.dumps(observed)[:300]))
        if found:
            return
        found = True
        ctx.violation("counterexample", what, inp, expected=expected, observed=observed)
    try:
        fns, files, calls = catalogue_package()
        r = k4.run_package(files, calls, os.path.join(scratch, "cat"))
        if r["parse_error"]:
            viol("C02 catalogue: the emitted file cannot be read back as GooseLang", {"proto": "k4-catalogue"}, "well-formed output", r["parse_error"])
        by_fn = collections.defaultdict(list)
        for lab, want, got in r["calls"]:
            by_fn[lab.split("#")[0]].append((lab, want, got))
        bad_by_fn = collections.defaultdict(list)
        for m in r["mismatches"]:
            bad_by_fn[m["fn"]].append(m)
        for name, eid, cid, src in ([] if r["parse_error"] else fns):
            stats["functions"] += 1
            if name in r["rejected"]:
                stats["rejected"] += 1
                per_entry[eid]["rejected"] += 1
                continue
            if name in r.get("tainted", ()):
                stats["rejected_through_a_helper"] += 1
                per_entry[eid]["rejected"] += 1
                continue
            if name in bad_by_fn:
                stats["accepted_and_wrong"] += 1
                per_entry[eid]["wrong"] += 1
                if eid in known:
                    known_hit.setdefault(eid, []).append(cid)
                    continue
                m = bad_by_fn[name][0]
                viol("C02: goose accepts an out-of-subset construct and the emitted GooseLang does not behave like Go",
                     {"proto": "k4-catalogue", "entry": eid, "context": cid, "go_source": src, "emitted": k4.emitted_def(r["text"], name), "args": m["args"]},
                     {"go": m["go"], "or": "a conversion error for this declaration"}, {"gooselang": m["gl"]})
            else:
                stats["accepted_and_faithful"] += 1
                per_entry[eid]["faithful"] += 1
                if len(samples) < 2 and eid in ("tuple-assign-swap", "copy-builtin"):
                    samples.append({"entry": eid, "context": cid, "verdict": "accepted and faithful", "go": by_fn[name][0][1], "gooselang": by_fn[name][0][2]})
        if r["order_violations"] or r["duplicates"]:
            viol("C02 catalogue: the emitted file is not readable top to bottom", {"proto": "k4-catalogue"},
                 "definitions in dependency order, each name once", {"order": r["order_violations"][:5], "duplicates": r["duplicates"]})
        # ---- look-alikes, one package each
        for lid, ent in c02cat.LOOKALIKES.items():
            src, extra = ent[0], ent[1]
            lf, lc = lookalike_package(src, extra)
            lr = k4.run_package(lf, lc, os.path.join(scratch, "look"))
            stats["lookalike_packages"] += 1
            eid = "lookalike:" + lid
            if lr["text"] is None or "F" in lr["rejected"] or lr["parse_error"] or "F" in lr.get("tainted", ()):
                per_entry[eid]["rejected"] += 1
                continue
            if len(ent) > 2:
                # uses declarations of another user package: judged on the emitted text of F
                body = k4.emitted_def(lr["text"], "F") or ""
                missing = [x for x in ent[2] if x not in body]
                if missing:
                    per_entry[eid]["wrong"] += 1
                    viol("C02: a user package that shares its name with an FFI package gets the FFI meaning",
                         {"proto": "k4-lookalike", "entry": eid, "package": {k: v for k, v in lf.items() if not k.endswith("run.go") and not k.startswith("cmd/")}, "emitted": body},
                         {"emitted_mentions": ent[2]}, {"missing": missing})
                else:
                    per_entry[eid]["faithful"] += 1
                continue
            if lr["mismatches"]:
                per_entry[eid]["wrong"] += 1
                if eid in known:
                    known_hit.setdefault(eid, []).append("package")
                    continue
                m = lr["mismatches"][0]
                viol("C02: a user declaration that shares its name with a builtin or FFI package gets the builtin meaning",
                     {"proto": "k4-lookalike", "entry": eid, "package": {k: v for k, v in lf.items() if not k.endswith("run.go") and not k.startswith("cmd/")},
                      "emitted": k4.emitted_def(lr["text"], "F")}, {"go": m["go"], "or": "a conversion error"}, {"gooselang": m["gl"]})
            else:
                per_entry[eid]["faithful"] += 1
        # ---- declarations that have no meaning in GooseLang, under every flag combination that changes the path through the
        #      translator: rejected, never given an invented meaning (a function without a body would need a body to translate)
        bsrc = "package p\n\nfunc checksum(x uint64) uint64\n\nfunc Use(x uint64) uint64 {\n\treturn checksum(x) + 1\n}\n"
        for flags in ([], ["-skip-interfaces"], ["-skip-interfaces", "-typecheck"], ["-typecheck"]):
            root = os.path.join(scratch, "bodyless")
            gomod.write_module(root, {"p": {"p.go": bsrc, "stub.s": "// the body of checksum would be here\n"}})
            rc, gerr, text = k4.translate(root, flags=tuple(flags))
            stats["flag_runs"] += 1
            shutil.rmtree(root, ignore_errors=True)
            emitted = k4.emitted_def(text, "checksum") if text else None
            if rc == 0 or emitted:
                viol("C02: a function declared without a body is given a meaning", {"proto": "c02-flags", "package": bsrc, "flags": flags},
                     "a conversion error for checksum", {"exit": rc, "emitted": emitted or (text or "")[:800]})
        # ---- the control-flow model against the real translator: which skeletons are rejected, and why
        for ts in range(ctx.seed * 40 + 1000, ctx.seed * 40 + 1000 + (2 if ctx.tier == "quick" else 25)):
            st, bad = trcorr.run(ts, 40, scratch)
            stats["skeletons"] += st["functions"]
            stats["skeletons_rejected"] += st.get("rejected", 0)
            if bad and not any(b["kind"] == "correspondence" for b in build.broken):
                build.broken.append({"kind": "correspondence", "name": "tr: Model.Tr.trStmts vs what goose accepts and rejects", "detail": json.dumps(bad)[:2500]})
        # ---- the model of multiple assignments against the real translator: goose accepts a statement exactly when Model.TupleAssign.guard
        #      says so, and then the emitted code returns what Go returns (Props/C02Tuple.tuple_assign_faithful is about that guard)
        import tuplecorr
        for ts in range(ctx.seed * 10 + 300, ctx.seed * 10 + 300 + (1 if ctx.tier == "quick" else 12)):
            st, bad = tuplecorr.run(ts, 70 if ctx.tier == "quick" else 160, scratch)
            for k, v in st.items():
                stats[k] += v
            sem = [b for b in bad if b["kind"] == "semantics"]
            wrongly_accepted = [b for b in bad if b["kind"] == "guard" and b["goose_accepts"]]
            if sem:
                b = sem[0]
                viol("C02: goose accepts a multiple assignment and the emitted GooseLang does not behave like Go",
                     {"proto": "c02-tuple", "targets": b["targets"], "go_source": b["go_source"], "emitted": b["emitted"]}, {"go": b["go"]}, {"gooselang": b["gooselang"]})
            if bad and not any(x["name"].startswith("tuple:") for x in build.broken):
                build.broken.append({"kind": "correspondence", "name": "tuple: Model.TupleAssign.guard vs the multiple assignments goose accepts",
                                     "detail": json.dumps([{k: v for k, v in b.items() if k != "emitted"} for b in (wrongly_accepted or bad)[:2]])[:2500]})
        # ---- the model of conversions against the real translator: every conversion Go allows over a universe of predeclared and defined
        #      types is rejected / the identity / to_u<w> / StringToBytes / StringFromBytes exactly as Model.Conv.decide says
        #      (Props/C02Conv.conv_reject_or_faithful is about that decision)
        import convcorr
        cst, cbad = convcorr.run(scratch)
        for k, v in cst.items():
            stats[k] += v
        if cbad:
            build.broken.append({"kind": "correspondence", "name": "conv: Model.Conv.decide vs what goose does with each conversion", "detail": json.dumps(cbad[:6])[:2500]})
            # a conversion the model rejects or changes, and goose passes through unchanged, is a wrong translation the theorem excluded
            loose = [b for b in cbad if b["goose"] == "identity" and b["model"] != "identity"]
            if loose:
                b = loose[0]
                viol("C02: goose translates a conversion as the identity where the model of the translator (proved faithful) rejects it or applies an operation",
                     {"proto": "c02-conv", "conversion": b["conversion"], "to": b["to"], "from": b["from"], "spelling": b["spelling"]}, {"model_decision": b["model"]}, {"goose": b["goose"]})
        # ---- the model of package-level variables against the real translator: goose refuses a global exactly when Model.Global.holdsReference
        #      holds for its type, and a function reading an accepted global returns what Go returns
        import globalcorr
        gst, gbad = globalcorr.run(ctx.seed, 40 if ctx.tier == "quick" else 200, scratch)
        for k, v in gst.items():
            stats[k] += v
        if gbad:
            build.broken.append({"kind": "correspondence", "name": "global: Model.Global.holdsReference vs the package-level variables goose accepts", "detail": json.dumps(gbad[:6])[:2500]})
            gsem = [b for b in gbad if b["kind"] == "semantics"]
            if gsem:
                viol("C02: goose accepts a package-level variable and a function reading it does not return what Go returns",
                     {"proto": "c02-global", "type": gsem[0]["type"]}, {"go": gsem[0]["go"]}, {"gooselang": gsem[0]["gooselang"]})
        # ---- subset programs with one catalogue statement spliced in at a random position
        import c02splice
        for res in c02splice.run(ctx, scratch, known):
            stats["spliced_functions"] += res["functions"]
            stats["spliced_rejected"] += res["rejected"]
            stats["spliced_faithful"] += res["faithful"]
            for eid, where in res["known"]:
                known_hit.setdefault(eid, []).append(where)
            if res["violation"] and not found:
                v = res["violation"]
                viol(v["what"], v["input"], v["expected"], v["observed"])
    finally:
        shutil.rmtree(scratch, ignore_errors=True)
    by_key = collections.OrderedDict()
    for eid, where in known_hit.items():
        by_key.setdefault(known[eid]["key"], (known[eid]["what"], []))[1].append("%s at %s" % (eid, "/".join(sorted(set(where)))))
    for key, (what, where) in by_key.items():
        ctx.known("%s — %s (catalogue entries: %s)" % (key, what, "; ".join(where)))
    C.report_broken_obligations(ctx, build, found)
    ctx.coverage.update({
        "evaluations": stats["functions"] * len(c02cat.ARGS) + stats["lookalike_packages"] + stats["spliced_functions"],
        "distinct_nontrivial": stats["functions"] + stats["lookalike_packages"] + stats["spliced_functions"],
        "rule": "catalogue of %d statement entries x %d contexts (plain, loop body, if/else branch, nested block, closure body, after an early "
                "return, tail else, range body), %d control-flow shapes as function and closure bodies, %d declaration forms, %d look-alike "
                "packages (user functions named like builtins, user packages named like FFI packages, locals named like packages); plus "
                "generated subset functions with one catalogue statement spliced in at a random position; each function on %d argument vectors"
                % (len(c02cat.STMTS), len(c02cat.CONTEXTS), len(c02cat.SHAPES), len(c02cat.DECLS), len(c02cat.LOOKALIKES), len(c02cat.ARGS)),
        "samples": samples,
        "stats": dict(stats),
        "per_entry": {k: dict(v) for k, v in sorted(per_entry.items())},
    })
    ctx.assumptions += [
        "GL/Sem.lean is the meaning of the emitted text (see C01); a function is judged faithful on the argument vectors it was run on",
        "rejection = the declaration is absent from the file written with -ignore-errors and goose printed a conversion error",
    ]
    return ctx.finish(build)


def replay(ctx, path):
    """re-run one catalogue entry (all its positions) or one look-alike package"""
    obj = json.load(open(path))
    inp = obj.get("input", {})
    entry = inp.get("entry")
    if not entry or inp.get("proto") not in ("k4-catalogue", "k4-lookalike"):
        return check(ctx)
    C.ensure_built("C02", ["guards", "translator", "printer"], need_harness=False, extra_go=gomod.EXTRA_GO)
    scratch = C.scratch()
    bad = []
    try:
        if inp["proto"] == "k4-lookalike":
            src, extra = c02cat.LOOKALIKES[entry.split(":", 1)[1]][:2]
            lf, lc = lookalike_package(src, extra)
            r = k4.run_package(lf, lc, scratch)
            bad = r["mismatches"]
        else:
            fns, files, calls = catalogue_package()
            r = k4.run_package(files, calls, scratch)
            mine = {n for n, e, c, s_ in fns if e == entry}
            bad = [m for m in r["mismatches"] if m["fn"] in mine]
            print("positions rejected:", sorted(c for n, e, c, s_ in fns if e == entry and n in r["rejected"]))
    finally:
        shutil.rmtree(scratch, ignore_errors=True)
    print(json.dumps(bad[:4], indent=1))
    print("verdict:", "violates the property" if bad else "meets the property (rejected or faithful at every position)")
    return 1 if bad else 0
