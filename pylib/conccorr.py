"""Correspondence for Model/Conc.lean (the model of goose's translation of go statements, mutexes, condition
variables and wait groups; C03).

Race-free closed functions `func cK() uint64` of the fragment are generated from parameterised shapes
(counters under a mutex joined by a wait group with Add(n) once or Add(1) each; condition hand-offs with
Signal/Broadcast and `for flag == 0 { cv.Wait() }`; several waiters released by one Broadcast or by one Signal
each; nested spawns; ordered accumulations `acc = acc*10 + k`; two-way hand-offs; let-bound values captured by
goroutines; conditionals and loops inside goroutines; and — rarely — programs that deadlock or die in Go
(a lost wake-up, a missing Done, a second Lock, an Unlock of a free mutex, a negative counter) and programs goose
must reject (`go f()`, `defer`, `return` inside a goroutine, assignment to a `:=` name)), written as Go, and
translated by the REAL goose.  Per function:

 (i)   the parse tree of what goose emits (canonical S-expression of the Lean parser, `driver gl` / `canon`)
       must be EXACTLY what `driver conc` (Model.Conc.tr) prints; a function goose rejects must be rejected by the
       model with the same message;
 (ii)  the outcome set of the Lean exhaustive scheduler on the EMITTED text with Go's condition variables
       (`explore-strict`) must EQUAL the outcome set of the model's Go semantics over all FIFO schedules (`driver
       concx`); in Perennial's reading (`explore`) it must CONTAIN every value and `stuck` outcome of the model
       (spurious wake-ups only add behaviours); the model's own target semantics on the model's translation
       (`driver conct` / `conctp`) must relate in the same way; the any-waiter reading of Signal (`driver concxa`)
       must contain the FIFO outcomes;
 (iii) the outcomes of a few native runs must be among the model's outcomes (functions that can deadlock or die
       are not run natively).

Standalone:  cd <verif> && python3 pylib/conccorr.py <seed> <nfuncs> [<nseeds>]
"""
import os
import random
import re
import shutil
import sys

import common as C
import gomod
import k4
import c03
import c07
from corecorr import etoks, ctoks, go_e, go_c

V = lambda x: ("var", x)
L = lambda n: ("lit", n)
ADD = lambda a, b: ("bin", "+", a, b)
MUL = lambda a, b: ("bin", "*", a, b)
EQ = lambda a, b: ("cmp", "==", a, b)
NE = lambda a, b: ("cmp", "!=", a, b)
LT = lambda a, b: ("cmp", "<", a, b)


def locked(mu, body):
    return [("lock", mu)] + body + [("unlock", mu)]


def waitloop(r, flag, val, cv):
    """for <flag is not val> { cv.Wait() } in one of three spellings"""
    c = r.randrange(3)
    cond = NE(V(flag), L(val)) if c == 0 else ("not", EQ(V(flag), L(val))) if c == 1 else LT(V(flag), L(val))
    return ("for", cond, [("cwait", cv)])


def locked_read(r, mu, x, name="res"):
    """the final read of a shared variable, under the mutex or (ordered by the join) without it"""
    if r.random() < 0.6:
        return locked(mu, [("def", name, V(x))]), V(name)
    return [], V(x)


# ---- shapes; each returns (statements, result expression, tag)

def s_counter(r):
    n = r.randrange(1, 4)
    once = r.random() < 0.5
    body = [("newmu", "mu"), ("newwg", "wg"), ("var", "total", L(r.randrange(5)))]
    captured = r.random() < 0.4
    if captured:
        body.append(("def", "k", ADD(V("total"), L(r.randrange(1, 9)))))
    if once:
        body.append(("add", "wg", n))
    for j in range(n):
        v = r.randrange(1, 50)
        inc = ADD(V("total"), ADD(V("k"), L(v)) if captured else L(v))
        g = locked("mu", [("set", "total", inc)]) + [("done", "wg")]
        alt = r.random() if (j > 0 or not captured) else 1.0     # a captured `k` is used by the first worker
        if alt < 0.25:
            g = [("def", "w%d" % j, L(v))] + locked("mu", [("set", "total", ADD(V("total"), V("w%d" % j)))]) + [("done", "wg")]
        elif alt < 0.45:
            g = locked("mu", [("if", LT(V("total"), L(r.randrange(1, 60))), [("set", "total", inc)], [("set", "total", ADD(V("total"), L(1)))] if r.random() < 0.5 else [])]) + [("done", "wg")]
        if not once:
            body.append(("add", "wg", 1))
        body.append(("go", g))
    body.append(("wait", "wg"))
    rd, e = locked_read(r, "mu", "total")
    return body + rd, e, "counter"


def s_cond(r):
    sig = r.choice(["signal", "bcast"])
    v = r.randrange(1, 100)
    body = [("newmu", "mu"), ("newcond", "cv", "mu"), ("var", "flag", L(0)), ("var", "result", L(0))]
    g = locked("mu", [("set", "result", L(v)), ("set", "flag", L(1)), (sig, "cv")])
    if r.random() < 0.3:      # signal after the unlock
        g = locked("mu", [("set", "result", L(v)), ("set", "flag", L(1))]) + [(sig, "cv")]
    body.append(("go", g))
    body += locked("mu", [waitloop(r, "flag", 1, "cv"), ("def", "res", V("result"))])
    if r.random() < 0.4:
        body += locked("mu", [("def", "res2", ADD(V("result"), L(1)))])
        return body, ADD(V("res"), V("res2")), "cond"
    return body, V("res"), "cond"


def s_bcast(r):
    n = 2           # three waiters cost the interpreter's scheduler 20 s
    bc = r.random() < 0.6
    body = [("newmu", "mu"), ("newcond", "cv", "mu"), ("newwg", "wg"), ("var", "open", L(0)), ("var", "total", L(0))]
    for _ in range(n):
        v = r.randrange(1, 30)
        body.append(("add", "wg", 1))
        body.append(("go", locked("mu", [waitloop(r, "open", 1, "cv"), ("set", "total", ADD(V("total"), L(v)))]) + [("done", "wg")]))
    body += locked("mu", [("set", "open", L(1))] + ([("bcast", "cv")] if bc else [("signal", "cv")] * n))
    body.append(("wait", "wg"))
    rd, e = locked_read(r, "mu", "total")
    return body + rd, e, "bcast"


def s_order(r):
    n = r.randrange(2, 4)
    body = [("newmu", "mu"), ("newwg", "wg"), ("var", "acc", L(0))]
    for j in range(n):
        body.append(("add", "wg", 1))
        body.append(("go", locked("mu", [("set", "acc", ADD(MUL(V("acc"), L(10)), L(j + 1)))]) + [("done", "wg")]))
    body.append(("wait", "wg"))
    return body, V("acc"), "order"


def s_nested(r):
    v, w = r.randrange(1, 40), r.randrange(1, 40)
    inner = locked("mu", [("set", "total", ADD(V("total"), L(v)))]) + [("done", "wg")]
    outer = [("go", inner)] + locked("mu", [("set", "total", ADD(V("total"), L(w)))]) + [("done", "wg")]
    if r.random() < 0.5:
        outer = locked("mu", [("set", "total", ADD(V("total"), L(w)))]) + [("done", "wg"), ("go", inner)]
    body = [("newmu", "mu"), ("newwg", "wg"), ("var", "total", L(r.randrange(3))), ("add", "wg", 2), ("go", outer), ("wait", "wg")]
    rd, e = locked_read(r, "mu", "total")
    return body + rd, e, "nested"


def s_handoff(r):
    v = r.randrange(1, 100)
    body = [("newmu", "mu"), ("newcond", "cv", "mu"), ("var", "stage", L(0)), ("var", "box", L(0)), ("var", "out", L(0))]
    body.append(("go", locked("mu", [waitloop(r, "stage", 1, "cv"), ("set", "out", ADD(V("box"), L(1))), ("set", "stage", L(2)), ("bcast", "cv")])))
    body += locked("mu", [("set", "box", L(v)), ("set", "stage", L(1)), ("bcast", "cv"), ("for", NE(V("stage"), L(2)), [("cwait", "cv")]), ("def", "res", V("out"))])
    return body, V("res"), "handoff"


def s_loops(r):
    """a worker that counts in a loop under the mutex; a conditional as the last statement of the loop body"""
    k = r.randrange(1, 4)
    step = [("if", LT(V("n"), L(2)), [("set", "n", ADD(V("n"), L(1)))], [("set", "n", ADD(V("n"), L(2)))])] if r.random() < 0.5 else [("set", "n", ADD(V("n"), L(1)))]
    if r.random() < 0.3:
        step = [("set", "total", ADD(V("total"), L(1)))] + step
    g = locked("mu", [("var", "n", L(0)), ("for", LT(V("n"), L(k)), step), ("set", "total", ADD(V("total"), V("n")))]) + [("done", "wg")]
    body = [("newmu", "mu"), ("newwg", "wg"), ("var", "total", L(0)), ("add", "wg", 1), ("go", g)]
    if r.random() < 0.5:
        body += [("add", "wg", 1), ("go", locked("mu", [("set", "total", ADD(V("total"), L(100)))]) + [("done", "wg")])]
    body.append(("wait", "wg"))
    return body, V("total"), "loops"


def s_bad(r):
    """programs that deadlock or die in Go (on some or on all schedules)"""
    c = r.randrange(7)
    if c == 0:        # lost wake-up: two waiters, one Signal
        body = [("newmu", "mu"), ("newcond", "cv", "mu"), ("newwg", "wg"), ("var", "open", L(0)), ("var", "total", L(0))]
        for v in (3, 4):
            body += [("add", "wg", 1), ("go", locked("mu", [("for", EQ(V("open"), L(0)), [("cwait", "cv")]), ("set", "total", ADD(V("total"), L(v)))]) + [("done", "wg")])]
        body += locked("mu", [("set", "open", L(1)), ("signal", "cv")]) + [("wait", "wg")]
        return body, V("total"), "bad_lost_wakeup"
    if c == 1:        # Add(2), one Done
        body = [("newmu", "mu"), ("newwg", "wg"), ("var", "x", L(1)), ("add", "wg", 2), ("go", locked("mu", [("set", "x", L(2))]) + [("done", "wg")]), ("wait", "wg")]
        return body, V("x"), "bad_missing_done"
    if c == 2:        # the mutex is locked twice
        body = [("newmu", "mu"), ("var", "x", L(1)), ("lock", "mu"), ("go", locked("mu", [("set", "x", L(2))])), ("lock", "mu"), ("def", "res", V("x")), ("unlock", "mu")]
        return body, V("res"), "bad_double_lock"
    if c == 3:        # Unlock of a free mutex in a goroutine
        body = [("newmu", "mu"), ("newwg", "wg"), ("var", "x", L(1)), ("add", "wg", 1), ("go", [("unlock", "mu"), ("done", "wg")]), ("wait", "wg")]
        return body, V("x"), "bad_unlock_free"
    if c == 4:        # negative counter (on some schedules the join has already passed)
        body = [("newwg", "wg"), ("var", "x", L(1)), ("add", "wg", 1), ("go", [("done", "wg"), ("done", "wg")]), ("wait", "wg")]
        return body, V("x"), "bad_negative_counter"
    if c == 5:        # Wait without a signaller
        body = [("newmu", "mu"), ("newcond", "cv", "mu"), ("var", "x", L(1)), ("lock", "mu"), ("cwait", "cv"), ("unlock", "mu")]
        return body, V("x"), "bad_wait_forever"
    # the signal may come before the waiter parks; no flag is checked: a lost wake-up on some schedules
    body = [("newmu", "mu"), ("newcond", "cv", "mu"), ("var", "x", L(1)), ("go", locked("mu", [("set", "x", L(2)), ("signal", "cv")])),
            ("lock", "mu"), ("cwait", "cv"), ("def", "res", V("x")), ("unlock", "mu")]
    return body, V("res"), "bad_unchecked_wait"


def s_reject(r):
    c = r.randrange(4)
    base = [("newwg", "wg"), ("var", "x", L(1)), ("add", "wg", 1)]
    mbase = [("newmu", "mu")] + base
    tail = [("wait", "wg")]
    if c == 0:
        return base + [("gocall", "helper"), ("go", [("done", "wg")])] + tail, V("x"), "reject_gocall"
    if c == 1:
        return mbase + [("go", [("lock", "mu"), ("defer", "mu"), ("set", "x", L(2)), ("done", "wg")])] + tail, V("x"), "reject_defer"
    if c == 2:
        if r.random() < 0.5:
            return base + [("go", [("done", "wg"), ("for", LT(V("x"), L(1)), [("retvoid",)])])] + tail, V("x"), "reject_return"
        return mbase + [("go", [("lock", "mu"), ("set", "x", L(2)), ("unlock", "mu"), ("done", "wg"), ("retvoid",)])] + tail, V("x"), "reject_return"
    return base + [("def", "y", V("x")), ("go", [("done", "wg")]), ("set", "y", L(3))] + tail, ADD(V("x"), V("y")), "reject_assign"


SHAPES = [s_counter, s_counter, s_cond, s_cond, s_bcast, s_bcast, s_order, s_nested, s_handoff, s_loops, s_bad, s_reject]


# ---- token syntax of the `conc` protocol

def stoks(s):
    k = s[0]
    if k in ("newmu", "newwg", "lock", "unlock", "done", "wait", "cwait", "signal", "bcast", "gocall", "defer"):
        return [k, s[1]]
    if k == "newcond":
        return [k, s[1], s[2]]
    if k in ("var", "def", "set"):
        return [k, s[1]] + etoks(s[2])
    if k == "add":
        return ["add", s[1], str(s[2])]
    if k == "retvoid":
        return ["retvoid"]
    if k == "go":
        return ["go", "["] + toks(s[1]) + ["]"]
    if k == "if":
        return ["if"] + ctoks(s[1]) + ["["] + toks(s[2]) + ["]", "["] + toks(s[3]) + ["]"]
    if k == "for":
        return ["for"] + ctoks(s[1]) + ["["] + toks(s[2]) + ["]"]
    raise ValueError(s)


def toks(ss):
    out = []
    for i, s in enumerate(ss):
        if i:
            out.append(";")
        out += stoks(s)
    return out


def ptoks(body, e):
    return toks(body) + ([";"] if body else []) + ["ret"] + etoks(e)


# ---- Go source

def go_src(ss, ind):
    pad = "\t" * ind
    out = []
    for s in ss:
        k = s[0]
        if k == "newmu":
            out.append("%s%s := new(sync.Mutex)" % (pad, s[1]))
        elif k == "newwg":
            out.append("%s%s := new(sync.WaitGroup)" % (pad, s[1]))
        elif k == "newcond":
            out.append("%s%s := sync.NewCond(%s)" % (pad, s[1], s[2]))
        elif k == "var":
            out.append("%svar %s uint64 = %s" % (pad, s[1], go_e(s[2])))
        elif k == "def":
            out.append("%s%s := %s" % (pad, s[1], go_e(s[2])) if s[2][0] != "lit" else "%s%s := uint64(%s)" % (pad, s[1], go_e(s[2])))
        elif k == "set":
            out.append("%s%s = %s" % (pad, s[1], go_e(s[2])))
        elif k in ("lock", "unlock", "done", "wait"):
            out.append("%s%s.%s()" % (pad, s[1], {"lock": "Lock", "unlock": "Unlock", "done": "Done", "wait": "Wait"}[k]))
        elif k in ("cwait", "signal", "bcast"):
            out.append("%s%s.%s()" % (pad, s[1], {"cwait": "Wait", "signal": "Signal", "bcast": "Broadcast"}[k]))
        elif k == "add":
            out.append("%s%s.Add(%d)" % (pad, s[1], s[2]))
        elif k == "gocall":
            out.append("%sgo %s()" % (pad, s[1]))
        elif k == "defer":
            out.append("%sdefer %s.Unlock()" % (pad, s[1]))
        elif k == "retvoid":
            out.append(pad + "return")
        elif k == "go":
            out += [pad + "go func() {"] + go_src(s[1], ind + 1) + [pad + "}()"]
        elif k == "if":
            out += ["%sif %s {" % (pad, go_c(s[1]))] + go_src(s[2], ind + 1)
            if s[3]:
                out += [pad + "} else {"] + go_src(s[3], ind + 1)
            out.append(pad + "}")
        elif k == "for":
            out += ["%sfor %s {" % (pad, go_c(s[1]))] + go_src(s[2], ind + 1) + [pad + "}"]
        else:
            raise ValueError(s)
    return out


def decode_explore(rep):
    """reply of `explore` / `explore-strict` -> (sorted outcome kinds, truncated, states)"""
    w = rep.split()
    if w[0] != "outcomes":
        raise C.Infra("explore: " + rep[:200])
    outs = set()
    for x in w[3:]:
        if x == "-":
            continue
        o = bytes.fromhex(x).decode()
        if o.startswith("value u64:"):
            outs.add("value:" + o[10:])
        elif o.startswith("stuck"):
            outs.add("stuck")
        elif o == "deadlock":
            outs.add("deadlock")
        else:
            outs.add("other:" + o)
    return sorted(outs), w[2] == "1", int(w[1])


def decode_model(rep):
    w = rep.split()
    if not w or w[0] != "outcomes":
        return None, False
    return sorted(x for x in w[1:] if x != "truncated"), "truncated" in w[1:]


def run(seed, nfuncs, scratch, keep=False, native_runs=1):
    """Returns (stats dict, first disagreement or None)."""
    r = random.Random(seed)
    funcs = []
    for i in range(nfuncs):
        shape = SHAPES[(seed + i) % len(SHAPES)] if i < len(SHAPES) else r.choice(SHAPES)
        body, e, tag = shape(r)
        funcs.append(("c%d" % i, body, e, tag))
    src = ["package p", "", "import \"sync\"", "", "func helper() {", "}", ""]
    line_of = {}
    for name, body, e, tag in funcs:
        start = len(src) + 1
        src.append("func %s() uint64 {" % name)
        src += go_src(body, 1)
        src += ["\treturn " + go_e(e), "}", ""]
        line_of[name] = (start, len(src))
    root = os.path.join(scratch, "conc")
    gomod.write_module(root, {"p": {"p.go": "\n".join(src)}})
    rc, gerr, text = k4.translate(root)
    if text is None:
        raise C.Infra("conccorr: goose wrote nothing: " + gerr[-800:])
    errs = c07.parse_errors(gerr)
    lines = [" ".join(ptoks(body, e)) for _, body, e, _ in funcs]
    model = C.driver("conc", lines)
    mx = C.driver("concx", lines)
    mxa = C.driver("concxa", lines)
    mt = C.driver("conct", lines)
    mtp = C.driver("conctp", lines)
    reps = k4.gl_session(text, ["names"])
    if reps[0].startswith("parse-error"):
        return {"functions": nfuncs}, {"what": "emitted file does not parse", "detail": k4.unhex(reps[0])}
    emitted = set(reps[1][6:].split(",")) if reps[1] != "names -" else set()
    present = [f[0] for f in funcs if f[0] in emitted]
    canon = dict(zip(present, k4.gl_session(text, ["canon " + n for n in present])[1:]))
    strict = dict(zip(present, k4.gl_session(text, ["explore-strict " + n for n in present])[1:]))
    peren = dict(zip(present, k4.gl_session(text, ["explore " + n for n in present])[1:]))
    stats = {"functions": nfuncs, "accepted": 0, "rejected": 0, "native_functions": 0, "native_runs": 0, "states_explored": 0,
             "multi_outcome": 0, "with_deadlock": 0, "with_stuck": 0}
    bad = None

    def report(d):
        nonlocal bad
        if bad is None:
            bad = d
    native_fns = []
    info = {}
    for fi, (name, body, e, tag) in enumerate(funcs):
        lo, hi = line_of[name]
        gosrc = "\n".join(src[lo - 1:hi])
        m = model[fi]
        stats["shape:" + tag] = stats.get("shape:" + tag, 0) + 1
        base = {"function": name, "shape": tag, "go": gosrc, "tokens": lines[fi]}
        if m == "error parse" or mx[fi] == "error parse":
            raise C.Infra("conccorr: the driver cannot parse its own token syntax: " + lines[fi])
        if name not in emitted:
            stats["rejected"] += 1
            msgs = [msg for cat, msg, f, ln in errs if ln is not None and lo <= ln <= hi]
            ok = m.startswith("error ") and any(x.replace(" ", "-").startswith(m[6:]) for x in msgs)
            if not ok:
                report(dict(base, what="goose rejects, the model says `%s`" % m[:200], goose_errors=msgs[:3]))
            continue
        stats["accepted"] += 1
        mm = re.match(r"canon \(func %s \[\] \(rec \w+ \[5f\] (.*)\)\)$" % name, canon[name])
        got = mm.group(1) if mm else "unreadable: " + canon[name][:100]
        if got != m:
            report(dict(base, what="the emitted tree differs from Model.Conc.tr", model=m, goose=got, emitted=k4.emitted_def(text, name)))
            continue
        go_out, go_trunc = decode_model(mx[fi])
        goa_out, goa_trunc = decode_model(mxa[fi])
        t_out, t_trunc = decode_model(mt[fi])
        tp_out, tp_trunc = decode_model(mtp[fi])
        s_out, s_trunc, s_states = decode_explore(strict[name])
        p_out, p_trunc, p_states = decode_explore(peren[name])
        stats["states_explored"] += s_states + p_states
        if go_out is None or go_trunc or goa_trunc or t_trunc or tp_trunc or s_trunc or p_trunc:
            report(dict(base, what="an exploration was truncated or failed", model_go=mx[fi], strict=strict[name][:80]))
            continue
        base["emitted"] = k4.emitted_def(text, name)
        if s_out != go_out:
            report(dict(base, what="strict exploration of the EMITTED text differs from the model's Go semantics over all FIFO schedules",
                        model_go_outcomes=go_out, interpreter_strict_on_emitted=s_out))
        if t_out != go_out:
            report(dict(base, what="the model's strict target semantics differs from the model's Go semantics", model_go_outcomes=go_out, model_target_strict=t_out))
        must = [o for o in go_out if o != "deadlock"]
        if not set(must) <= set(p_out):
            report(dict(base, what="Perennial-reading exploration of the EMITTED text misses an outcome of the model's Go semantics",
                        model_go_outcomes=go_out, interpreter_perennial_on_emitted=p_out))
        if not set(must) <= set(tp_out):
            report(dict(base, what="the model's Perennial-reading target semantics misses an outcome of the model's Go semantics",
                        model_go_outcomes=go_out, model_target_perennial=tp_out))
        if set(tp_out) != set(p_out):
            report(dict(base, what="the model's Perennial-reading target semantics differs from the interpreter's on the emitted text",
                        model_target_perennial=tp_out, interpreter_perennial_on_emitted=p_out))
        if not set(go_out) <= set(goa_out):
            report(dict(base, what="the any-waiter reading of Signal loses a FIFO outcome", fifo=go_out, any=goa_out))
        if len(go_out) > 1:
            stats["multi_outcome"] += 1
        if "deadlock" in go_out:
            stats["with_deadlock"] += 1
        if "stuck" in go_out:
            stats["with_stuck"] += 1
        info[name] = (base, go_out)
        if all(o.startswith("value:") for o in go_out):
            native_fns.append((name, tag, gosrc, True))
    if native_fns and native_runs > 0:
        nat, _ = c03.native_outcomes(root, native_fns, native_runs, race=False)
        for name, tag, gosrc, _ in native_fns:
            base, go_out = info[name]
            stats["native_functions"] += 1
            for o, cnt in nat[name].items():
                stats["native_runs"] += cnt
                want = "value:" + o[4:] if o.startswith("u64:") else o
                if want not in go_out:
                    report(dict(base, what="native Go produces an outcome the model's Go semantics does not have", native=dict(nat[name]), model_go_outcomes=go_out))
    if not keep:
        shutil.rmtree(root, ignore_errors=True)
    return stats, bad


def main(argv):
    seed = int(argv[1]) if len(argv) > 1 else 1
    nfuncs = int(argv[2]) if len(argv) > 2 else 12
    nseeds = int(argv[3]) if len(argv) > 3 else 1
    scratch = C.scratch("conccorr.")
    total = {}
    rc = 0
    try:
        for s in range(seed, seed + nseeds):
            st, bad = run(s, nfuncs, scratch)
            for k, v in st.items():
                total[k] = total.get(k, 0) + v
            print("seed %d: %s" % (s, {k: st[k] for k in ("functions", "accepted", "rejected", "native_functions", "native_runs", "multi_outcome", "with_deadlock", "with_stuck")}), flush=True)
            if bad is not None:
                rc = 1
                print("DISAGREEMENT (seed %d):" % s)
                for k, v in bad.items():
                    print("--- %s:\n%s" % (k, v))
                break
    finally:
        shutil.rmtree(scratch, ignore_errors=True)
    print("total:", total)
    return rc


if __name__ == "__main__":
    sys.exit(main(sys.argv))
