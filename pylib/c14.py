"""C14 — filesystem operations are linearizable under concurrency.

Proof: Props/C14.lean (lock theorem instantiated with the MemFs protocol from the regenerated lock
summaries; sequential spec = MemFs.step, which refines Ref). Correspondence / search: client
goroutines hammer the real MemFs and DirFs with histories whose preconditions hold under every
interleaving (each client works on the names and descriptors it created, plus one contended
Create); porcupine checks them against the reference model; the same runs under -race.
"""
import os
import shutil

import common as C
import conc
import c12

LEVEL = "proof"


def check(ctx):
    build = C.ensure_built("C14", ["fs"], extra_go=conc.EXTRA_GO)
    scratch = C.scratch()
    found = False
    stats = {}
    samples = []
    quick = ctx.tier == "quick"
    plans = [
        ("mem", False, ["-rounds", "60" if quick else "2000", "-threads", "4", "-ops", "40"]),
        ("mem", False, ["-rounds", "20" if quick else "400", "-threads", "8", "-ops", "25"]),
        ("dir", False, ["-rounds", "40" if quick else "800", "-threads", "4", "-ops", "40"]),
        ("mem", True, ["-rounds", "25" if quick else "300", "-threads", "6", "-ops", "40"]),
        ("dir", True, ["-rounds", "8" if quick else "100", "-threads", "4", "-ops", "30"]),
    ]
    known_hits = {}
    try:
        for k, (impl, race, args) in enumerate(plans):
            rounds, report = conc.run_hconc("fs", ["-impl", impl, "-seed", str(ctx.seed * 100 + k), "-scratch", scratch] + args, race=race)
            key = "%s%s#%d" % (impl, "-race" if race else "", k)
            stats[key] = conc.summarize(rounds)
            if not samples and rounds:
                samples.append({"impl": impl, "round": rounds[0]})
            torn = [r for r in rounds if r.get("torn")]
            if torn:
                stats[key]["rounds_with_a_partial_append_read"] = len(torn)
                kf = [e for e in C.load_known("C14") if e.get("status") == "known" and e.get("match", {}).get("impl") == impl and e["match"].get("kind") == "partial-append-read"]
                if kf:
                    known_hits[kf[0]["key"]] = (kf[0], torn[0]["torn"])
                elif not found:
                    found = True
                    ctx.violation("counterexample", "fs (%s): a read through another descriptor saw part of an append" % impl,
                                  {"proto": "hconc-fs", "impl": impl, "args": args, "seed": ctx.seed * 100 + k},
                                  expected="appends are applied atomically: a read sees a whole number of them", observed=torn[0]["torn"])
            bad = [r for r in rounds if r["linearizable"] == "Illegal" or r.get("problem")]
            if bad and not found:
                found = True
                r = bad[0]
                ctx.violation("counterexample", "fs (%s): concurrent history not linearizable w.r.t. the reference model" % impl,
                              {"proto": "hconc-fs", "impl": impl, "args": args, "history": r.get("history")},
                              expected="a total order of the calls, consistent with real time, that the reference model accepts",
                              observed=r.get("problem") or "porcupine: Illegal")
            if report and not found:
                found = True
                ctx.violation("counterexample", "fs (%s): data race, concurrent map access or runtime-detected deadlock inside the library" % impl,
                              {"proto": "hconc-fs-race", "impl": impl, "args": args, "seed": ctx.seed * 100 + k}, expected="no data race, no fatal error of the Go runtime", observed=report)
        # ---- overlapping AtomicCreate calls for ONE (dir, name): the random workloads above rarely overlap two of them, and a recorded
        #      history of many such overlapping calls is expensive to search; the judgement here is the direct one (the creators of
        #      C13's interference clause, hconc atomic -mode same): linearizable means every content a reader sees, and the final
        #      content, is the complete data of exactly one of the calls, and every call returns
        for impl in ("dir", "mem"):
            rounds, report = conc.run_hconc("atomic", ["-impl", impl, "-mode", "same", "-seed", str(ctx.seed), "-scratch", scratch,
                                                        "-rounds", "6" if quick else "60", "-threads", "4", "-ops", "60" if quick else "200"])
            stats["atomic-same/%s" % impl] = {"rounds": len(rounds), "operations": sum(r["ops"] for r in rounds), "not_linearizable": 0, "race_reports": 0}
            bad = [r for r in rounds if r.get("problem")]
            if report and not bad:
                bad = [{"problem": "the Go runtime reported: " + report[:800]}]
            if bad and not found:
                found = True
                stats["atomic-same/%s" % impl]["not_linearizable"] = len(bad)
                ctx.violation("counterexample", "fs (%s): overlapping AtomicCreate calls for one name are not linearizable" % impl,
                              {"proto": "hconc-atomic", "impl": impl, "mode": "same", "seed": ctx.seed},
                              expected="every observed content is the complete data of one AtomicCreate for that name, and every call returns",
                              observed=bad[0].get("problem", "")[:1500])
        # ---- the one-client case of linearizability: directed sequential histories with links, deletes and listings that cross
        #      directories (a cache or index kept per directory shows here first), both implementations against the reference model
        ops = list(c12.DIRECTED)
        want = c12.model_run("ref", ops)
        for impl in ("mem", "dir"):
            shutil.rmtree(os.path.join(scratch, "fsroot-dir"), ignore_errors=True)
            got = c12.run_real(impl, ops, scratch)
            stats.setdefault("sequential", {"rounds": 0, "operations": 0})
            stats["sequential"]["rounds"] += sum(1 for o in ops if o == "newfs")
            stats["sequential"]["operations"] += len(ops)
            if got != want and not found:
                found = True
                k = next(i for i in range(len(ops)) if got[i] != want[i])
                start = max(i for i in range(k + 1) if ops[i] == "newfs")
                ctx.violation("counterexample", "fs (%s): a history with a single client is not what the reference model gives" % impl,
                              {"proto": "fs", "impl": impl, "ops": ops[start:k + 1]}, expected=want[start:k + 1], observed=got[start:k + 1])
    finally:
        shutil.rmtree(scratch, ignore_errors=True)
    for key_, (e, ex) in known_hits.items():
        ctx.known("%s — %s (this run: %s)" % (key_, e["what"], ex[:200]))
    C.report_broken_obligations(ctx, build, found)
    ctx.coverage.update({
        "evaluations": sum(s["operations"] for s in stats.values()),
        "distinct_nontrivial": sum(s["rounds"] for s in stats.values()),
        "rule": "each round: a fresh file system, 4-8 goroutines x 25-40 random calls (Create incl. one contended name, Append, Close, "
                "Open, ReadAt, Delete, Link, AtomicCreate, List of a quiet directory); each client only uses names/descriptors it "
                "created so every precondition holds under any interleaving; histories with invocation/response timestamps are checked "
                "by porcupine against the reference model (descriptor values bound at the response of Create/Open; a descriptor that is "
                "still open must not be handed out again); the same workload runs under -race. evaluations = calls executed; "
                "distinct_nontrivial = rounds",
        "samples": samples,
        "per_plan": stats,
    })
    if ctx.tier == "thorough" and not build.broken:
        ok, out = C.leanchecker("GooseVerif.Props.C14")
        ctx.coverage["leanchecker"] = "ok" if ok else out
    ctx.assumptions += [
        "sync.Mutex gives mutual exclusion (the Step relation's guard)",
        "DirFs: kernel atomicity of single system calls is assumed; List and AtomicCreate are multi-call by design (List is only issued on a quiet directory)",
        "the Go scheduler and memory model are not modelled: stress runs + race detector are supporting evidence (partial)",
    ]
    return ctx.finish(build)


def replay(ctx, path):
    return check(ctx)
