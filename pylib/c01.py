"""C01 — accepted sequential programs keep their meaning in GooseLang.

Proof: Props/C01.lean (see there).  Tie (T-corr, K4): packages drawn by the type-directed generator
pylib/gogen.py are compiled and run natively, translated by the REAL goose built from /repo, and the
emitted .v text is lexed, parsed and evaluated by the Lean reference interpreter (GL/Sem.lean, calibrated
against the repository's own semantics suite: every test* of semantics.gold.v evaluates to #true and
every failing_test* does not) on the same argument vectors; results — including everything reachable
from returned pointers, slices, maps and structs — must be equal, and no in-subset function may be
rejected.  Known findings are replayed from committed witnesses (findings/C01/*.go)."""
import collections
import glob
import json
import os
import re
import shutil

import common as C
import gomod
import gogen
import k4
import trcorr
import scopecorr
import corecorr
import heapcorr
import collcorr
import funcorr

LEVEL = "proof"
FINDINGS = os.path.join(C.VERIF, "findings", "C01")


def make(seed):
    return gogen.package(seed, nfuncs=12)


def witness_package(path):
    """findings/C01/<key>.go: a package `p` with closed functions `func wN() T`; every function is a call."""
    src = open(path).read()
    fns = re.findall(r"^func (w\w*)\(\)", src, re.M)
    runner = [gogen.PRINTER, "func RunAll() {"]
    calls = []
    for fn in fns:
        runner.append('\tcall("%s#0", func() string { return show(%s()) })' % (fn, fn))
        calls.append((fn + "#0", fn, []))
    runner.append("}")
    files = {"p/p.go": src, "p/run.go": "\n".join(runner),
             "cmd/main.go": "package main\n\nimport \"example.com/m/p\"\n\nfunc main() {\n\tp.RunAll()\n}\n"}
    return files, calls


def describe(files, fn, text, mm):
    return {"proto": "k4", "function": fn, "go_source": k4.func_source(files, fn), "emitted": k4.emitted_def(text, fn),
            "call": mm.get("call"), "args": mm.get("args"), "package": files["p/p.go"] if len(files["p/p.go"]) < 12000 else None}


def shrink(files, calls, fn, scratch):
    """reduce the package to the failing function and what it needs; keep it only if it still fails"""
    try:
        f2, c2 = k4.single_function_package(files, fn, calls)
        r = k4.run_package(f2, c2, os.path.join(scratch, "shrink"))
        if r["mismatches"] or r["rejected"]:
            return f2, c2, r
    except C.Infra:
        pass
    return None


def check(ctx, build=None):
    if build is None:
        build = C.ensure_built("C01", ["translator", "guards", "printer"], need_harness=False, extra_go=gomod.EXTRA_GO)
    if not build.driver_ok:
        raise C.Infra("the Lean driver does not build; the interpreter is needed for C01")
    ntests, nfailing, problems = k4.calibrate()
    if problems:
        raise C.Infra("K3 calibration of the reference interpreter against the repository's semantics suite failed: " + "; ".join(problems[:5]))
    scratch = C.scratch()
    found = False
    stats = collections.Counter()
    stats["k3_tests_true"] = ntests
    stats["k3_failing_tests"] = nfailing
    feats = collections.Counter()
    samples = []
    try:
        n = 16 if ctx.tier == "quick" else 400
        seeds = range(ctx.seed * 100000, ctx.seed * 100000 + n)
        for seed, files, calls, r in k4.campaign(seeds, scratch, make):
            stats["packages"] += 1
            stats["functions"] += len({c[1] for c in calls})
            stats["calls"] += len(calls)
            stats["go_panics"] += sum(1 for _, w, _ in r["calls"] if w == "gopanic")
            src = files["p/p.go"]
            for kw, pat in (("for3", r"for \w+ := "), ("range", r"range "), ("forcond", r"for c\d+ <"), ("forever", r"for \{"), ("break", r"\bbreak\b"),
                            ("continue", r"\bcontinue\b"), ("closure", r":= func\("), ("method_call", r"\.(getA|addA|valA)\("), ("tail_block", r"^\t+\{$"),
                            ("shadow_decl", r"^\t\t+(var )?[xyzabin] (:=|\w)"), ("conv", r"uint(8|32|64)\((?!\d)"), ("opassign", r" [-+|&^]= "),
                            ("incdec", r"(\+\+|--)$"), ("map", r"map\["), ("append", r"append\("), ("subslice", r"\[[^\]]*:[^\]]*\]"), ("deref", r"= \*\w"),
                            ("enc", r"machine\.UInt(64|32)(Put|Get)"), ("bytes_of_string", r"\[\]byte\(\w"), ("string_of_bytes", r"string\(bs"),
                            ("multi_result", r"^\t\w+, \w+ := f"), ("else_if", r"\} else if ")):
                feats[kw] += len(re.findall(pat, src, re.M))
            if r["parse_error"]:
                stats["unparsable_outputs"] += 1
                if not found:
                    found = True
                    ctx.violation("counterexample", "K4: the emitted file cannot be read back as GooseLang",
                                  {"proto": "k4", "seed": seed, "package": src}, expected="well-formed output", observed=r["parse_error"])
                continue
            if len(samples) < 1 and calls:
                lab, want, got = r["calls"][0]
                samples.append({"seed": seed, "call": lab, "go": want, "gooselang": got, "function": (k4.func_source(files, calls[0][1]) or "")[:1500]})
            if r.get("arity_violations") and not found:
                found = True
                av = r["arity_violations"][0]
                ctx.violation("counterexample", "K4: a call reads back with another number of arguments than the function takes",
                              {"proto": "k4", "seed": seed, "function": av["inside"], "go_source": k4.func_source(files, av["inside"]), "emitted": k4.emitted_def(r["text"], av["inside"])},
                              expected="%s applied to %s arguments" % (av["callee"], av["takes"]), observed=av)
            if (r["order_violations"] or r["duplicates"]) and not found:
                found = True
                stats["ill_ordered_outputs"] += 1
                ctx.violation("counterexample", "K4: the emitted file is not a sequence of definitions Coq can read top to bottom",
                              {"proto": "k4", "seed": seed, "package": src[:12000]},
                              expected="every definition mentions only same-file definitions above it; no name defined twice",
                              observed={"mentions_later_definition": r["order_violations"][:5], "defined_twice": r["duplicates"]})
            for fn in r["rejected"]:
                stats["rejected_functions"] += 1
                if not found:
                    found = True
                    sh = shrink(files, calls, fn, scratch)
                    f2 = sh[0] if sh else files
                    err = (sh[2] if sh else r)["goose_stderr"]
                    ctx.violation("counterexample", "K4: goose rejects a function of the generated subset",
                                  {"proto": "k4", "seed": seed, "function": fn, "go_source": k4.func_source(f2, fn), "package": f2["p/p.go"][:12000]},
                                  expected="every package of the supported subset is accepted", observed=err[-1500:])
            for mm in r["mismatches"]:
                stats["mismatches"] += 1
                if not found:
                    found = True
                    sh = shrink(files, calls, mm["fn"], scratch)
                    if sh:
                        f2, c2, r2 = sh
                        m2 = (r2["mismatches"] or [mm])[0]
                        d = describe(f2, mm["fn"], r2["text"], m2)
                    else:
                        m2, d = mm, describe(files, mm["fn"], r["text"], mm)
                    d["seed"] = seed
                    ctx.violation("counterexample", "K4: native Go and the emitted GooseLang disagree",
                                  d, expected={"go": m2["go"]}, observed={"gooselang": m2["gl"]})
        # ---- the control-flow model against the real translator, on random skeletons
        for ts in range(ctx.seed * 40, ctx.seed * 40 + (2 if ctx.tier == "quick" else 25)):
            st, bad = trcorr.run(ts, 40, scratch)
            stats["skeletons"] += st["functions"]
            stats["skeletons_accepted"] += st.get("accepted", 0)
            stats["skeletons_rejected"] += st.get("rejected", 0)
            if bad and not any(b["kind"] == "correspondence" for b in build.broken):
                build.broken.append({"kind": "correspondence", "name": "tr: Model.Tr.trStmts vs the structure goose emits", "detail": json.dumps(bad)[:2500]})
            if bad and bad["what"] == "values differ" and not found:
                found = True
                ctx.violation("counterexample", "control flow: native Go and the emitted GooseLang disagree on a skeleton that the control-flow model treats differently from goose",
                              {"proto": "tr", "seed": ts, "function": bad["function"], "argument": bad.get("argument"), "go_source": bad["go"], "emitted": bad.get("emitted"), "model": bad["model"]},
                              expected={"go": bad["native_go"]}, observed={"gooselang": bad["gooselang"]})
        # ---- the scoping model against the real translator: emitted tree, native value, interpreter value
        for ts in range(ctx.seed * 40 + 500, ctx.seed * 40 + 500 + (2 if ctx.tier == "quick" else 25)):
            st, bad = scopecorr.run(ts, 30, scratch)
            stats["scoping_programs"] += st["functions"]
            stats["scoping_rejected"] += st.get("rejected", 0)
            if bad and not any(b["name"].startswith("scope:") for b in build.broken):
                build.broken.append({"kind": "correspondence", "name": "scope: Model.Scope.tr vs the tree goose emits / the values computed", "detail": json.dumps(bad)[:2500]})
                if bad["what"] == "values differ" and not found:
                    found = True
                    ctx.violation("counterexample", "scoping: native Go, the model and the emitted GooseLang disagree on a program of :=, var, assignment, blocks and conditionals",
                                  {"proto": "scope", "seed": ts, "function": bad["function"], "go_source": bad["go"]},
                                  expected={"go": bad["native_go"]}, observed={"gooselang": bad["interpreter_on_emitted"], "model_go": bad["model_go_semantics"]})
        # ---- the composed model (variables + control flow + loops + 64-bit arithmetic) against the real translator
        for ts in range(ctx.seed * 40 + 900, ctx.seed * 40 + 900 + (2 if ctx.tier == "quick" else 30)):
            st, bad = corecorr.run(ts, 25, scratch)
            for k in ("functions", "accepted", "rejected", "value_checks", "loopvar_hides", "known_loop_variable_scope_differences"):
                stats["core_" + k] += st.get(k, 0)
            if bad and not any(b["name"].startswith("core:") for b in build.broken):
                build.broken.append({"kind": "correspondence", "name": "core: Model.Core.tr / its two semantics vs the tree goose emits / native Go / the interpreter", "detail": json.dumps(bad)[:2500]})
                if bad["what"] == "values differ" and not found:
                    found = True
                    ctx.violation("counterexample", "core: native Go and the emitted GooseLang disagree on a program of variables, assignments, conditionals, loops with break/continue and early returns",
                                  {"proto": "core", "seed": ts, "function": bad["function"], "argument": bad.get("argument"), "go_source": bad["go"], "emitted": bad.get("emitted"), "tokens": bad.get("tokens")},
                                  expected={"go": bad["native_go"]}, observed={"gooselang": bad["interpreter_on_emitted"], "model_target_semantics": bad["model_target_semantics"]})
        # ---- the heap model (struct values and pointers, cells, slices and subslices, aliasing) against the real translator
        for ts in range(ctx.seed * 40 + 1300, ctx.seed * 40 + 1300 + (2 if ctx.tier == "quick" else 30)):
            st, bad = heapcorr.run(ts, 30, scratch)
            for k in ("functions", "accepted", "rejected", "panicking", "known_let_store"):
                stats["heap_" + k] += st.get(k, 0)
            if bad and not any(b["name"].startswith("heap:") for b in build.broken):
                build.broken.append({"kind": "correspondence", "name": "heap: Model.Heap.trGoose / its two semantics vs the tree goose emits / native Go / the interpreter", "detail": json.dumps(bad, default=str)[:2500]})
                if bad["what"].startswith("values differ") and not found:
                    found = True
                    ctx.violation("counterexample", "heap: native Go and the emitted GooseLang disagree on a program of struct values, pointers, cells and slices",
                                  {"proto": "heap", "seed": ts, "function": bad["function"], "go_source": bad["go"], "tokens": bad.get("line")},
                                  expected={"go": bad.get("native_go")}, observed={"gooselang": bad.get("interpreter_on_emitted"), "model_target_semantics": bad.get("model_target_semantics"), "model_go_semantics": bad.get("model_go_semantics")})
        # ---- the collections model (maps, two-result lookup, delete, append/copy with capacities, range loops) against the real translator
        for ts in range(ctx.seed * 40 + 1700, ctx.seed * 40 + 1700 + (2 if ctx.tier == "quick" else 30)):
            st, bad = collcorr.run(ts, 30, scratch)
            for k in ("functions", "accepted", "rejected", "panicking"):
                stats["coll_" + k] += st.get(k, 0)
            if bad and not any(b["name"].startswith("coll:") for b in build.broken):
                build.broken.append({"kind": "correspondence", "name": "coll: Model.Coll.tr / its two semantics vs the tree goose emits / native Go / the interpreter", "detail": json.dumps(bad, default=str)[:2500]})
                if bad["what"].startswith("values differ") and not found:
                    found = True
                    ctx.violation("counterexample", "collections: native Go and the emitted GooseLang disagree on a program of maps, slices, append, copy and range loops",
                                  {"proto": "coll", "seed": ts, "function": bad["function"], "go_source": bad["go"], "tokens": bad.get("line")},
                                  expected={"go": bad.get("native_go")}, observed={"gooselang": bad.get("interpreter_on_emitted"), "model_target_semantics": bad.get("model_target_semantics"), "model_go_semantics": bad.get("model_go_semantics")})
        # ---- the model of functions, several results, recursion, closures, methods and strings against the real translator
        for ts in range(ctx.seed * 40 + 2100, ctx.seed * 40 + 2100 + (2 if ctx.tier == "quick" else 30)):
            st, bad = funcorr.run(ts, 8, scratch)
            for k, v in st.items():
                if isinstance(v, int):
                    stats["fun_" + k] += v
            if bad and not any(b["name"].startswith("fun:") for b in build.broken):
                build.broken.append({"kind": "correspondence", "name": "fun: Model.Fun.tr / its two semantics vs the tree goose emits / native Go / the interpreter", "detail": json.dumps(bad, default=str)[:2500]})
                if "value" in bad.get("what", "") and bad.get("native_go") is not None and not found:
                    found = True
                    ctx.violation("counterexample", "functions: native Go and the emitted GooseLang disagree on a package of functions with several results, recursion, closures, methods and strings",
                                  {"proto": "fun", "seed": ts, "function": bad.get("function"), "argument": bad.get("argument"), "go_source": bad.get("go"), "tokens": bad.get("line")},
                                  expected={"go": bad.get("native_go")}, observed={"gooselang": bad.get("interpreter_on_emitted"), "model_target_semantics": bad.get("model_target_semantics"), "model_go_semantics": bad.get("model_go_semantics")})
        # ---- known findings: replay the committed witnesses
        known = {e["key"]: e for e in C.load_known("C01") if e.get("status") == "known"}
        for path in sorted(glob.glob(os.path.join(FINDINGS, "*.go")) + glob.glob(os.path.join(FINDINGS + "-fixed", "*.go"))):
            key = os.path.basename(path)[:-3]
            files, calls = witness_package(path)
            r = k4.run_package(files, calls, os.path.join(scratch, "w"))
            stats["witness_functions"] += len(calls)
            bad = [m["fn"] for m in r["mismatches"]] + list(r["rejected"])
            if r["parse_error"]:
                bad.append("<parse>")
            if not bad:
                continue
            if key in known:
                ctx.known("%s — %s (functions %s of findings/C01/%s.go)" % (key, known[key]["what"], ",".join(sorted(set(bad))), key))
            elif not found:
                found = True
                ctx.violation("counterexample", "K4: a witness program that is not a listed known finding fails", {"proto": "k4-witness", "file": path, "functions": bad},
                              expected="equal results", observed=r["mismatches"][:3])
        # ---- shapes at the edge of repaired guards: rejected, or accepted and faithful (findings/C01-reject-or-faithful/*.go)
        for path in sorted(glob.glob(os.path.join(FINDINGS + "-reject-or-faithful", "*.go"))):
            files, calls = witness_package(path)
            r = k4.run_package(files, calls, os.path.join(scratch, "rf"))
            stats["reject_or_faithful_functions"] += len(calls)
            stats["reject_or_faithful_rejected"] += len(r["rejected"])
            bad = [m for m in r["mismatches"]]
            if (bad or r["parse_error"]) and not found:
                found = True
                ctx.violation("counterexample", "K4: a function at the edge of a repaired guard is accepted and its translation does not return what Go returns",
                              {"proto": "k4-witness", "file": path, "function": bad[0]["fn"] if bad else "<parse>", "go_source": k4.func_source(files, bad[0]["fn"]) if bad else None,
                               "emitted": k4.emitted_def(r["text"], bad[0]["fn"]) if bad else None},
                              expected={"go": bad[0]["go"]} if bad else "well-formed output", observed={"gooselang": bad[0]["gl"]} if bad else r["parse_error"])
        # ---- the command re-translating over an older output file must leave exactly the new translation
        found = gomod.retranslate_stream(ctx, scratch, "the emitted file is not the translation of the current source", found)
    finally:
        shutil.rmtree(scratch, ignore_errors=True)
    C.report_broken_obligations(ctx, build, found)
    ctx.coverage.update({
        "evaluations": stats["calls"],
        "distinct_nontrivial": stats["calls"] - stats["go_panics"],
        "rule": "packages of 12 functions drawn by pylib/gogen.py from one PRNG per package (seeds %d…): declarations := / var with a 7-name pool so "
                "that shadowing is constant, assignments and op-assignments, ++/--, if / else-if / else, three loop forms with break and continue in "
                "tail shapes, range over slices and maps, early returns nested up to two levels, bare tail blocks, closures capturing locals, "
                "methods with pointer and value receivers declared in shuffled order, struct values and pointers with aliasing, new/deref/store, "
                "slices (make, append, sub-slices, element stores), maps (insert, lookup with ok, delete, range, len), 64/32/8-bit arithmetic with "
                "wrap-around, all six conversions, shifts, string concatenation/compare/len, []byte<->string, UInt64/32 Put/Get, calls with one and "
                "two results; every function is called on up to 3 argument vectors mixing boundary and random values; every result folds every "
                "local and everything reachable from heap locals" % (ctx.seed * 100000),
        "samples": samples,
        "stats": dict(stats),
        "construct_counts": dict(feats),
    })
    ctx.assumptions += [
        "GL/Sem.lean is the meaning of the emitted text (reconstruction of Perennial's GooseLang, calibrated on every run by K3: the repository's own "
        "semantics suite evaluates to #true / not #true exactly as the repository documents)",
        "functions never evaluate two effectful operands in one expression (Go: left to right, GooseLang: right to left — the repository documents this)",
        "the 8-bit type is spelled byte in type positions (goose knows no type named uint8); untyped constant operands appear only in 64-bit contexts "
        "(known finding untyped-constant-operands); loop variables are not reused after the loop (known finding loop-variable-scope)",
    ]
    return ctx.finish(build)


def replay(ctx, path):
    _inp = json.load(open(path)).get("input", {})
    if isinstance(_inp, dict) and _inp.get("proto") == "retranslate":
        C.ensure_built("C01", ["translator", "guards", "printer"], need_harness=False, extra_go=gomod.EXTRA_GO)
        return gomod.replay_retranslate(_inp)
    obj = json.load(open(path))
    C.ensure_built("C01", ["translator", "guards", "printer"], need_harness=False, extra_go=gomod.EXTRA_GO)
    inp = obj["input"]
    if inp.get("proto") != "k4" or "seed" not in inp:
        return check(ctx)
    files, calls = make(inp["seed"])
    scratch = C.scratch()
    try:
        sh = shrink(files, calls, inp["function"], scratch)
        r = sh[2] if sh else k4.run_package(files, calls, scratch)
    finally:
        shutil.rmtree(scratch, ignore_errors=True)
    bad = [m for m in r["mismatches"] if m["fn"] == inp["function"]]
    print(json.dumps({"mismatches": bad[:3], "rejected": r["rejected"]}, indent=1))
    print("verdict:", "violates the property" if bad or inp["function"] in r["rejected"] else "meets the property")
    return 1 if bad or inp["function"] in r["rejected"] else 0
