"""Correspondence for Model/Scope.lean (scoping and shadowing): random programs over `:=`, `var`,
assignment, nested blocks and conditionals with a five-name pool (so shadowing of every kind is
constant) are written as Go functions; the REAL goose translates them; the parse tree of what it
emits must be exactly what Model.Scope.tr prints (rejections and messages included), and the value
Go computes natively must be the value the model's Go semantics computes and the value the Lean
interpreter computes from the emitted text."""
import os
import random
import re
import shutil

import common as C
import gomod
import gogen
import k4
import c07

NAMES = ["x", "y", "z", "a", "b"]


class Gen:
    def __init__(self, r):
        self.r = r

    def expr(self, vis, depth=2):
        r = self.r
        names = [n for n in vis]
        c = r.randrange(4)
        if depth <= 0 or c == 0 or not names:
            return [str(r.randrange(0, 9))] if (c == 0 or not names) else [r.choice(names)]
        if c == 1:
            return [r.choice(names)]
        return ["+"] + self.expr(vis, depth - 1) + self.expr(vis, depth - 1)

    def stmts(self, vis, depth, n):
        """vis: dict name -> 'def' | 'var' (innermost declaration); returns list of statements (token lists / nested)"""
        r = self.r
        out = []
        vis = dict(vis)
        here = set()
        for _ in range(n):
            c = r.randrange(10)
            if c < 3:
                free = [x for x in NAMES if x not in here]
                if not free:
                    continue
                x = r.choice(free)
                kind = "def" if c < 2 else "var"
                out.append((kind, x, self.expr(vis)))
                vis[x] = kind
                here.add(x)
                out.append(("set", "acc", ["+", "acc", x]))
            elif c < 6:
                cands = [x for x, k in vis.items() if k == "var"]
                if r.random() < 0.06:
                    cands = [x for x, k in vis.items() if k == "def"] or cands      # goose must reject this one
                if cands:
                    x = r.choice(cands)
                    out.append(("set", x, self.expr(vis)))
            elif c < 8 and depth > 0:
                out.append(("blk", self.stmts(vis, depth - 1, r.randrange(1, 4))))
            elif depth > 0:
                out.append(("if", self.expr(vis, 1), self.stmts(vis, depth - 1, r.randrange(1, 3)),
                            self.stmts(vis, depth - 1, r.randrange(1, 3)) if r.random() < 0.5 else []))
        return out

    def program(self):
        r = self.r
        vis = {"acc": "var"}
        body = [("var", "acc", ["0"])] + self.stmts(vis, 2, r.randrange(2, 7))
        return body


def toks(ss, ret=None):
    parts = []
    for s in ss:
        if s[0] in ("def", "var", "set"):
            parts.append([s[0], s[1]] + s[2])
        elif s[0] == "blk":
            parts.append(["blk", "["] + toks(s[1]) + ["]"])
        else:
            parts.append(["if"] + s[1] + ["["] + toks(s[2]) + ["]", "["] + toks(s[3]) + ["]"])
    if ret is not None:
        parts.append(["ret"] + ret)
    out = []
    for i, p in enumerate(parts):
        if i:
            out.append(";")
        out += p
    return out


def go_expr(e):
    """prefix tokens → Go source; returns (text, rest)"""
    if e[0] == "+":
        a, rest = go_expr(e[1:])
        b, rest = go_expr(rest)
        return "(%s + %s)" % (a, b), rest
    return e[0], e[1:]


def go_src(ss, ind):
    pad = "\t" * ind
    out = []
    for s in ss:
        if s[0] == "def":
            out.append("%s%s := uint64(%s)" % (pad, s[1], go_expr(s[2])[0]))
        elif s[0] == "var":
            out.append("%svar %s uint64 = %s" % (pad, s[1], go_expr(s[2])[0]))
        elif s[0] == "set":
            out.append("%s%s = %s" % (pad, s[1], go_expr(s[2])[0]))
        elif s[0] == "blk":
            out += ["%s{" % pad] + go_src(s[1], ind + 1) + ["%s}" % pad]
        else:
            out.append("%sif %s != 0 {" % (pad, go_expr(s[1])[0]))
            out += go_src(s[2], ind + 1)
            if s[3]:
                out += ["%s} else {" % pad] + go_src(s[3], ind + 1)
            out.append("%s}" % pad)
    return out


def strip_parens(text):
    """Go source writes (a + b); the canonical tree has no trace of parentheses — nothing to do on the tree side."""
    return text


def run(seed, nfuncs, scratch):
    r = random.Random(seed)
    funcs = []
    for i in range(nfuncs):
        g = Gen(r)
        body = g.program()
        vis_top = [s[1] for s in body if s[0] in ("def", "var")]
        ret = ["+", "acc", r.choice(vis_top)]
        funcs.append(("s%d" % i, body, ret))
    src = ["package p", ""]
    line_of = {}
    for name, body, ret in funcs:
        start = len(src) + 1
        src.append("func %s() uint64 {" % name)
        src += go_src(body, 1)
        src.append("\treturn %s" % go_expr(ret)[0])
        src += ["}", ""]
        line_of[name] = (start, len(src))
    runner = [gogen.PRINTER, "func RunAll() {"] + ['\tcall("%s#0", func() string { return show(%s()) })' % (n, n) for n, _, _ in funcs] + ["}"]
    files = {"p/p.go": "\n".join(src), "p/run.go": "\n".join(runner),
             "cmd/main.go": "package main\n\nimport \"example.com/m/p\"\n\nfunc main() {\n\tp.RunAll()\n}\n"}
    root = os.path.join(scratch, "scope")
    gomod.write_module(root, k4.split_files(files))
    nat, nerr = k4.native(root)
    if nat is None:
        raise C.Infra("scopecorr: generated package does not build: " + nerr)
    rc, gerr, text = k4.translate(root)
    if text is None:
        raise C.Infra("scopecorr: goose wrote nothing: " + gerr[-500:])
    errs = c07.parse_errors(gerr)
    lines = [" ".join(toks(body, ret)) for _, body, ret in funcs]
    model = C.driver("scope", lines)
    model_go = C.driver("scopego", lines)
    reps = k4.gl_session(text, ["names"])
    if reps[0].startswith("parse-error"):
        return {"functions": nfuncs}, {"what": "emitted file does not parse", "detail": k4.unhex(reps[0])}
    emitted = set(reps[1][6:].split(",")) if reps[1] != "names -" else set()
    present = [n for n, _, _ in funcs if n in emitted]
    canon = dict(zip(present, k4.gl_session(text, ["canon " + n for n in present])[1:]))
    evals = dict(zip(present, k4.gl_session(text, ["eval " + n for n in present])[1:]))
    stats = {"functions": nfuncs, "accepted": 0, "rejected": 0}
    bad = None
    for (name, body, ret), m, mg in zip(funcs, model, model_go):
        lo, hi = line_of[name]
        gosrc = "\n".join(src[lo - 1:hi])
        if name in emitted:
            stats["accepted"] += 1
            c = canon[name]
            mm = re.match(r"canon \(func %s \[\] \(rec \w+ \[5f\] (.*)\)\)$" % name, c)
            got = mm.group(1) if mm else "unreadable: " + c[:100]
            if got != m and bad is None:
                bad = {"what": "the emitted tree differs from Model.Scope.tr", "function": name, "go": gosrc, "model": m, "goose": got}
            want = nat.get(name + "#0")
            if bad is None and (want != "u64:" + mg or k4.unhex(evals[name]) != "value " + want):
                bad = {"what": "values differ", "function": name, "go": gosrc, "native_go": want, "model_go_semantics": mg, "interpreter_on_emitted": k4.unhex(evals[name])}
        else:
            stats["rejected"] += 1
            msgs = [msg for cat, msg, f, ln in errs if ln is not None and lo <= ln <= hi]
            ok = m.startswith("error variable-") and any("is not assignable" in x for x in msgs)
            if not ok and bad is None:
                bad = {"what": "goose rejects, the model says `%s`" % m[:200], "function": name, "go": gosrc, "goose_errors": msgs[:3]}
    shutil.rmtree(root, ignore_errors=True)
    return stats, bad
