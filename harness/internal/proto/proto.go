// Package proto holds helpers shared by the correspondence harnesses:
// a seeded PRNG, hex encoding, recover-to-reply, and the gen/run command shape.
package proto

import (
	"bufio"
	"encoding/hex"
	"fmt"
	"io"
	"os"
	"strings"
)

// Rng is a splitmix64 generator: every random choice of a harness derives from
// one seed (VERIF_SEED), so a disagreement replays exactly.
type Rng struct{ s uint64 }

func NewRng(seed uint64) *Rng { return &Rng{s: seed*0x9E3779B97F4A7C15 + 0x1234567} }

func (r *Rng) U64() uint64 {
	r.s += 0x9E3779B97F4A7C15
	z := r.s
	z = (z ^ (z >> 30)) * 0xBF58476D1CE4E5B9
	z = (z ^ (z >> 27)) * 0x94D049BB133111EB
	return z ^ (z >> 31)
}

func (r *Rng) Intn(n int) int {
	if n <= 0 {
		return 0
	}
	return int(r.U64() % uint64(n))
}

func (r *Rng) Bool() bool { return r.U64()&1 == 1 }

func (r *Rng) Bytes(n int) []byte {
	b := make([]byte, n)
	for i := range b {
		b[i] = byte(r.U64())
	}
	return b
}

// Pick returns one of xs.
func Pick[T any](r *Rng, xs []T) T { return xs[r.Intn(len(xs))] }

// Hex renders bytes as lower-case hex, "-" for empty (so that a field is never empty).
func Hex(b []byte) string {
	if len(b) == 0 {
		return "-"
	}
	return hex.EncodeToString(b)
}

func Unhex(s string) ([]byte, error) {
	if s == "-" {
		return []byte{}, nil
	}
	return hex.DecodeString(s)
}

// Lines reads all lines of r (without terminators), skipping empty ones.
func Lines(r io.Reader) []string {
	sc := bufio.NewScanner(r)
	sc.Buffer(make([]byte, 1<<20), 1<<28)
	var out []string
	for sc.Scan() {
		l := strings.TrimSpace(sc.Text())
		if l != "" {
			out = append(out, l)
		}
	}
	return out
}

// Out is a buffered stdout writer flushed by Flush.
var Out = bufio.NewWriterSize(os.Stdout, 1<<16)

// FlushEach makes every reply visible at once (a child that may be killed mid-run).
var FlushEach bool

func Reply(format string, args ...interface{}) {
	fmt.Fprintf(Out, format+"\n", args...)
	if FlushEach {
		Out.Flush()
	}
}

func Flush() { Out.Flush() }
