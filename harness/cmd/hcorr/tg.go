package main

import (
	"bytes"
	"encoding/hex"
	"fmt"
	"go/ast"
	"go/format"
	"go/parser"
	"go/token"
	"os"
	"os/exec"
	"path/filepath"
	"regexp"
	"sort"
	"strings"

	"go/build"
	"io"
	"verif/harness/internal/proto"
)

// tg protocol (C18): one case per line
//
//	tg <go|coq> (<name-hex> <f|d> <content-hex>)*
//
// run:  materialises the directory, runs the REAL test_gen binary (-tgbin) → "out <hex>"
// spec: the tests an independent reading of the property yields (go/parser: top-level functions
//
//	without receiver or type parameters named (failing_)?test[A-Za-z0-9]+, per file in
//	directory order, skipping backup / .gold.v / _test.go files) → "tests a,b,…"
func init() { protos["tg"] = protoImpl{gen: tgGen, run: tgRun} }

var testNameRe = regexp.MustCompile(`^(failing_)?test[A-Za-z0-9]+$`)

type tgFile struct {
	name     string
	dir      bool
	content  string
	excluded bool // the generator made it a file that build constraints keep out of the package (kind "x" on the wire)
}

func encodeCase(mode string, files []tgFile) string {
	var b strings.Builder
	b.WriteString("tg " + mode)
	for _, f := range files {
		k := "f"
		if f.dir {
			k = "d"
		} else if f.excluded {
			k = "x"
		}
		fmt.Fprintf(&b, " %s %s %s", proto.Hex([]byte(f.name)), k, proto.Hex([]byte(f.content)))
	}
	return b.String()
}

func decodeCase(w []string) (string, []tgFile, bool) {
	if len(w) < 2 || w[0] != "tg" || (len(w)-2)%3 != 0 {
		return "", nil, false
	}
	var files []tgFile
	for i := 2; i < len(w); i += 3 {
		n, e1 := proto.Unhex(w[i])
		c, e2 := proto.Unhex(w[i+2])
		if e1 != nil || e2 != nil {
			return "", nil, false
		}
		files = append(files, tgFile{string(n), w[i+1] == "d", string(c), w[i+1] == "x"})
	}
	return w[1], files, true
}

func gofmtSrc(src string) string {
	out, err := format.Source([]byte(src))
	if err != nil {
		panic("generator produced invalid Go: " + err.Error() + "\n" + src)
	}
	return string(out)
}

func genGoFile(r *proto.Rng, stream string, idx int) string {
	var b strings.Builder
	b.WriteString("package semantics\n\n")
	names := []string{"Add", "Sub2", "X", "loopBreak", "A1b2", "Z9"}
	nf := r.Intn(7)
	if r.Intn(8) == 0 {
		// a file with many tests (names of varying length): the generated files grow past any buffer size
		nf = 40 + r.Intn(80)
	}
	for i := 0; i < nf; i++ {
		base := fmt.Sprintf("%s%d%d", proto.Pick(r, names), idx, i)
		switch r.Intn(14) {
		case 12: // a passing test whose header line mentions a failing_… identifier
			fmt.Fprintf(&b, "var failing_flag%s = false\n\nfunc test%s() bool { return !failing_flag%s }\n\n", base, base, base)
		case 13:
			fmt.Fprintf(&b, "func test%s() bool { // not failing_ any more\n\treturn true\n}\n\n", base)
		case 0, 1, 2:
			fmt.Fprintf(&b, "func test%s() bool {\n\treturn true\n}\n\n", base)
		case 3:
			fmt.Fprintf(&b, "func failing_test%s() bool {\n\treturn false\n}\n\n", base)
		case 4:
			fmt.Fprintf(&b, "func disabled_test%s() bool {\n\treturn true\n}\n\n", base)
		case 5:
			fmt.Fprintf(&b, "func helper%s(x uint64) uint64 {\n\treturn x + 1\n}\n\n", base)
		case 6:
			fmt.Fprintf(&b, "type T%s struct{}\n\nfunc (t T%s) test%s() bool {\n\treturn true\n}\n\n", base, base, base)
		case 7:
			fmt.Fprintf(&b, "// test%s is documented\n// func test%sCommented() bool\nfunc test%s() bool { return helperInline() }\n\n", base, base, base)
		case 8:
			fmt.Fprintf(&b, "func testing%s() bool {\n\treturn true\n}\n\n", base) // "testing…" matches test[[:alnum:]]+
		case 9:
			fmt.Fprintf(&b, "func test%s(\n) bool {\n\treturn true\n}\n\n", base)
		case 10:
			fmt.Fprintf(&b, "var v%s = func() bool { return true }\n\n", base)
		case 11:
			fmt.Fprintf(&b, "func failing_tes%s() bool {\n\treturn true\n}\n\n", base)
		}
	}
	if stream == "tricky" {
		switch r.Intn(7) {
		case 5: // an indented header-like line inside a block comment: must stay unmatched
			fmt.Fprintf(&b, "/*\n\tfunc testIndentedInComment%d() bool {\n*/\n\n", idx)
		case 6: // … and inside a raw string, preceded by spaces
			fmt.Fprintf(&b, "var doc%d = `\n  func failing_testIndentedInString%d() bool {\n`\n\n", idx, idx)
		case 0: // names outside [[:alnum:]]: the regexes skip them
			fmt.Fprintf(&b, "func test_under%d() bool {\n\treturn true\n}\n\n", idx)
		case 1:
			fmt.Fprintf(&b, "func testGeneric%d[T any]() bool {\n\treturn true\n}\n\n", idx)
		case 2: // a header-looking line inside a raw string, at column 0
			fmt.Fprintf(&b, "var doc%d = `\nfunc testInsideString%d() bool {\n`\n\n", idx, idx)
		case 3: // inside a block comment, at column 0
			fmt.Fprintf(&b, "/*\nfunc testInsideComment%d() bool {\n*/\n\n", idx)
		case 4: // a very long line before a test: the scanner gives up
			fmt.Fprintf(&b, "var long%d = \"%s\"\n\nfunc testAfterLongLine%d() bool {\n\treturn true\n}\n\n", idx, strings.Repeat("x", 70000), idx)
		}
	}
	b.WriteString("func helperInline() bool { return true }\n")
	// each file declares helperInline: make it unique
	src := strings.Replace(b.String(), "func helperInline()", fmt.Sprintf("func helperInline%d()", idx), 1)
	src = strings.Replace(src, "helperInline()", fmt.Sprintf("helperInline%d()", idx), -1)
	return gofmtSrc(src)
}

func tgGen(seed uint64, tier string) {
	r := proto.NewRng(seed ^ 0xC18)
	n := 120
	if tier == "thorough" {
		n = 4000
	}
	stream := optStream
	if stream == "" {
		stream = "core"
	}
	if stream == "core" {
		// a passing and an expected-to-fail test function with the same name after the prefix
		pair := []tgFile{{name: "pair.go", content: "package semantics\n\nfunc testSame() bool {\n\treturn true\n}\n\nfunc failing_testSame() bool {\n\treturn false\n}\n"}}
		proto.Reply("%s", encodeCase("go", pair))
		proto.Reply("%s", encodeCase("coq", pair))
	}
	for i := 0; i < n; i++ {
		var files []tgFile
		nfile := r.Intn(4)
		for k := 0; k < nfile; k++ {
			files = append(files, tgFile{name: fmt.Sprintf("%s%d.go", proto.Pick(r, []string{"a", "m", "z", "B", "loop_tests", "x_test_util", "gold.v_", "old~"}), k), content: genGoFile(r, stream, k)})
		}
		if r.Intn(3) == 0 { // a _test.go file with test-looking functions, as `go test` files have
			files = append(files, tgFile{name: "extra_test.go", content: gofmtSrc(fmt.Sprintf("package semantics\n\nfunc testInTestFile%d() bool { return true }\n", i))})
		}
		if r.Intn(3) == 0 {
			files = append(files, tgFile{name: "generated_test.go", content: "// Code generated by goose/cmd/test_gen DO NOT EDIT.\npackage semantics\n\nfunc (suite *GoTestSuite) TestX() {\n}\n"})
		}
		if r.Intn(3) == 0 {
			files = append(files, tgFile{name: "semantics.gold.v", content: "(* autogenerated from semantics *)\nDefinition testX: val :=\n  rec: \"testX\" <> := #true.\nfunc testGold() is not Go\n"})
		}
		if r.Intn(4) == 0 {
			files = append(files, tgFile{name: "old.go~", content: "package semantics\n\nfunc testBackup() bool {\n\treturn true\n}\n"})
		}
		if r.Intn(5) == 0 {
			files = append(files, tgFile{name: "sub", dir: true})
		}
		// files the Go toolchain does not compile into the package: their functions do not exist for the generated tests
		if r.Intn(4) == 0 {
			files = append(files, tgFile{name: "_hidden.go", content: "package semantics\n\nfunc testHidden() bool {\n\treturn true\n}\n"})
		}
		if r.Intn(5) == 0 {
			files = append(files, tgFile{name: ".dot.go", content: "package semantics\n\nfunc failing_testDot() bool {\n\treturn false\n}\n"})
		}
		if r.Intn(5) == 0 {
			files = append(files, tgFile{name: "notes.txt", content: "func testInNotes() bool {\nnot Go at all\n"})
		}
		// what editors, patch and merge tools leave next to a source file: names that CONTAIN ".go" without ending in it
		if r.Intn(4) == 0 {
			nm := proto.Pick(r, []string{"real.go.orig", "real.go.rej", "real.go.bak", "real.go.txt", "#real.go#", "notes.gold", "real.go.swp"})
			files = append(files, tgFile{name: nm, content: "package semantics\n\nfunc testLeftover() bool {\n\treturn true\n}\n"})
		}
		// a very long line that holds, at offsets that are multiples of 4096, text looking like the start of a test function: a
		// reader that hands out long lines in pieces must not take a piece for a line
		if r.Intn(4) == 0 {
			var lb strings.Builder
			lb.WriteString("package semantics\n\nfunc testBeforeLong() bool {\n\treturn true\n}\n\n")
			// (both alignments: multiples of 4096 counted from the start of the line, and from the start of the file)
			lineStart := lb.Len()
			lb.WriteString("var long = \"")
			rel := r.Intn(2) == 0
			for (rel && (lb.Len()-lineStart)%4096 != 0) || (!rel && lb.Len()%4096 != 0) {
				lb.WriteByte('x')
			}
			for k := 0; k < 3; k++ {
				piece := "func testGhost" + fmt.Sprint(k) + "() bool {"
				lb.WriteString(piece)
				for n := len(piece); n < 4096; n++ {
					lb.WriteByte('y')
				}
			}
			lb.WriteString("\"\n\nfunc testAfterLong() bool {\n\treturn len(long) > 0\n}\n")
			files = append(files, tgFile{name: "longline.go", content: lb.String()})
		}
		// … and files that build constraints keep out of the package: never compiled, compiled on another system only, or
		// part of only one of the two views of the package (goose translates with the tag `goose`, `go test` runs without it)
		if r.Intn(4) == 0 {
			files = append(files, tgFile{name: "ignored.go", excluded: true, content: "//go:build ignore\n\npackage semantics\n\nfunc testIgnored() bool {\n\treturn true\n}\n"})
		}
		if r.Intn(5) == 0 {
			files = append(files, tgFile{name: "paths_windows.go", excluded: true, content: "package semantics\n\nfunc testWin() bool {\n\treturn true\n}\n"})
		}
		if r.Intn(5) == 0 {
			files = append(files, tgFile{name: "onlygoose.go", excluded: true, content: "//go:build goose\n\npackage semantics\n\nfunc failing_testOnlyGoose() bool {\n\treturn false\n}\n"})
		}
		if r.Intn(5) == 0 {
			files = append(files, tgFile{name: "nogoose.go", excluded: true, content: "//go:build !goose\n\npackage semantics\n\nfunc testNoGoose() bool {\n\treturn true\n}\n"})
		}
		if r.Intn(5) == 0 {
			// (a constraint that holds in both views: an ordinary file of the package)
			files = append(files, tgFile{name: "linuxorany.go", content: "//go:build linux || !linux\n\npackage semantics\n\nfunc testEverywhere() bool {\n\treturn true\n}\n"})
		}
		sort.Slice(files, func(a, b int) bool { return files[a].name < files[b].name })
		proto.Reply("%s", encodeCase("go", files))
		proto.Reply("%s", encodeCase("coq", files))
	}
}

func materialise(dir string, files []tgFile) error {
	os.RemoveAll(dir)
	if err := os.MkdirAll(dir, 0755); err != nil {
		return err
	}
	for _, f := range files {
		p := filepath.Join(dir, f.name)
		if f.dir {
			if err := os.MkdirAll(p, 0755); err != nil {
				return err
			}
			continue
		}
		if err := os.WriteFile(p, []byte(f.content), 0644); err != nil {
			return err
		}
	}
	return nil
}

// specTests: what the property promises, read independently of the regular expressions.
func specTests(files []tgFile) []string {
	var out []string
	for _, f := range files {
		if f.dir || strings.HasSuffix(f.name, "~") || strings.HasSuffix(f.name, ".gold.v") || strings.HasSuffix(f.name, "_test.go") {
			continue
		}
		if !strings.HasSuffix(f.name, ".go") || strings.HasPrefix(f.name, "_") || strings.HasPrefix(f.name, ".") {
			continue // not part of the package as the Go toolchain sees it
		}
		if !inBothViews(f) {
			continue // build constraints keep it out of the package goose translates, or out of the one `go test` compiles
		}
		fset := token.NewFileSet()
		af, err := parser.ParseFile(fset, f.name, f.content, 0)
		if err != nil {
			continue
		}
		for _, d := range af.Decls {
			fd, ok := d.(*ast.FuncDecl)
			if !ok || fd.Recv != nil || fd.Type.TypeParams != nil {
				continue
			}
			if testNameRe.MatchString(fd.Name.Name) {
				out = append(out, fd.Name.Name)
			}
		}
	}
	return out
}

// inBothViews asks go/build (an in-memory file system holding just this file) whether the file belongs to the package with and
// without the build tag `goose`.
func inBothViews(f tgFile) bool {
	for _, tags := range [][]string{nil, {"goose"}} {
		ctxt := build.Default
		ctxt.BuildTags = tags
		ctxt.OpenFile = func(path string) (io.ReadCloser, error) {
			return io.NopCloser(strings.NewReader(f.content)), nil
		}
		ok, err := ctxt.MatchFile("/virtual", f.name)
		if err != nil || !ok {
			return false
		}
	}
	return true
}

func tgRun(lines []string) {
	bin := os.Getenv("VERIF_TESTGEN")
	if bin == "" {
		fmt.Fprintln(os.Stderr, "tg run: VERIF_TESTGEN must name the test_gen binary built from /repo")
		os.Exit(2)
	}
	dir := filepath.Join(optScratch, "tgdir")
	defer os.RemoveAll(dir)
	caseNo := 0
	for _, l := range lines {
		mode, files, ok := decodeCase(strings.Fields(l))
		if !ok {
			proto.Reply("bad-op")
			continue
		}
		if optImpl == "spec" {
			proto.Reply("tests %s", strings.Join(specTests(files), ","))
			continue
		}
		if err := materialise(dir, files); err != nil {
			proto.Reply("harness-error %v", err)
			continue
		}
		var stdout, stderr bytes.Buffer
		caseNo++
		if caseNo%3 == 0 {
			// through -out, over an existing LONGER file (an earlier generation of a package that had more tests)
			outFile := filepath.Join(optScratch, "tg-out.txt")
			stale := strings.Repeat("// left over from an earlier generation\nfunc (suite *GoTestSuite) TestStale() {\n}\nFail Example stale_ok : stale #() ~~> #true := t.\n", 400)
			if err := os.WriteFile(outFile, []byte(stale), 0644); err != nil {
				proto.Reply("harness-error %v", err)
				continue
			}
			cmd := exec.Command(bin, "-"+mode, "-out", outFile, dir)
			cmd.Stdout = &stdout
			cmd.Stderr = &stderr
			if err := cmd.Run(); err != nil {
				proto.Reply("exit %v %s", err, hex.EncodeToString(stderr.Bytes()))
				continue
			}
			got, err := os.ReadFile(outFile)
			os.Remove(outFile)
			if err != nil {
				proto.Reply("harness-error %v", err)
				continue
			}
			proto.Reply("out %s", proto.Hex(append(stdout.Bytes(), got...)))
			continue
		}
		cmd := exec.Command(bin, "-"+mode, dir)
		cmd.Stdout = &stdout
		cmd.Stderr = &stderr
		if err := cmd.Run(); err != nil {
			proto.Reply("exit %v %s", err, hex.EncodeToString(stderr.Bytes()))
			continue
		}
		proto.Reply("out %s", proto.Hex(stdout.Bytes()))
	}
}
