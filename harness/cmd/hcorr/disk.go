package main

import (
	"fmt"
	"os"
	"os/signal"
	"path/filepath"
	"strconv"
	"strings"
	"syscall"
	"time"

	"github.com/goose-lang/goose/machine/async_disk"
	"github.com/goose-lang/goose/machine/disk"

	"verif/harness/internal/proto"
)

// disk protocol (C09, C11). See Driver/Disk.lean for the op grammar.
//
//	-impl mem|file|amem|afile|gmem|gfile   (a*: through package async_disk, g*: through the global wrappers)
//	-stream core|reopen|big
func init() { protos["disk"] = protoImpl{gen: diskGen, run: diskRun} }

const bsz = 4096

var oddAddrs = []uint64{1 << 20, 1<<20 + 3, 1 << 32, 1<<32 + 1, 1 << 51, 1 << 52, 1<<52 + 1, 1<<52 + 2, 1 << 53, 1<<63 - 1, 1 << 63, 1<<63 + 2, ^uint64(0), ^uint64(0) - 1}

func diskGen(seed uint64, tier string) {
	r := proto.NewRng(seed ^ 0xD15C)
	nh, maxOps := 120, 60
	if tier == "thorough" {
		nh, maxOps = 4000, 300
	}
	switch optStream {
	case "", "core", "shortbuf":
		for h := 0; h < nh; h++ {
			n := proto.Pick(r, []int{0, 1, 2, 3, 5, 8, 13, 32, 64})
			proto.Reply("new %d", n)
			genHistory(r, uint64(n), 5+r.Intn(maxOps), false)
		}
	case "reopen":
		for h := 0; h < nh; h++ {
			n := proto.Pick(r, []int{0, 1, 2, 3, 4, 7, 16})
			switch r.Intn(3) {
			case 0:
				proto.Reply("new %d", n)
			default:
				// prior image lengths: 0, 1, n bytes, partial block, exact, exact±1, larger
				l := proto.Pick(r, []int{0, 1, n, n + 1, bsz - 1, bsz, bsz + 1, n*bsz - 1, n * bsz, n*bsz + 1, 2 * n * bsz, n*bsz + bsz/2, 3*bsz + 17})
				if l < 0 {
					l = 0
				}
				proto.Reply("newimg %d %d %d", n, l, 1+r.Intn(255))
			}
			cur := uint64(n)
			for k := 0; k < 1+r.Intn(5); k++ {
				genHistory(r, cur, 3+r.Intn(maxOps/3), false)
				m := int(cur)
				switch r.Intn(4) {
				case 0:
					m = proto.Pick(r, []int{0, 1, 2, 3, 4, 7, 16, 20})
				case 1:
					m = m + 1 + r.Intn(3)
				case 2:
					if m > 0 {
						m = m - 1 - r.Intn(m)
					}
				}
				proto.Reply("reopen %d", m)
				cur = uint64(m)
			}
			genHistory(r, cur, 3+r.Intn(10), false)
		}
	case "huge":
		// block counts whose byte length is not a file offset (numBlocks*4096 > 2^63-1, or wraps around 2^64): such a disk
		// cannot exist — and if it is opened all the same, blocks whose byte offsets agree modulo 2^64 are still different blocks
		for _, n := range []uint64{1 << 53, 1<<52 + 2, 1 << 51, 1 << 63, 1<<64 - 1, 1<<52 + 1<<20} {
			proto.Reply("new %d", n)
			genHistory(r, n, 24, true)
			proto.Reply("reopen %d", n)
			genHistory(r, n, 8, true)
		}
	case "big":
		// sparse disks beyond 4 GiB / 2^32 bytes: offsets that do not fit 32 bits
		for h := 0; h < 6; h++ {
			n := proto.Pick(r, []uint64{1<<20 + 8, 1<<20 + 1, 1<<21 + 5})
			proto.Reply("new %d", n)
			genHistory(r, n, 40, true)
		}
	}
}

func genHistory(r *proto.Rng, n uint64, nops int, big bool) {
	nbuf := 0
	var full []int // ids of block-sized buffers (ReadTo targets: a Block is 4096 bytes by definition)
	// every history starts with a few block-sized buffers with distinct fills
	for _, l := range []int{bsz, bsz, bsz} {
		proto.Reply("buf %d %d", l, 1+r.Intn(255))
		full = append(full, nbuf)
		nbuf++
	}
	if optStream == "reopen" {
		// observe the freshly opened image through ReadTo into a dirty buffer (a short or
		// failed read cannot hide behind a zeroed buffer)
		lim := n
		if lim > 4 {
			lim = 4
		}
		for a := uint64(0); a < lim; a++ {
			proto.Reply("readto %d %d", a, r.Intn(3))
			proto.Reply("peek %d", 0)
			proto.Reply("peek %d", 1)
			proto.Reply("peek %d", 2)
		}
		if n > 0 {
			proto.Reply("readto %d %d", n-1, 0)
			proto.Reply("peek 0")
		}
	}
	addr := func() uint64 {
		switch r.Intn(12) {
		case 0:
			return n // first out-of-range address
		case 1:
			return n + uint64(r.Intn(3))
		case 2:
			return proto.Pick(r, oddAddrs)
		case 3:
			if n > 0 {
				return n - 1
			}
			return 0
		default:
			if n == 0 {
				return uint64(r.Intn(2))
			}
			if big {
				// block pairs that collide modulo 2^20 / 2^32 bytes
				base := uint64(r.Intn(8))
				if n > 1<<52+8 && r.Intn(2) == 0 {
					// (byte offsets that agree modulo 2^64)
					return proto.Pick(r, []uint64{base, base + 1<<52})
				}
				return proto.Pick(r, []uint64{base, base + 1<<20, n - 1 - base})
			}
			if r.Intn(3) == 0 {
				return uint64(r.Intn(int(minU(n, 4)))) // hot addresses
			}
			return uint64(r.Intn(int(n)))
		}
	}
	for i := 0; i < nops; i++ {
		switch r.Intn(16) {
		case 0:
			l := proto.Pick(r, []int{bsz, bsz, bsz, 0, 1, bsz - 1, bsz + 1, 2 * bsz})
			proto.Reply("buf %d %d", l, r.Intn(256))
			if l == bsz {
				full = append(full, nbuf)
			}
			nbuf++
		case 1, 2:
			b := r.Intn(nbuf)
			proto.Reply("poke %d %d %d", b, proto.Pick(r, []int{0, 1, 7, 8, 100, bsz - 1, r.Intn(bsz)}), r.Intn(256))
		case 3:
			proto.Reply("peek %d", r.Intn(nbuf))
		case 4, 5, 6, 7:
			a := addr()
			proto.Reply("read %d", a)
			if a < n { // a successful read adds a block-sized buffer to the heap
				full = append(full, nbuf)
				nbuf++
			}
		case 8, 9:
			if optStream == "shortbuf" {
				proto.Reply("readto %d %d", addr(), r.Intn(nbuf))
			} else {
				proto.Reply("readto %d %d", addr(), proto.Pick(r, full))
			}
		case 10, 11, 12, 13:
			proto.Reply("write %d %d", addr(), r.Intn(nbuf))
		case 14:
			proto.Reply("size")
		case 15:
			proto.Reply("barrier")
		}
	}
	// final sweep: read back every (small) address so that stray writes are observed
	lim := n
	if lim > 16 {
		lim = 16
	}
	for a := uint64(0); a < lim; a++ {
		proto.Reply("read %d", a)
	}
}

func minU(a, b uint64) uint64 {
	if a < b {
		return a
	}
	return b
}

func hashBytes(b []byte) uint64 {
	h := uint64(7)
	for _, x := range b {
		h = (h*31 + uint64(x) + 1) % 4294967291
	}
	return h
}

type diskDriver struct {
	d     disk.Disk
	path  string
	bufs  [][]byte
	glob  bool
	nrt   uint64 // operations routed so far (global disks: wrapper, Get() and the handle given to Init are one disk)
	async bool
	file  bool
	hung  bool // an operation did not return: the disk is unusable until the next `new`
}

func (dd *diskDriver) open(n uint64) string {
	if dd.file {
		var d disk.Disk
		var err error
		if dd.async {
			d, err = async_disk.NewFileDisk(dd.path, n)
		} else {
			d, err = disk.NewFileDisk(dd.path, n)
		}
		if err != nil {
			return "panic"
		}
		dd.d = d
	} else {
		if n > 1<<16 {
			return "unsupported"
		}
		if dd.async {
			dd.d = async_disk.NewMemDisk(n)
		} else {
			dd.d = disk.NewMemDisk(n)
		}
	}
	if dd.glob {
		disk.Init(dd.d)
	}
	return "ok"
}

// route says how the next operation on a global disk reaches it: 0 through the package-level wrapper, 1 through
// disk.Get(), 2 through the handle that was given to disk.Init — deterministic, not periodic in step with the generator
func (dd *diskDriver) route() int {
	dd.nrt++
	x := dd.nrt*2654435761 + dd.nrt/3
	return int((x >> 7) % 3)
}

func (dd *diskDriver) closeDisk() {
	if dd.d != nil {
		func() {
			defer func() { recover() }()
			dd.d.Close()
		}()
		dd.d = nil
	}
}

func (dd *diskDriver) one(w []string) string {
	num := func(i int) (uint64, bool) {
		if i >= len(w) {
			return 0, false
		}
		v, err := strconv.ParseUint(w[i], 10, 64)
		return v, err == nil
	}
	switch w[0] {
	case "new", "newimg":
		n, ok := num(1)
		if !ok {
			return "bad-op"
		}
		dd.closeDisk()
		dd.bufs = nil
		if dd.file {
			os.Remove(dd.path)
		}
		if w[0] == "newimg" {
			if !dd.file {
				return "unsupported"
			}
			l, ok1 := num(2)
			f, ok2 := num(3)
			if !ok1 || !ok2 {
				return "bad-op"
			}
			img := make([]byte, l)
			for i := range img {
				img[i] = byte(f)
			}
			if err := os.WriteFile(dd.path, img, 0644); err != nil {
				return "harness-error " + err.Error()
			}
		}
		return dd.open(n)
	case "reopen":
		n, ok := num(1)
		if !ok || !dd.file {
			return "unsupported"
		}
		dd.closeDisk()
		return dd.open(n)
	}
	if dd.d == nil {
		return "bad-op"
	}
	switch w[0] {
	case "fsize":
		// fsize <bytes>: from now on this process may not write files beyond <bytes> (RLIMIT_FSIZE, SIGXFSZ ignored):
		// a write that straddles the limit is SHORT (no error), one that starts beyond it fails with EFBIG
		n, ok := num(1)
		if !ok {
			return "bad-op"
		}
		signal.Ignore(syscall.SIGXFSZ)
		var cur syscall.Rlimit
		syscall.Getrlimit(syscall.RLIMIT_FSIZE, &cur)
		if err := syscall.Setrlimit(syscall.RLIMIT_FSIZE, &syscall.Rlimit{Cur: n, Max: cur.Max}); err != nil {
			return "harness-error " + err.Error()
		}
		return "ok"
	case "extrunc":
		// extrunc <bytes>: somebody else truncates the image while the disk is open (reads beyond are short, no error)
		n, ok := num(1)
		if !ok || !dd.file {
			return "unsupported"
		}
		if err := os.Truncate(dd.path, int64(n)); err != nil {
			return "harness-error " + err.Error()
		}
		return "ok"
	case "buf":
		l, ok1 := num(1)
		f, ok2 := num(2)
		if !ok1 || !ok2 {
			return "bad-op"
		}
		// the capacity often exceeds the length (a window into a staging area): only the length may matter to the disk
		c := l
		switch f % 3 {
		case 0:
			if l < 4096 {
				c = 4096
			}
		case 1:
			c = l + 4096
		}
		b := make([]byte, l, c)
		for i := range b {
			b[i] = byte(f)
		}
		dd.bufs = append(dd.bufs, b)
		return fmt.Sprintf("b%d", len(dd.bufs)-1)
	case "poke":
		b, ok1 := num(1)
		i, ok2 := num(2)
		v, ok3 := num(3)
		if !ok1 || !ok2 || !ok3 || b >= uint64(len(dd.bufs)) || i >= uint64(len(dd.bufs[b])) {
			return "bad-op"
		}
		dd.bufs[b][i] = byte(v)
		return "ok"
	case "peek":
		b, ok := num(1)
		if !ok || b >= uint64(len(dd.bufs)) {
			return "bad-op"
		}
		return fmt.Sprintf("bytes %d %d", len(dd.bufs[b]), hashBytes(dd.bufs[b]))
	case "read":
		a, ok := num(1)
		if !ok {
			return "bad-op"
		}
		return guard(func() string {
			var blk []byte
			if dd.glob {
				switch dd.route() {
				case 0:
					blk = disk.Read(a)
				case 1:
					blk = disk.Get().Read(a)
				default:
					blk = dd.d.Read(a)
				}
			} else {
				blk = dd.d.Read(a)
			}
			dd.bufs = append(dd.bufs, blk)
			return fmt.Sprintf("b%d %d %d", len(dd.bufs)-1, len(blk), hashBytes(blk))
		})
	case "readto":
		a, ok1 := num(1)
		b, ok2 := num(2)
		if !ok1 || !ok2 || b >= uint64(len(dd.bufs)) {
			return "bad-op"
		}
		return guard(func() string {
			if dd.glob {
				disk.Get().ReadTo(a, dd.bufs[b])
			} else {
				dd.d.ReadTo(a, dd.bufs[b])
			}
			return "ok"
		})
	case "write":
		a, ok1 := num(1)
		b, ok2 := num(2)
		if !ok1 || !ok2 || b >= uint64(len(dd.bufs)) {
			return "bad-op"
		}
		return guard(func() string {
			if dd.glob {
				switch dd.route() {
				case 0:
					disk.Write(a, dd.bufs[b])
				case 1:
					disk.Get().Write(a, dd.bufs[b])
				default:
					dd.d.Write(a, dd.bufs[b])
				}
			} else {
				dd.d.Write(a, dd.bufs[b])
			}
			return "ok"
		})
	case "size":
		return guard(func() string {
			if dd.glob && dd.route() == 0 {
				return fmt.Sprintf("n %d", disk.Size())
			}
			return fmt.Sprintf("n %d", dd.d.Size())
		})
	case "barrier":
		return guard(func() string {
			if dd.glob && dd.route() == 0 {
				disk.Barrier()
			} else {
				dd.d.Barrier()
			}
			return "ok"
		})
	}
	return "bad-op"
}

func diskRun(lines []string) {
	dd := &diskDriver{}
	switch optImpl {
	case "mem":
	case "file":
		dd.file = true
	case "amem":
		dd.async = true
	case "afile":
		dd.async, dd.file = true, true
	case "gmem":
		dd.glob = true
	case "gfile":
		dd.glob, dd.file = true, true
	default:
		fmt.Fprintln(os.Stderr, "disk run: -impl mem|file|amem|afile|gmem|gfile")
		os.Exit(2)
	}
	if dd.file {
		if optScratch == "" {
			fmt.Fprintln(os.Stderr, "disk run: -scratch required for file implementations")
			os.Exit(2)
		}
		dd.path = filepath.Join(optScratch, "disk-"+optImpl+".img")
		defer os.Remove(dd.path)
	}
	for _, l := range lines {
		w := strings.Fields(l)
		isNew := len(w) > 0 && (w[0] == "new" || w[0] == "newimg")
		if dd.hung {
			// once an operation has hung nothing else is tried in this process (every further hang would cost the full
			// wait): the first one is the finding
			_ = isNew
			proto.Reply("hang")
			continue
		}
		if optPin {
			// under strace fault injection every system call must come from the pinned thread: no watchdog
			proto.Reply("%s", dd.one(w))
			continue
		}
		cur := dd
		done := make(chan string, 1)
		go func() { done <- cur.one(w) }()
		select {
		case r := <-done:
			proto.Reply("%s", r)
		case <-time.After(8 * time.Second):
			// e.g. a lock that a panicking operation never released
			proto.Reply("hang")
			dd.hung = true
		}
	}
	if !dd.hung {
		dd.closeDisk()
	}
}
