// Command hcorr is the T-corr harness: it generates operation lines for a protocol
// (`hcorr <proto> gen -seed S -tier T`, ops on stdout) and executes operation lines
// against the REAL code of /repo in-process (`hcorr <proto> run`, ops on stdin, one
// canonical reply per line on stdout). bin/check pipes the same ops to the Lean
// driver and diffs the two reply streams.
package main

import (
	"flag"
	"fmt"
	"os"
	"os/signal"
	"runtime"
	"syscall"

	"verif/harness/internal/proto"
)

type protoImpl struct {
	gen func(seed uint64, tier string)
	run func(lines []string)
}

var protos = map[string]protoImpl{}

var optImpl, optScratch, optStream string
var optPin, optKeep bool
var optFdBase int

func main() {
	if len(os.Args) < 3 {
		fmt.Fprintln(os.Stderr, "usage: hcorr <proto> gen|run [flags]")
		os.Exit(2)
	}
	p, ok := protos[os.Args[1]]
	if !ok {
		fmt.Fprintln(os.Stderr, "unknown protocol", os.Args[1])
		os.Exit(2)
	}
	fs := flag.NewFlagSet("hcorr", flag.ExitOnError)
	seed := fs.Uint64("seed", 1, "PRNG seed")
	tier := fs.String("tier", "quick", "quick|thorough")
	fs.StringVar(&optImpl, "impl", "", "implementation variant (protocol specific)")
	fs.StringVar(&optScratch, "scratch", "", "scratch directory for file-backed implementations")
	fs.StringVar(&optStream, "stream", "", "generator stream (protocol specific)")
	fs.BoolVar(&optKeep, "keeproot", false, "fs: attach to the existing scratch root (a restarted process) and leave it in place")
	fs.IntVar(&optFdBase, "fdbase", 0, "fs: number of descriptors handed out before this process started")
	fs.BoolVar(&optPin, "pin", false, "lock the OS thread and flush every reply (for runs under strace fault injection)")
	fsize := fs.Int64("fsize", -1, "limit the size of files this process may write (RLIMIT_FSIZE, SIGXFSZ ignored): writes beyond it are short, then fail with EFBIG")
	fs.Parse(os.Args[3:])
	if *fsize >= 0 {
		signal.Ignore(syscall.SIGXFSZ)
		lim := syscall.Rlimit{Cur: uint64(*fsize), Max: uint64(*fsize)}
		if err := syscall.Setrlimit(syscall.RLIMIT_FSIZE, &lim); err != nil {
			fmt.Fprintln(os.Stderr, "setrlimit:", err)
			os.Exit(2)
		}
	}
	defer proto.Flush()
	if optPin {
		runtime.LockOSThread()
		proto.FlushEach = true
	}
	switch os.Args[2] {
	case "gen":
		p.gen(*seed, *tier)
	case "run":
		p.run(proto.Lines(os.Stdin))
	default:
		fmt.Fprintln(os.Stderr, "usage: hcorr <proto> gen|run")
		os.Exit(2)
	}
}
