package main

import (
	"fmt"
	"os"
	"path/filepath"
	"sort"
	"strconv"
	"strings"

	"github.com/goose-lang/goose/machine/filesys"

	"verif/harness/internal/proto"
)

// fs protocol (C12, C13). A history starts with `newfs`.
//
//	mkdir d | create d n | append k hex | close k | open d n | readat k off len | delete d n
//	link od on nd nn | atomic d n hex | list d
//
// Descriptors are named by creation index k (the k-th descriptor returned by Create/Open).
// After every call that passes a byte slice the harness overwrites the slice it passed, and
// after ReadAt it overwrites the returned slice (after recording it), so that any aliasing
// between caller memory and file contents shows up in later reads.
//
//	-impl mem|dir|gmem|gdir    (g*: through the package-level wrappers and filesys.Fs)
func init() { protos["fs"] = protoImpl{gen: fsGen, run: fsRun} }

// ---- generator: tracks a tiny reference state so that only valid histories are produced ----

type gfd struct {
	ino    int
	read   bool
	closed bool
}

type gstate struct {
	dirs    []string
	dirents map[[2]string]int
	sizes   []int // inode -> length
	fds     []gfd
}

var nameStock = []string{"a", "b", "c", "d", "e.tmp"}
var dirStock = []string{"d1", "d2", "d3"}

func genData(r *proto.Rng) []byte {
	var n int
	switch r.Intn(10) {
	case 0:
		n = 0
	case 1:
		n = 1
	case 2:
		n = proto.Pick(r, []int{4095, 4096, 4097, 8192, 3*4096 + 1})
	case 3:
		n = 100 + r.Intn(3000)
	default:
		n = 1 + r.Intn(24)
	}
	b := make([]byte, n)
	base := byte(r.Intn(256))
	for i := range b {
		b[i] = base + byte(i*7)
	}
	return b
}

func fsGen(seed uint64, tier string) {
	r := proto.NewRng(seed ^ 0xF5)
	nh, maxOps := 150, 40
	if tier == "thorough" {
		nh, maxOps = 6000, 300
	}
	for h := 0; h < nh; h++ {
		proto.Reply("newfs")
		g := &gstate{dirents: map[[2]string]int{}}
		nd := 1 + r.Intn(3)
		for i := 0; i < nd; i++ {
			proto.Reply("mkdir %s", dirStock[i])
			g.dirs = append(g.dirs, dirStock[i])
		}
		nops := 5 + r.Intn(maxOps)
		for i := 0; i < nops; i++ {
			genFsOp(r, g)
		}
		// final sweep: list every directory, read every name back
		for _, d := range g.dirs {
			proto.Reply("list %s", d)
		}
		var keys [][2]string
		for k := range g.dirents {
			keys = append(keys, k)
		}
		sort.Slice(keys, func(i, j int) bool { return keys[i][0]+"/"+keys[i][1] < keys[j][0]+"/"+keys[j][1] })
		for _, k := range keys {
			proto.Reply("open %s %s", k[0], k[1])
			g.fds = append(g.fds, gfd{ino: g.dirents[k], read: true})
			proto.Reply("readat %d 0 %d", len(g.fds)-1, g.sizes[g.dirents[k]]+5)
		}
	}
}

func genFsOp(r *proto.Rng, g *gstate) {
	d := proto.Pick(r, g.dirs)
	n := proto.Pick(r, nameStock)
	openFds := func(read bool) []int {
		var out []int
		for i, f := range g.fds {
			if !f.closed && f.read == read {
				out = append(out, i)
			}
		}
		return out
	}
	var existing [][2]string
	for k := range g.dirents {
		existing = append(existing, k)
	}
	sort.Slice(existing, func(i, j int) bool { return existing[i][0]+"/"+existing[i][1] < existing[j][0]+"/"+existing[j][1] })
	switch r.Intn(14) {
	case 0, 1:
		proto.Reply("create %s %s", d, n)
		if _, ok := g.dirents[[2]string{d, n}]; !ok {
			g.sizes = append(g.sizes, 0)
			g.dirents[[2]string{d, n}] = len(g.sizes) - 1
			g.fds = append(g.fds, gfd{ino: len(g.sizes) - 1})
		}
	case 2, 3, 4:
		if w := openFds(false); len(w) > 0 {
			k := proto.Pick(r, w)
			data := genData(r)
			proto.Reply("append %d %s", k, proto.Hex(data))
			g.sizes[g.fds[k].ino] += len(data)
		}
	case 5:
		var all []int
		for i, f := range g.fds {
			if !f.closed {
				all = append(all, i)
			}
		}
		if len(all) > 0 {
			k := proto.Pick(r, all)
			proto.Reply("close %d", k)
			g.fds[k].closed = true
		}
	case 6, 7:
		if len(existing) > 0 {
			k := proto.Pick(r, existing)
			proto.Reply("open %s %s", k[0], k[1])
			g.fds = append(g.fds, gfd{ino: g.dirents[k], read: true})
		}
	case 8, 9:
		if rd := openFds(true); len(rd) > 0 {
			k := proto.Pick(r, rd)
			sz := g.sizes[g.fds[k].ino]
			off := proto.Pick(r, []int{0, 0, 1, sz / 2, sz - 1, sz, sz + 1, 4096, 4095, sz + 1000})
			if off < 0 {
				off = 0
			}
			ln := proto.Pick(r, []int{0, 1, 5, sz, sz + 1, 4096, 4097, 3 * 4096, sz - off, sz - off + 1})
			if ln < 0 {
				ln = 0
			}
			proto.Reply("readat %d %d %d", k, off, ln)
		}
	case 10:
		if len(existing) > 0 {
			k := proto.Pick(r, existing)
			proto.Reply("delete %s %s", k[0], k[1])
			delete(g.dirents, k)
		}
	case 11:
		if len(existing) > 0 {
			k := proto.Pick(r, existing)
			proto.Reply("link %s %s %s %s", k[0], k[1], d, n)
			if _, ok := g.dirents[[2]string{d, n}]; !ok {
				g.dirents[[2]string{d, n}] = g.dirents[k]
			}
		}
	case 12:
		data := genData(r)
		proto.Reply("atomic %s %s %s", d, n, proto.Hex(data))
		g.sizes = append(g.sizes, len(data))
		g.dirents[[2]string{d, n}] = len(g.sizes) - 1
	case 13:
		proto.Reply("list %s", d)
	}
}

// ---- runner ----

type fsDriver struct {
	fs   filesys.Filesys
	glob bool
	fds  []filesys.File
	done map[int]bool // descriptors the history closed itself
	root string
	dirf *filesys.DirFs
}

func scribble(b []byte) {
	for i := range b {
		b[i] ^= 0xA5
	}
}

func (fd *fsDriver) reset() string {
	// descriptors the previous history left open are closed here: a long stream of histories must not run the process
	// into its descriptor limit (DirFs descriptors are OS descriptors)
	if fd.fs != nil {
		for i, f := range fd.fds {
			if !fd.done[i] {
				func() {
					defer func() { recover() }()
					fd.fs.Close(f)
				}()
			}
		}
	}
	fd.done = map[int]bool{}
	if fd.dirf != nil {
		func() {
			defer func() { recover() }()
			fd.dirf.CloseFs()
		}()
		fd.dirf = nil
	}
	fd.fds = nil
	if fd.root != "" {
		os.RemoveAll(fd.root)
		if err := os.MkdirAll(fd.root, 0755); err != nil {
			return "harness-error " + err.Error()
		}
		d := filesys.NewDirFs(fd.root)
		fd.dirf = &d
		fd.fs = d
	} else {
		fd.fs = filesys.NewMemFs()
	}
	if fd.glob {
		filesys.Fs = fd.fs
	}
	return "ok"
}

func (fd *fsDriver) one(w []string) string {
	if w[0] == "newfs" {
		return fd.reset()
	}
	if fd.fs == nil {
		return "bad-op"
	}
	getfd := func(s string) (filesys.File, bool) {
		k, err := strconv.Atoi(s)
		if err != nil || k < 0 || k >= len(fd.fds) {
			return 0, false
		}
		return fd.fds[k], true
	}
	return guard(func() string {
		switch w[0] {
		case "mkdir":
			fd.fs.Mkdir(w[1])
			return "ok"
		case "create":
			var f filesys.File
			var ok bool
			if fd.glob {
				f, ok = filesys.Create(w[1], w[2])
			} else {
				f, ok = fd.fs.Create(w[1], w[2])
			}
			if !ok {
				return "nofd"
			}
			fd.fds = append(fd.fds, f)
			return fmt.Sprintf("fd %d", len(fd.fds)-1)
		case "append":
			f, ok := getfd(w[1])
			data, err := proto.Unhex(w[2])
			if !ok || err != nil {
				return "bad-op"
			}
			if fd.glob {
				filesys.Append(f, data)
			} else {
				fd.fs.Append(f, data)
			}
			scribble(data)
			return "ok"
		case "close":
			f, ok := getfd(w[1])
			if !ok {
				return "bad-op"
			}
			if k, err := strconv.Atoi(w[1]); err == nil {
				fd.done[k] = true
			}
			if fd.glob {
				filesys.Close(f)
			} else {
				fd.fs.Close(f)
			}
			return "ok"
		case "open":
			var f filesys.File
			if fd.glob {
				f = filesys.Open(w[1], w[2])
			} else {
				f = fd.fs.Open(w[1], w[2])
			}
			fd.fds = append(fd.fds, f)
			return fmt.Sprintf("fd %d", len(fd.fds)-1)
		case "readat":
			f, ok := getfd(w[1])
			off, e1 := strconv.ParseUint(w[2], 10, 64)
			ln, e2 := strconv.ParseUint(w[3], 10, 64)
			if !ok || e1 != nil || e2 != nil {
				return "bad-op"
			}
			var b []byte
			if fd.glob {
				b = filesys.ReadAt(f, off, ln)
			} else {
				b = fd.fs.ReadAt(f, off, ln)
			}
			out := "bytes " + proto.Hex(b)
			scribble(b)
			return out
		case "delete":
			if fd.glob {
				filesys.Delete(w[1], w[2])
			} else {
				fd.fs.Delete(w[1], w[2])
			}
			return "ok"
		case "link":
			var ok bool
			if fd.glob {
				ok = filesys.Link(w[1], w[2], w[3], w[4])
			} else {
				ok = fd.fs.Link(w[1], w[2], w[3], w[4])
			}
			return fmt.Sprintf("bool %v", ok)
		case "atomic":
			data, err := proto.Unhex(w[3])
			if err != nil {
				return "bad-op"
			}
			if fd.glob {
				filesys.AtomicCreate(w[1], w[2], data)
			} else {
				fd.fs.AtomicCreate(w[1], w[2], data)
			}
			scribble(data)
			return "ok"
		case "plant":
			// plant <fname> <hex>: leftovers of earlier crashed processes under the very names this process's
			// next AtomicCreate calls for <fname> will use for their temporary files (same pid, next counters)
			data, err := proto.Unhex(w[2])
			if err != nil || fd.root == "" {
				return "bad-op"
			}
			for k := 0; k < 400; k++ {
				os.WriteFile(filepath.Join(fd.root, fmt.Sprintf("%s.%d.%d.tmp", w[1], os.Getpid(), k)), data, 0644)
			}
			return "ok"
		case "list":
			var ns []string
			if fd.glob {
				ns = filesys.List(w[1])
			} else {
				ns = fd.fs.List(w[1])
			}
			ns = append([]string{}, ns...)
			sort.Strings(ns)
			if len(ns) == 0 {
				return "names -"
			}
			return "names " + strings.Join(ns, ",")
		}
		return "bad-op"
	})
}

func fsRun(lines []string) {
	fd := &fsDriver{}
	switch optImpl {
	case "mem":
	case "gmem":
		fd.glob = true
	case "dir", "gdir":
		fd.glob = optImpl == "gdir"
		if optScratch == "" {
			fmt.Fprintln(os.Stderr, "fs run: -scratch required")
			os.Exit(2)
		}
		fd.root = filepath.Join(optScratch, "fsroot-"+optImpl)
	default:
		fmt.Fprintln(os.Stderr, "fs run: -impl mem|dir|gmem|gdir")
		os.Exit(2)
	}
	if optKeep && fd.root != "" && len(lines) > 0 && lines[0] != "newfs" {
		// a restarted process: same directory tree, no descriptors survive
		d := filesys.NewDirFs(fd.root)
		fd.dirf = &d
		fd.fs = d
		if fd.glob {
			filesys.Fs = fd.fs
		}
		fd.fds = make([]filesys.File, optFdBase)
		for i := range fd.fds {
			fd.fds[i] = filesys.File(-1)
		}
	}
	for _, l := range lines {
		w := strings.Fields(l)
		if w[0] == "atomicx" { // the disturbance is injected from outside (strace)
			w = []string{"atomic", w[1], w[2], w[3]}
		}
		if w[0] == "restart" {
			proto.Reply("ok")
			continue
		}
		proto.Reply("%s", fd.one(w))
	}
	if optKeep {
		return
	}
	if fd.root != "" {
		if fd.dirf != nil {
			func() {
				defer func() { recover() }()
				fd.dirf.CloseFs()
			}()
		}
		os.RemoveAll(fd.root)
	}
}
