package main

import (
	"fmt"
	"strconv"
	"strings"
	"sync"
	"time"

	"github.com/goose-lang/goose/machine"

	"verif/harness/internal/proto"
)

// wt protocol (C16, WaitTimeout):
//
//	wt <timeoutMs> <signalAtMs|-1|-2|-3|-4|-5> <sig|bcast> <ghosts>   (-4/-5: three concurrent callers, one Broadcast / three Signals after 80 ms; -2: the signaller already waits for the mutex when the call starts;
//	                                                             -3: no signal, and ANOTHER goroutine is already parked in cond.Wait on the same condition variable)
//
// The caller locks L and calls machine.WaitTimeout(cond, timeoutMs); another goroutine
// signals/broadcasts at signalAtMs (never, if -1) while holding L, as sync.Cond users do.
// `ghosts` earlier calls with a 1 ms timeout and no signal precede the measured call on the
// same condition variable (each leaves a parked helper goroutine behind).
// Reply: held|notheld|hang  prompt|late
//
//	held:    after return, TryLock fails (the mutex is locked) and the caller's Unlock succeeds
//	prompt:  elapsed <= min(timeout, signalAt) + slack
const wtSlackMs = 1200

func init() { protos["wt"] = protoImpl{gen: wtGen, run: wtRun} }

func wtGen(seed uint64, tier string) {
	r := proto.NewRng(seed ^ 0x77)
	n := 24
	if tier == "thorough" {
		n = 300
	}
	// fixed scenarios: pure timeouts, signal before / at / after the timeout, broadcast, ghosts + broadcast
	for _, t := range []int{0, 1, 10, 50, 200} {
		proto.Reply("wt %d -1 sig 0", t)
	}
	proto.Reply("wt 3000 30 sig 0")
	proto.Reply("wt 3000 60 bcast 0")
	proto.Reply("wt 100 100 sig 0")
	proto.Reply("wt 50 400 sig 0")
	proto.Reply("wt 3000 80 bcast 1")
	proto.Reply("wt 3000 80 bcast 3")
	proto.Reply("wt 40 -1 sig 2")
	proto.Reply("wt 3000 80 sig 1")
	for _, t := range []int{0, 30, 200} {
		proto.Reply("wt %d -3 sig 0", t)
	}
	proto.Reply("wt 40 -3 sig 2")
	// more earlier timed-out calls than any fixed pool of helpers has room for
	proto.Reply("wt 5 -1 sig 70")
	proto.Reply("wt 3000 60 bcast 70")
	// several concurrent callers on one condition variable: one Broadcast, or one Signal per caller
	proto.Reply("wt 3000 -4 bcast 0")
	proto.Reply("wt 3000 -5 sig 0")
	proto.Reply("wt 20 -4 bcast 0")
	for i := 0; i < 3; i++ {
		proto.Reply("wt 1500 -2 sig 0")
		proto.Reply("wt 1500 -2 bcast 0")
	}
	for i := 0; i < n; i++ {
		t := proto.Pick(r, []int{0, 1, 5, 20, 60, 150, 3000})
		s := -1
		if r.Intn(3) > 0 {
			s = r.Intn(200)
		}
		kind := proto.Pick(r, []string{"sig", "bcast"})
		g := 0
		if r.Intn(3) == 0 {
			g = 1 + r.Intn(3)
		}
		proto.Reply("wt %d %d %s %d", t, s, kind, g)
	}
}

func wtOne(w []string) string {
	if len(w) != 5 || w[0] != "wt" {
		return "bad-op"
	}
	timeout, e1 := strconv.Atoi(w[1])
	sigAt, e2 := strconv.Atoi(w[2])
	ghosts, e3 := strconv.Atoi(w[4])
	if e1 != nil || e2 != nil || e3 != nil {
		return "bad-op"
	}
	res := make(chan string, 1)
	go func() {
		mu := new(sync.Mutex)
		cond := sync.NewCond(mu)
		for g := 0; g < ghosts; g++ {
			mu.Lock()
			machine.WaitTimeout(cond, 1)
			mu.Unlock()
		}
		if sigAt >= 0 {
			go func() {
				time.Sleep(time.Duration(sigAt) * time.Millisecond)
				mu.Lock()
				if w[3] == "bcast" {
					cond.Broadcast()
				} else {
					cond.Signal()
				}
				mu.Unlock()
			}()
		}
		if sigAt == -2 {
			// rounds with a signaller that is ALREADY contending for the mutex when the wait starts: it takes the lock in
			// the instant the wait releases it and signals at once (the waiter must have been registered by then)
			worst := time.Duration(0)
			for round := 0; round < 40; round++ {
				m2 := new(sync.Mutex)
				c2 := sync.NewCond(m2)
				started := make(chan struct{})
				m2.Lock()
				go func() {
					close(started)
					for !m2.TryLock() {
					}
					if w[3] == "bcast" {
						c2.Broadcast()
					} else {
						c2.Signal()
					}
					m2.Unlock()
				}()
				<-started
				time.Sleep(100 * time.Microsecond)
				t1 := time.Now()
				machine.WaitTimeout(c2, uint64(timeout))
				if d := time.Since(t1); d > worst {
					worst = d
				}
				m2.Unlock()
				if worst > time.Duration(wtSlackMs)*time.Millisecond {
					break
				}
			}
			if worst > time.Duration(wtSlackMs)*time.Millisecond {
				res <- "held late"
			} else {
				res <- "held prompt"
			}
			return
		}
		if sigAt == -4 || sigAt == -5 {
			// several callers wait on the SAME condition variable at once; one Broadcast (-4), or as many Signals in a row as
			// there are callers (-5), 80 ms later: every one of them returns promptly, holding the mutex in its turn
			const callers = 3
			var cw sync.WaitGroup
			worst := make([]time.Duration, callers)
			entered := make(chan struct{}, callers)
			for c := 0; c < callers; c++ {
				cw.Add(1)
				go func(c int) {
					defer cw.Done()
					mu.Lock()
					entered <- struct{}{}
					t1 := time.Now()
					machine.WaitTimeout(cond, uint64(timeout))
					worst[c] = time.Since(t1)
					mu.Unlock()
				}(c)
			}
			for c := 0; c < callers; c++ {
				<-entered
			}
			time.Sleep(80 * time.Millisecond)
			mu.Lock()
			if sigAt == -4 {
				cond.Broadcast()
			} else {
				for c := 0; c < callers+ghosts; c++ {
					cond.Signal()
				}
			}
			mu.Unlock()
			cw.Wait()
			bound := 80
			if timeout < bound {
				bound = timeout
			}
			for _, d := range worst {
				if d > time.Duration(bound+wtSlackMs)*time.Millisecond {
					res <- "held late"
					return
				}
			}
			res <- "held prompt"
			return
		}
		released := make(chan struct{})
		if sigAt == -3 {
			parked := make(chan struct{})
			go func() {
				mu.Lock()
				close(parked)
				cond.Wait()
				mu.Unlock()
				close(released)
			}()
			<-parked
			mu.Lock() // succeeds once the other goroutine is inside Wait (registered, mutex released)
			mu.Unlock()
		}
		mu.Lock()
		t0 := time.Now()
		machine.WaitTimeout(cond, uint64(timeout))
		el := time.Since(t0)
		if sigAt == -3 {
			defer func() {
				mu.Lock()
				cond.Broadcast()
				mu.Unlock()
				select {
				case <-released:
				case <-time.After(2 * time.Second):
				}
			}()
		}
		held := "held"
		if mu.TryLock() {
			held = "notheld"
			mu.Unlock()
		} else {
			// the caller owns the lock: its Unlock must succeed and leave the mutex free
			mu.Unlock()
			time.Sleep(20 * time.Millisecond) // let a transient ghost helper pass
			ok := false
			for k := 0; k < 50 && !ok; k++ {
				if mu.TryLock() {
					ok = true
					mu.Unlock()
				} else {
					time.Sleep(10 * time.Millisecond)
				}
			}
			if !ok {
				held = "stuck-after-unlock"
			}
		}
		bound := timeout
		if sigAt >= 0 && sigAt < timeout {
			bound = sigAt
		}
		p := "prompt"
		if el > time.Duration(bound+wtSlackMs)*time.Millisecond {
			p = fmt.Sprintf("late")
		}
		res <- held + " " + p
	}()
	select {
	case s := <-res:
		return s
	case <-time.After(8 * time.Second):
		return "hang"
	}
}

func wtRun(lines []string) {
	out := make([]string, len(lines))
	var wg sync.WaitGroup
	sem := make(chan struct{}, 12)
	for i, l := range lines {
		wg.Add(1)
		go func(i int, l string) {
			defer wg.Done()
			sem <- struct{}{}
			out[i] = wtOne(strings.Fields(l))
			<-sem
		}(i, l)
	}
	wg.Wait()
	for _, o := range out {
		proto.Reply("%s", o)
	}
}
