package main

import (
	"fmt"
	"strconv"
	"strings"

	"github.com/goose-lang/goose/machine"

	"verif/harness/internal/proto"
)

func init() { protos["enc"] = protoImpl{gen: encGen, run: encRun} }

func boundary64(r *proto.Rng) uint64 {
	switch r.Intn(8) {
	case 0:
		return proto.Pick(r, []uint64{0, 1, 0xff, 0x100, 0xffff, 1 << 31, 1<<32 - 1, 1 << 32, 1<<63 - 1, 1 << 63, ^uint64(0)})
	case 1:
		k := uint(r.Intn(64))
		return uint64(1)<<k - 1
	case 2:
		k := uint(r.Intn(64))
		return uint64(1)<<k + uint64(r.Intn(2))
	case 3:
		// one distinctive byte per position: exposes any permutation of bytes
		return 0x0102030405060708
	case 4:
		return uint64(r.Intn(256)) << (8 * uint(r.Intn(8)))
	default:
		return r.U64()
	}
}

func encGen(seed uint64, tier string) {
	r := proto.NewRng(seed)
	n := 3000
	if tier == "thorough" {
		n = 200000
	}
	// every buffer length 0…16 for every operation first (deterministic part)
	for l := 0; l <= 16; l++ {
		b := r.Bytes(l)
		proto.Reply("put64 %s %d", proto.Hex(b), boundary64(r))
		proto.Reply("put32 %s %d", proto.Hex(b), uint32(boundary64(r)))
		proto.Reply("get64 %s", proto.Hex(b))
		proto.Reply("get32 %s", proto.Hex(b))
	}
	for i := 0; i < n; i++ {
		l := r.Intn(17)
		if r.Intn(20) == 0 {
			l = 17 + r.Intn(48)
		}
		b := r.Bytes(l)
		if r.Intn(4) == 0 { // constant fill makes "untouched bytes" easy to see
			f := byte(r.Intn(256))
			for j := range b {
				b[j] = f
			}
		}
		switch r.Intn(4) {
		case 0:
			proto.Reply("put64 %s %d", proto.Hex(b), boundary64(r))
		case 1:
			proto.Reply("put32 %s %d", proto.Hex(b), uint32(boundary64(r)))
		case 2:
			proto.Reply("get64 %s", proto.Hex(b))
		case 3:
			proto.Reply("get32 %s", proto.Hex(b))
		}
	}
}

// guard runs f and maps a panic to the reply "panic".
func guard(f func() string) (out string) {
	defer func() {
		if e := recover(); e != nil {
			out = "panic"
		}
	}()
	return f()
}

func encRun(lines []string) {
	for _, l := range lines {
		w := strings.Fields(l)
		proto.Reply("%s", encOne(w))
	}
}

func encOne(w []string) string {
	if len(w) < 2 {
		return "bad-op"
	}
	buf, err := proto.Unhex(w[1])
	if err != nil {
		return "bad-op"
	}
	switch w[0] {
	case "put64", "put32":
		if len(w) != 3 {
			return "bad-op"
		}
		v, err := strconv.ParseUint(w[2], 10, 64)
		if err != nil {
			return "bad-op"
		}
		before := append([]byte{}, buf...)
		res := guard(func() string {
			if w[0] == "put64" {
				machine.UInt64Put(buf, v)
			} else {
				if v >= 1<<32 {
					return "bad-op"
				}
				machine.UInt32Put(buf, uint32(v))
			}
			return "bytes " + proto.Hex(buf)
		})
		if res == "panic" && string(before) != string(buf) {
			// refused but partially written: not expressible by the model's reply, report it as such
			return "panic-after-write " + proto.Hex(buf)
		}
		return res
	case "get64":
		return guard(func() string { return fmt.Sprintf("n %d", machine.UInt64Get(buf)) })
	case "get32":
		return guard(func() string { return fmt.Sprintf("n %d", machine.UInt32Get(buf)) })
	}
	return "bad-op"
}
