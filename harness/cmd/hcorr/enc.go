package main

import (
	"fmt"
	"math"
	"strconv"
	"strings"
	"sync"

	"github.com/goose-lang/goose/machine"

	"verif/harness/internal/proto"
)

func init() {
	protos["enc"] = protoImpl{gen: encGen, run: encRun}
	protos["prim"] = protoImpl{gen: primGen, run: encRun}
}

func boundary64(r *proto.Rng) uint64 {
	switch r.Intn(8) {
	case 0:
		return proto.Pick(r, []uint64{0, 1, 0xff, 0x100, 0xffff, 1 << 31, 1<<32 - 1, 1 << 32, 1<<63 - 1, 1 << 63, ^uint64(0)})
	case 1:
		k := uint(r.Intn(64))
		return uint64(1)<<k - 1
	case 2:
		k := uint(r.Intn(64))
		return uint64(1)<<k + uint64(r.Intn(2))
	case 3:
		// one distinctive byte per position: exposes any permutation of bytes
		return 0x0102030405060708
	case 4:
		return uint64(r.Intn(256)) << (8 * uint(r.Intn(8)))
	default:
		return r.U64()
	}
}

func encGen(seed uint64, tier string) {
	r := proto.NewRng(seed)
	n := 3000
	if tier == "thorough" {
		n = 200000
	}
	// every buffer length 0…16 for every operation first (deterministic part)
	for l := 0; l <= 16; l++ {
		b := r.Bytes(l)
		proto.Reply("put64 %s %d", proto.Hex(b), boundary64(r))
		proto.Reply("put32 %s %d", proto.Hex(b), uint32(boundary64(r)))
		proto.Reply("get64 %s", proto.Hex(b))
		proto.Reply("get32 %s", proto.Hex(b))
	}
	// every power of two and its neighbours, into used buffers of exact and larger size; nil buffers; concurrent callers
	for k := uint(0); k < 64; k++ {
		for _, d := range []uint64{^uint64(0), 0, 1} { // 2^k - 1, 2^k, 2^k + 1
			v := uint64(1)<<k + d
			proto.Reply("put64 %s %d", proto.Hex(r.Bytes(8+r.Intn(3))), v)
			if v < 1<<32 {
				proto.Reply("put32 %s %d", proto.Hex(r.Bytes(4+r.Intn(3))), v)
			}
		}
	}
	proto.Reply("get64 nil")
	proto.Reply("get32 nil")
	proto.Reply("put64 nil 5")
	proto.Reply("put32 nil 5")
	for c := 0; c < 3; c++ {
		proto.Reply("conc 8 %d %d", 20000, r.Intn(1000))
	}
	for i := 0; i < n; i++ {
		l := r.Intn(17)
		if r.Intn(20) == 0 {
			l = 17 + r.Intn(48)
		}
		b := r.Bytes(l)
		if r.Intn(4) == 0 { // constant fill makes "untouched bytes" easy to see
			f := byte(r.Intn(256))
			for j := range b {
				b[j] = f
			}
		}
		switch r.Intn(4) {
		case 0:
			proto.Reply("put64 %s %d", proto.Hex(b), boundary64(r))
		case 1:
			proto.Reply("put32 %s %d", proto.Hex(b), uint32(boundary64(r)))
		case 2:
			proto.Reply("get64 %s", proto.Hex(b))
		case 3:
			proto.Reply("get32 %s", proto.Hex(b))
		}
	}
}

// guard runs f and maps a panic to the reply "panic".
func guard(f func() string) (out string) {
	defer func() {
		if e := recover(); e != nil {
			out = "panic"
		}
	}()
	return f()
}

// prim ops (C16): dec / assume / assert / mapclear
func primGen(seed uint64, tier string) {
	r := proto.NewRng(seed ^ 0xC16)
	n := 2000
	if tier == "thorough" {
		n = 100000
	}
	pow := uint64(1)
	for k := 0; k < 20; k++ { // 10^k-1, 10^k, 10^k+1
		proto.Reply("dec %d", pow-1)
		proto.Reply("dec %d", pow)
		proto.Reply("dec %d", pow+1)
		if k < 19 {
			pow *= 10
		}
	}
	proto.Reply("dec %d", ^uint64(0))
	proto.Reply("dec %d", uint64(8446744073709551615))
	proto.Reply("dec %d", uint64(10000000000000000005))
	for k := uint(0); k < 64; k++ {
		proto.Reply("dec %d", uint64(1)<<k)
		proto.Reply("dec %d", uint64(1)<<k-1)
	}
	for i := 0; i < n; i++ {
		switch r.Intn(10) {
		case 0:
			proto.Reply("assume %d", r.Intn(2))
		case 1:
			proto.Reply("assert %d", r.Intn(2))
		case 2, 3:
			sz := proto.Pick(r, []int{0, 1, 2, 3, 7, 8, 9, 63, 64, 65, 100, 127, 128, 129, 255, 256, 257, 1000, 1025})
			if r.Intn(3) == 0 {
				sz = r.Intn(1200)
			}
			proto.Reply("mapclear %s %d %d", proto.Pick(r, []string{"u64", "str", "struct", "named", "f64", "iface", "fstruct"}), sz, r.Intn(1000))
		default:
			proto.Reply("dec %d", boundary64(r))
		}
	}
}

type namedMap map[string][]byte
type skey struct {
	a uint64
	b string
}

func mapclearOne(kind string, n int, seed int) string {
	check := func(l0, l1 int, usable bool) string {
		if l0 != n {
			return fmt.Sprintf("bad-op built %d of %d", l0, n)
		}
		u := "unusable"
		if usable {
			u = "usable"
		}
		return fmt.Sprintf("len %d %s", l1, u)
	}
	switch kind {
	case "u64":
		m := map[uint64]uint64{}
		for i := 0; i < n; i++ {
			m[uint64(i*7+seed)] = uint64(i)
		}
		l0 := len(m)
		machine.MapClear(m)
		l1 := len(m)
		m[5] = 6
		return check(l0, l1, m[5] == 6 && len(m) == l1+1)
	case "str":
		m := map[string]string{}
		for i := 0; i < n; i++ {
			m[fmt.Sprintf("k%d-%d", i, seed)] = "v"
		}
		l0 := len(m)
		machine.MapClear(m)
		l1 := len(m)
		m["x"] = "y"
		return check(l0, l1, m["x"] == "y" && len(m) == l1+1)
	case "struct":
		m := map[skey]bool{}
		for i := 0; i < n; i++ {
			m[skey{uint64(i), fmt.Sprint(seed)}] = true
		}
		l0 := len(m)
		machine.MapClear(m)
		l1 := len(m)
		m[skey{1, "z"}] = true
		return check(l0, l1, m[skey{1, "z"}] && len(m) == l1+1)
	case "named":
		m := namedMap{}
		for i := 0; i < n; i++ {
			m[fmt.Sprintf("%d/%d", seed, i)] = []byte{byte(i)}
		}
		l0 := len(m)
		machine.MapClear(m)
		l1 := len(m)
		m["q"] = []byte{1}
		return check(l0, l1, len(m["q"]) == 1 && len(m) == l1+1)
	}
	return mapclearFloat(kind, n, seed, check)
}

type fkey struct {
	x   float64
	tag uint64
}

// Keys whose == is not reflexive (a float NaN differs from itself, also inside an interface or a struct key):
// every third key is a NaN; the map must still end empty.
func mapclearFloat(kind string, n int, seed int, check func(int, int, bool) string) string {
	nan := math.NaN()
	switch kind {
	case "f64":
		m := map[float64]uint64{}
		for i := 0; i < n; i++ {
			if i%3 == 1 {
				m[nan] = uint64(i)
			} else {
				m[float64(i)*1.5+float64(seed)] = uint64(i)
			}
		}
		l0 := len(m)
		machine.MapClear(m)
		l1 := len(m)
		m[2.5] = 6
		return check(l0, l1, m[2.5] == 6 && len(m) == l1+1)
	case "iface":
		m := map[interface{}]string{}
		for i := 0; i < n; i++ {
			switch i % 3 {
			case 0:
				m[uint64(i*7+seed)] = "n"
			case 1:
				m[nan] = "nan"
			default:
				m[fmt.Sprint(i, seed)] = "s"
			}
		}
		l0 := len(m)
		machine.MapClear(m)
		l1 := len(m)
		m["x"] = "y"
		return check(l0, l1, m["x"] == "y" && len(m) == l1+1)
	case "fstruct":
		m := map[fkey]bool{}
		for i := 0; i < n; i++ {
			if i%3 == 1 {
				m[fkey{nan, uint64(i)}] = true
			} else {
				m[fkey{float64(i), uint64(seed)}] = true
			}
		}
		l0 := len(m)
		machine.MapClear(m)
		l1 := len(m)
		m[fkey{1, 2}] = true
		return check(l0, l1, m[fkey{1, 2}] && len(m) == l1+1)
	}
	return "bad-op"
}

func encRun(lines []string) {
	for _, l := range lines {
		w := strings.Fields(l)
		proto.Reply("%s", encOne(w))
	}
}

func encOne(w []string) string {
	if len(w) < 2 {
		return "bad-op"
	}
	switch w[0] {
	case "dec":
		v, err := strconv.ParseUint(w[1], 10, 64)
		if err != nil {
			return "bad-op"
		}
		// earlier results are still held by their callers: rendering another number must not change them
		got := machine.UInt64ToString(v)
		for i, h := range decHeld {
			if h.s != h.copy {
				return fmt.Sprintf("earlier-result-changed dec %d: was %q, now reads %q", decHeldOf[i], h.copy, h.s)
			}
		}
		if len(decHeld) < 64 {
			decHeld = append(decHeld, heldString{s: got, copy: strings.Clone(got)})
			decHeldOf = append(decHeldOf, v)
		}
		return "str " + got
	case "assume", "assert":
		c := w[1] == "1"
		return guard(func() string {
			if w[0] == "assume" {
				machine.Assume(c)
			} else {
				machine.Assert(c)
			}
			return "ok"
		})
	case "mapclear":
		if len(w) != 4 {
			return "bad-op"
		}
		n, e1 := strconv.Atoi(w[2])
		sd, e2 := strconv.Atoi(w[3])
		if e1 != nil || e2 != nil {
			return "bad-op"
		}
		return guard(func() string { return mapclearOne(w[1], n, sd) })
	}
	if w[0] == "conc" {
		// conc <goroutines> <iterations> <seed>: concurrent callers on PRIVATE buffers must not disturb each other
		if len(w) != 4 {
			return "bad-op"
		}
		g, e1 := strconv.Atoi(w[1])
		it, e2 := strconv.Atoi(w[2])
		sd, e3 := strconv.Atoi(w[3])
		if e1 != nil || e2 != nil || e3 != nil {
			return "bad-op"
		}
		return concPutGet(g, it, uint64(sd))
	}
	if w[1] == "nil" {
		// a nil slice (length 0, no backing array): refused like every other buffer that is too short
		return encBuf(w, nil)
	}
	raw, err := proto.Unhex(w[1])
	if err != nil {
		return "bad-op"
	}
	// the buffer handed to the code is a window into a larger array (capacity beyond its length), so that a
	// write past the buffer's length lands in guard bytes instead of faulting
	// … and the window starts at every offset modulo 8 in turn (a field in the middle of a record is not word aligned)
	encWindows++
	off := 8 + int(encWindows%8)
	big := make([]byte, len(raw)+32)
	for i := range big {
		big[i] = 0xA5
	}
	buf := big[off : off+len(raw)]
	copy(buf, raw)
	guardsIntact := func() bool {
		for i := 0; i < 8; i++ {
			if big[off-1-i] != 0xA5 || big[off+len(raw)+i] != 0xA5 {
				return false
			}
		}
		return true
	}
	if r := encBuf(w, buf); !guardsIntact() {
		return "wrote-outside-buffer " + proto.Hex(big)
	} else {
		return r
	}
}

func concPutGet(g, it int, seed uint64) string {
	bad := make(chan string, g)
	var wg sync.WaitGroup
	for c := 0; c < g; c++ {
		wg.Add(1)
		go func(c int) {
			defer wg.Done()
			defer func() {
				if e := recover(); e != nil {
					bad <- fmt.Sprintf("panic in goroutine %d: %v", c, e)
				}
			}()
			r := proto.NewRng(seed + uint64(c)*7919)
			b8 := make([]byte, 8)
			b4 := make([]byte, 4)
			for i := 0; i < it; i++ {
				v := r.U64()
				machine.UInt64Put(b8, v)
				if got := machine.UInt64Get(b8); got != v {
					bad <- fmt.Sprintf("mismatch goroutine %d: put64 %d, get64 %d", c, v, got)
					return
				}
				w := uint32(r.U64())
				machine.UInt32Put(b4, w)
				if got := machine.UInt32Get(b4); got != w {
					bad <- fmt.Sprintf("mismatch goroutine %d: put32 %d, get32 %d", c, w, got)
					return
				}
			}
		}(c)
	}
	wg.Wait()
	select {
	case m := <-bad:
		return m
	default:
		return "ok"
	}
}

var encWindows uint64 // buffers handed out so far

type heldString struct{ s, copy string }

var decHeld []heldString // results of UInt64ToString kept alive across calls, with a private copy of what they read at the time
var decHeldOf []uint64

func encBuf(w []string, buf []byte) string {
	switch w[0] {
	case "put64", "put32":
		if len(w) != 3 {
			return "bad-op"
		}
		v, err := strconv.ParseUint(w[2], 10, 64)
		if err != nil {
			return "bad-op"
		}
		before := append([]byte{}, buf...)
		res := guard(func() string {
			if w[0] == "put64" {
				machine.UInt64Put(buf, v)
			} else {
				if v >= 1<<32 {
					return "bad-op"
				}
				machine.UInt32Put(buf, uint32(v))
			}
			return "bytes " + proto.Hex(buf)
		})
		if res == "panic" && string(before) != string(buf) {
			// refused but partially written: not expressible by the model's reply, report it as such
			return "panic-after-write " + proto.Hex(buf)
		}
		return res
	case "get64":
		return guard(func() string { return fmt.Sprintf("n %d", machine.UInt64Get(buf)) })
	case "get32":
		return guard(func() string { return fmt.Sprintf("n %d", machine.UInt32Get(buf)) })
	}
	return "bad-op"
}
