package main

// genPrinter writes Gen/PrinterFacts.lean: canonical text of the functions of internal/coq and of
// the translator that the models of C04 (emission order) and C05 (comment sanitiser, quoting,
// parenthesisation) were written from.
func init() {
	extraGens = append(extraGens, extraGen{"printer", func() {
		g := newGen("PrinterFacts.lean")
		g.pf("namespace GooseVerif.Gen.Printer\n\n")
		pkgs := load(*repoDir, "", "github.com/goose-lang/goose", "github.com/goose-lang/goose/internal/coq")
		c := findPkg(pkgs, "github.com/goose-lang/goose/internal/coq")
		p := findPkg(pkgs, "github.com/goose-lang/goose")
		cf := funcDecls(c)
		var text [][2]string
		for _, n := range []string{"buffer.AddComment", "indent", "buffer.AddLine", "buffer.Block", "buffer.Build", "quote", "binder",
			"StringLiteral.Coq", "GallinaString.Coq", "LoggingStmt.Coq", "CommentDecl.CoqDecl", "addParens"} {
			text = append(text, [2]string{n, canonFunc(c, cf[n])})
		}
		g.pf("def lexical : List (String × String) :=\n  %s\n\n", leanPairList(text))
		var nest [][2]string
		for _, n := range []string{"BinaryExpr.Coq", "NotExpr.Coq", "CallExpr.Coq", "IfExpr.Coq", "BlockExpr.Coq", "Binding.AddTo", "ParenExpr.Coq",
			"DerefExpr.Coq", "StoreStmt.Coq", "ForLoopExpr.Coq", "TupleExpr.Coq", "FuncLit.Coq", "FuncDecl.CoqDecl", "ConstDecl.CoqDecl"} {
			nest = append(nest, [2]string{n, canonFunc(c, cf[n])})
		}
		g.pf("def nesting : List (String × String) :=\n  %s\n\n", leanPairList(nest))
		pf := funcDecls(p)
		var em [][2]string
		for _, n := range []string{"Ctx.Decls", "declUnits", "sortedFiles", "depTracker.addName", "depTracker.addDep", "filterImports"} {
			em = append(em, [2]string{n, canonFunc(p, pf[n])})
		}
		g.pf("def emission : List (String × String) :=\n  %s\n\n", leanPairList(em))
		g.pf("def naming : List (String × String) :=\n  %s\n\n", leanPairList([][2]string{{"MethodName", canonFunc(c, cf["MethodName"])}}))
		g.pf("end GooseVerif.Gen.Printer\n")
		g.write()
	}})
}
