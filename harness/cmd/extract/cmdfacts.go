package main

// genCmd writes Gen/CmdFacts.lean: canonical text of cmd/goose's functions and of the package
// loading configuration in interface.go.
func init() {
	extraGens = append(extraGens, extraGen{"cmd", func() {
		g := newGen("CmdFacts.lean")
		g.pf("namespace GooseVerif.Gen.Cmd\n\n")
		pkgs := load(*repoDir, "", "github.com/goose-lang/goose/cmd/goose", "github.com/goose-lang/goose")
		m := findPkg(pkgs, "github.com/goose-lang/goose/cmd/goose")
		p := findPkg(pkgs, "github.com/goose-lang/goose")
		g.pf("def cmdDecls : List (String × String) :=\n  %s\n\n", leanPairList(pkgDecls(m)))
		fds := funcDecls(p)
		var bodies [][2]string
		for _, n := range []string{"newPackageConfig", "TranslationConfig.TranslatePackages"} {
			bodies = append(bodies, [2]string{n, canonFunc(p, fds[n])})
		}
		g.pf("def loaderFunctions : List (String × String) :=\n  %s\n\n", leanPairList(bodies))
		g.pf("end GooseVerif.Gen.Cmd\n")
		g.write()
	}})
}
