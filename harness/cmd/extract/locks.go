package main

import (
	"go/ast"
	"go/token"
	"sort"
	"strings"

	"golang.org/x/tools/go/packages"
)

// lockSummaries computes, for every method of the named receiver type, how it uses the
// receiver's lock field:
//
//	"W" / "R"      the body is  recv.<lock>.Lock()/RLock(); defer recv.<lock>.Unlock()/RUnlock(); …
//	               with no other lock operation, no goroutine, and no use of a shared field before
//	               the lock is taken
//	"W-late:<n>"   as above but n statements that do not touch shared fields precede the Lock
//	"none"         no lock operation at all (the summary then lists the shared fields it reads/writes)
//	"unknown:…"    anything else (fails every expectation)
//
// shared names the receiver fields that the lock protects.
func lockSummaries(p *packages.Package, recv string, lockField string, shared []string) [][2]string {
	var out [][2]string
	isShared := map[string]bool{}
	for _, s := range shared {
		isShared[s] = true
	}
	for _, f := range p.Syntax {
		for _, d := range f.Decls {
			fd, ok := d.(*ast.FuncDecl)
			if !ok || fd.Recv == nil || len(fd.Recv.List) != 1 || recvName(fd.Recv.List[0].Type) != recv || fd.Body == nil {
				continue
			}
			rname := ""
			if len(fd.Recv.List[0].Names) == 1 {
				rname = fd.Recv.List[0].Names[0].Name
			}
			out = append(out, [2]string{recv + "." + fd.Name.Name, summarise(fd, rname, lockField, isShared)})
		}
	}
	sort.Slice(out, func(i, j int) bool { return out[i][0] < out[j][0] })
	return out
}

// lockCall matches `recv.lockField.<M>()` and returns M.
func lockCall(e ast.Expr, rname, lockField string) (string, bool) {
	call, ok := e.(*ast.CallExpr)
	if !ok || len(call.Args) != 0 {
		return "", false
	}
	sel, ok := call.Fun.(*ast.SelectorExpr)
	if !ok {
		return "", false
	}
	inner, ok := sel.X.(*ast.SelectorExpr)
	if !ok || inner.Sel.Name != lockField {
		return "", false
	}
	id, ok := inner.X.(*ast.Ident)
	if !ok || id.Name != rname {
		return "", false
	}
	return sel.Sel.Name, true
}

func sharedUses(n ast.Node, rname string, isShared map[string]bool) []string {
	seen := map[string]bool{}
	ast.Inspect(n, func(x ast.Node) bool {
		sel, ok := x.(*ast.SelectorExpr)
		if !ok {
			return true
		}
		if id, ok := sel.X.(*ast.Ident); ok && id.Name == rname && isShared[sel.Sel.Name] {
			seen[sel.Sel.Name] = true
		}
		return true
	})
	var out []string
	for k := range seen {
		out = append(out, k)
	}
	sort.Strings(out)
	return out
}

func summarise(fd *ast.FuncDecl, rname, lockField string, isShared map[string]bool) string {
	stmts := fd.Body.List
	// count every lock operation and goroutine anywhere in the body
	nlock := 0
	spawns := false
	calls := false // calls to other methods of the receiver (they may touch shared state)
	ast.Inspect(fd.Body, func(x ast.Node) bool {
		switch t := x.(type) {
		case *ast.CallExpr:
			if _, ok := lockCall(t, rname, lockField); ok {
				nlock++
			}
		case *ast.GoStmt:
			spawns = true
		}
		return true
	})
	_ = calls
	if spawns {
		return "unknown:spawns"
	}
	if nlock == 0 {
		u := sharedUses(fd.Body, rname, isShared)
		if len(u) == 0 {
			return "none"
		}
		return "none:uses " + strings.Join(u, ",")
	}
	if nlock != 2 {
		return "unknown:lock operations=" + itoa(nlock)
	}
	for i, s := range stmts {
		es, ok := s.(*ast.ExprStmt)
		if !ok {
			if len(sharedUses(s, rname, isShared)) > 0 {
				return "unknown:shared state used before the lock"
			}
			continue
		}
		m, ok := lockCall(es.X, rname, lockField)
		if !ok {
			if len(sharedUses(s, rname, isShared)) > 0 {
				return "unknown:shared state used before the lock"
			}
			continue
		}
		if i+1 >= len(stmts) {
			return "unknown:no deferred unlock"
		}
		ds, ok := stmts[i+1].(*ast.DeferStmt)
		if !ok {
			return "unknown:no deferred unlock"
		}
		um, ok := lockCall(ds.Call, rname, lockField)
		if !ok {
			return "unknown:no deferred unlock"
		}
		mode := ""
		switch {
		case m == "Lock" && um == "Unlock":
			mode = "W"
		case m == "RLock" && um == "RUnlock":
			mode = "R"
		default:
			return "unknown:" + m + "/" + um
		}
		if i > 0 {
			return mode + "-late:" + itoa(i)
		}
		return mode
	}
	return "unknown:lock not at statement level"
}

func itoa(n int) string {
	if n == 0 {
		return "0"
	}
	s := ""
	for n > 0 {
		s = string(rune('0'+n%10)) + s
		n /= 10
	}
	return s
}

// assignSites lists the functions that assign to recv-type field `field` (x.field = …, or a
// composite literal of the type that sets it).
func assignSites(p *packages.Package, typeName, field string) []string {
	var out []string
	for _, f := range p.Syntax {
		for _, d := range f.Decls {
			fd, ok := d.(*ast.FuncDecl)
			if !ok || fd.Body == nil {
				continue
			}
			name := fd.Name.Name
			if fd.Recv != nil && len(fd.Recv.List) == 1 {
				name = recvName(fd.Recv.List[0].Type) + "." + name
			}
			hit := false
			ast.Inspect(fd.Body, func(x ast.Node) bool {
				switch t := x.(type) {
				case *ast.AssignStmt:
					for _, l := range t.Lhs {
						if sel, ok := l.(*ast.SelectorExpr); ok && sel.Sel.Name == field {
							hit = true
						}
					}
				case *ast.CompositeLit:
					if id, ok := t.Type.(*ast.Ident); ok && id.Name == typeName {
						for _, e := range t.Elts {
							if kv, ok := e.(*ast.KeyValueExpr); ok {
								if k, ok := kv.Key.(*ast.Ident); ok && k.Name == field {
									hit = true
								}
							}
						}
					}
				case *ast.IncDecStmt:
					if sel, ok := t.X.(*ast.SelectorExpr); ok && sel.Sel.Name == field {
						hit = true
					}
				}
				return true
			})
			if hit {
				out = append(out, name)
			}
		}
	}
	sort.Strings(out)
	_ = token.NoPos
	return out
}
