package main

import (
	"fmt"
	"go/ast"
	"go/token"
	"go/types"
	"sort"

	"golang.org/x/tools/go/packages"
)

// genTranslator writes Gen/PanicSites.lean, Gen/MapRange.lean and Gen/OpTables.lean from the
// translator packages (goose, internal/coq, cmd/goose).
func init() {
	extraGens = append(extraGens, extraGen{"translator", func() {
		pkgs := load(*repoDir, "", "github.com/goose-lang/goose", "github.com/goose-lang/goose/internal/coq", "github.com/goose-lang/goose/cmd/goose")
		genPanicSites(pkgs)
		genMapRange(pkgs)
		genOpTables(pkgs)
	}})
}

func encl(fd *ast.FuncDecl) string {
	name := fd.Name.Name
	if fd.Recv != nil && len(fd.Recv.List) == 1 {
		name = recvName(fd.Recv.List[0].Type) + "." + name
	}
	return name
}

// genPanicSites lists, per function, the operations that can raise a raw Go panic: explicit
// panic(...) calls, unchecked type assertions x.(T), and indexing of Args/Specs/Values/List/Names/
// Results/Lhs/Rhs/Elts with a constant. Counted per (function, kind) so that moving code around
// inside a function does not disturb the inventory.
func genPanicSites(pkgs []*packages.Package) {
	g := newGen("PanicSites.lean")
	g.pf("namespace GooseVerif.Gen.PanicSites\n\n")
	var rows [][2]string
	for _, p := range pkgs {
		short := p.Name
		for _, f := range p.Syntax {
			for _, d := range f.Decls {
				fd, ok := d.(*ast.FuncDecl)
				if !ok || fd.Body == nil {
					continue
				}
				counts := map[string]int{}
				var walk func(n ast.Node, commaOk map[*ast.TypeAssertExpr]bool)
				commaOk := map[*ast.TypeAssertExpr]bool{}
				ast.Inspect(fd.Body, func(n ast.Node) bool {
					switch t := n.(type) {
					case *ast.AssignStmt:
						if len(t.Lhs) == 2 && len(t.Rhs) == 1 {
							if ta, ok := t.Rhs[0].(*ast.TypeAssertExpr); ok {
								commaOk[ta] = true
							}
						}
					case *ast.ValueSpec:
						if len(t.Names) == 2 && len(t.Values) == 1 {
							if ta, ok := t.Values[0].(*ast.TypeAssertExpr); ok {
								commaOk[ta] = true
							}
						}
					case *ast.TypeSwitchStmt:
						ast.Inspect(t.Assign, func(m ast.Node) bool {
							if ta, ok := m.(*ast.TypeAssertExpr); ok {
								commaOk[ta] = true
							}
							return true
						})
					}
					return true
				})
				_ = walk
				ast.Inspect(fd.Body, func(n ast.Node) bool {
					switch t := n.(type) {
					case *ast.CallExpr:
						if id, ok := t.Fun.(*ast.Ident); ok && id.Name == "panic" {
							if _, isBuiltin := p.TypesInfo.Uses[id].(*types.Builtin); isBuiltin {
								counts["panic"]++
							}
						}
					case *ast.TypeAssertExpr:
						if t.Type != nil && !commaOk[t] {
							counts["assert:"+canon(p, t.Type)]++
						}
					case *ast.IndexExpr:
						if sel, ok := t.X.(*ast.SelectorExpr); ok {
							switch sel.Sel.Name {
							case "Args", "Specs", "Values", "List", "Names", "Results", "Lhs", "Rhs", "Elts":
								if bl, ok := t.Index.(*ast.BasicLit); ok && bl.Kind == token.INT {
									counts["index:"+sel.Sel.Name+"["+bl.Value+"]"]++
								}
							}
						}
					}
					return true
				})
				var keys []string
				for k := range counts {
					keys = append(keys, k)
				}
				sort.Strings(keys)
				for _, k := range keys {
					rows = append(rows, [2]string{short + "." + encl(fd), fmt.Sprintf("%s x%d", k, counts[k])})
				}
			}
		}
	}
	sort.Slice(rows, func(i, j int) bool {
		if rows[i][0] != rows[j][0] {
			return rows[i][0] < rows[j][0]
		}
		return rows[i][1] < rows[j][1]
	})
	g.pf("def sites : List (String × String) :=\n  %s\n\n", leanPairList(rows))
	g.pf("end GooseVerif.Gen.PanicSites\n")
	g.write()
}

// genMapRange lists every `range` over a map-typed expression, every goroutine spawn, and every
// package-level variable that is assigned or mutated (element store, delete, append) outside its
// declaration, in the translator packages.
func genMapRange(pkgs []*packages.Package) {
	g := newGen("MapRange.lean")
	g.pf("namespace GooseVerif.Gen.MapRange\n\n")
	var ranges, spawns, writes [][2]string
	for _, p := range pkgs {
		short := p.Name
		for _, f := range p.Syntax {
			for _, d := range f.Decls {
				fd, ok := d.(*ast.FuncDecl)
				if !ok || fd.Body == nil {
					continue
				}
				isGlobal := func(e ast.Expr) (string, bool) {
					for {
						switch t := e.(type) {
						case *ast.IndexExpr:
							e = t.X
							continue
						case *ast.SelectorExpr:
							if id, ok := t.X.(*ast.Ident); ok {
								if _, isPkg := p.TypesInfo.Uses[id].(*types.PkgName); isPkg {
									return "", false
								}
							}
							e = t.X
							continue
						case *ast.StarExpr:
							e = t.X
							continue
						case *ast.ParenExpr:
							e = t.X
							continue
						}
						break
					}
					id, ok := e.(*ast.Ident)
					if !ok {
						return "", false
					}
					obj := p.TypesInfo.Uses[id]
					if v, ok := obj.(*types.Var); ok && v.Parent() == p.Types.Scope() {
						return id.Name, true
					}
					return "", false
				}
				ast.Inspect(fd.Body, func(n ast.Node) bool {
					switch t := n.(type) {
					case *ast.RangeStmt:
						if tv, ok := p.TypesInfo.Types[t.X]; ok {
							if _, isMap := tv.Type.Underlying().(*types.Map); isMap {
								ranges = append(ranges, [2]string{short + "." + encl(fd), canon(p, t.X) + " : " + tv.Type.String()})
							}
						}
					case *ast.GoStmt:
						spawns = append(spawns, [2]string{short + "." + encl(fd), canon(p, t.Call.Fun)})
					case *ast.AssignStmt:
						for _, l := range t.Lhs {
							if name, ok := isGlobal(l); ok {
								writes = append(writes, [2]string{short + "." + encl(fd), name})
							}
						}
					case *ast.IncDecStmt:
						if name, ok := isGlobal(t.X); ok {
							writes = append(writes, [2]string{short + "." + encl(fd), name})
						}
					case *ast.CallExpr:
						if id, ok := t.Fun.(*ast.Ident); ok && (id.Name == "delete") && len(t.Args) > 0 {
							if name, ok := isGlobal(t.Args[0]); ok {
								writes = append(writes, [2]string{short + "." + encl(fd), name})
							}
						}
					}
					return true
				})
			}
		}
	}
	for _, l := range [][][2]string{ranges, spawns, writes} {
		sort.Slice(l, func(i, j int) bool { return l[i][0]+l[i][1] < l[j][0]+l[j][1] })
	}
	g.pf("/-- every `range` over a map in the translator packages -/\ndef mapRanges : List (String × String) :=\n  %s\n\n", leanPairList(ranges))
	g.pf("/-- every `go` statement -/\ndef spawns : List (String × String) :=\n  %s\n\n", leanPairList(spawns))
	g.pf("/-- every write to a package-level variable from inside a function -/\ndef globalWrites : List (String × String) :=\n  %s\n\n", leanPairList(writes))
	g.pf("end GooseVerif.Gen.MapRange\n")
	g.write()
}

// genOpTables extracts the operator tables: binExpr's token→op map, assignStmt's op-assign map,
// BinaryExpr.Coq's op→text map, as sorted (key, value) lists of canonical expressions.
func genOpTables(pkgs []*packages.Package) {
	g := newGen("OpTables.lean")
	g.pf("namespace GooseVerif.Gen.OpTables\n\n")
	tables := map[string][][2]string{}
	for _, p := range pkgs {
		for _, f := range p.Syntax {
			for _, d := range f.Decls {
				fd, ok := d.(*ast.FuncDecl)
				if !ok || fd.Body == nil {
					continue
				}
				fn := encl(fd)
				if fn != "Ctx.binExpr" && fn != "Ctx.assignStmt" && fn != "BinaryExpr.Coq" {
					continue
				}
				ast.Inspect(fd.Body, func(n ast.Node) bool {
					cl, ok := n.(*ast.CompositeLit)
					if !ok {
						return true
					}
					if _, isMap := cl.Type.(*ast.MapType); !isMap {
						return true
					}
					var rows [][2]string
					for _, e := range cl.Elts {
						if kv, ok := e.(*ast.KeyValueExpr); ok {
							rows = append(rows, [2]string{canon(p, kv.Key), canon(p, kv.Value)})
						}
					}
					sort.Slice(rows, func(i, j int) bool { return rows[i][0] < rows[j][0] })
					tables[fn] = rows
					return false
				})
			}
		}
	}
	g.pf("def binExprOps : List (String × String) :=\n  %s\n\n", leanPairList(tables["Ctx.binExpr"]))
	g.pf("def assignOps : List (String × String) :=\n  %s\n\n", leanPairList(tables["Ctx.assignStmt"]))
	g.pf("def coqBinOps : List (String × String) :=\n  %s\n\n", leanPairList(tables["BinaryExpr.Coq"]))
	g.pf("end GooseVerif.Gen.OpTables\n")
	g.write()
}
