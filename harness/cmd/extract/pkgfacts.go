package main

import (
	"fmt"
	"go/ast"
	"go/constant"
	"go/token"
	"go/types"
	"sort"
	"strings"

	"golang.org/x/tools/go/packages"
)

// pkgDecls lists every top-level declaration of a package as (name, canonical text).
// Functions: "func Recv.Name" → canonical signature+body. Types, vars: canonical spec.
// Constants: name → "type = evaluated value".
func pkgDecls(p *packages.Package) [][2]string {
	var out [][2]string
	for _, f := range p.Syntax {
		for _, d := range f.Decls {
			switch d := d.(type) {
			case *ast.FuncDecl:
				name := d.Name.Name
				if d.Recv != nil && len(d.Recv.List) == 1 {
					name = recvName(d.Recv.List[0].Type) + "." + name
				}
				out = append(out, [2]string{"func " + name, canonFunc(p, d)})
			case *ast.GenDecl:
				for _, s := range d.Specs {
					switch s := s.(type) {
					case *ast.TypeSpec:
						out = append(out, [2]string{"type " + s.Name.Name, canon(p, s)})
					case *ast.ValueSpec:
						for i, n := range s.Names {
							if d.Tok == token.CONST {
								obj := p.TypesInfo.Defs[n]
								if c, ok := obj.(*types.Const); ok {
									out = append(out, [2]string{"const " + n.Name, c.Type().String() + " = " + c.Val().ExactString()})
								}
								continue
							}
							txt := "var " + n.Name
							if s.Type != nil {
								txt += " " + canon(p, s.Type)
							}
							if i < len(s.Values) {
								txt += " = " + canon(p, s.Values[i])
							}
							out = append(out, [2]string{"var " + n.Name, txt})
						}
					}
				}
			}
		}
	}
	sort.Slice(out, func(i, j int) bool { return out[i][0] < out[j][0] })
	return out
}

// pkgCalls lists, per function, the calls to other packages in source order with
// constant arguments evaluated: "pkgpath.Name(66,_,438)".
func pkgCalls(p *packages.Package) [][2]string {
	var out [][2]string
	for _, f := range p.Syntax {
		for _, d := range f.Decls {
			fd, ok := d.(*ast.FuncDecl)
			if !ok || fd.Body == nil {
				continue
			}
			name := fd.Name.Name
			if fd.Recv != nil && len(fd.Recv.List) == 1 {
				name = recvName(fd.Recv.List[0].Type) + "." + name
			}
			var calls []string
			ast.Inspect(fd.Body, func(n ast.Node) bool {
				call, ok := n.(*ast.CallExpr)
				if !ok {
					return true
				}
				sel, ok := call.Fun.(*ast.SelectorExpr)
				if !ok {
					return true
				}
				id, ok := sel.X.(*ast.Ident)
				if !ok {
					return true
				}
				pn, ok := p.TypesInfo.Uses[id].(*types.PkgName)
				if !ok {
					return true
				}
				var args []string
				for _, a := range call.Args {
					if tv, ok := p.TypesInfo.Types[a]; ok && tv.Value != nil && tv.Value.Kind() == constant.Int {
						args = append(args, tv.Value.ExactString())
					} else {
						args = append(args, "_")
					}
				}
				calls = append(calls, fmt.Sprintf("%s.%s(%s)", pn.Imported().Path(), sel.Sel.Name, strings.Join(args, ",")))
				return true
			})
			out = append(out, [2]string{name, strings.Join(calls, " ; ")})
		}
	}
	sort.Slice(out, func(i, j int) bool { return out[i][0] < out[j][0] })
	return out
}

func genPkgFacts(file, ns string, defs map[string]string, extra func(g *genFile, pkgs []*packages.Package)) {
	g := newGen(file)
	g.pf("namespace GooseVerif.Gen.%s\n\n", ns)
	var paths []string
	for _, p := range defs {
		paths = append(paths, p)
	}
	sort.Strings(paths)
	pkgs := load(*repoDir, "", paths...)
	var keys []string
	for k := range defs {
		keys = append(keys, k)
	}
	sort.Strings(keys)
	for _, k := range keys {
		p := findPkg(pkgs, defs[k])
		g.pf("/-- every top-level declaration of %s, canonical text -/\n", defs[k])
		g.pf("def %sDecls : List (String × String) :=\n  %s\n\n", k, leanPairList(pkgDecls(p)))
		g.pf("/-- calls into other packages per function of %s, constant arguments evaluated -/\n", defs[k])
		g.pf("def %sCalls : List (String × String) :=\n  %s\n\n", k, leanPairList(pkgCalls(p)))
	}
	if extra != nil {
		extra(g, pkgs)
	}
	g.pf("end GooseVerif.Gen.%s\n", ns)
	g.write()
}

func init() {
	extraGens = append(extraGens, extraGen{"disk", func() {
		genPkgFacts("DiskFacts.lean", "Disk", map[string]string{
			"disk":  "github.com/goose-lang/goose/machine/disk",
			"async": "github.com/goose-lang/goose/machine/async_disk",
		}, func(g *genFile, pkgs []*packages.Package) {
			p := findPkg(pkgs, "github.com/goose-lang/goose/machine/disk")
			bs := "0"
			if c, ok := p.Types.Scope().Lookup("BlockSize").(*types.Const); ok {
				bs = c.Val().ExactString()
			}
			g.pf("/-- disk.BlockSize, evaluated -/\ndef blockSize : Nat := %s\n\n", bs)
			var wr [][2]string
			for _, d := range pkgDecls(p) {
				switch d[0] {
				case "func Read", "func Write", "func Size", "func Barrier", "func Init", "func Get":
					wr = append(wr, d)
				}
			}
			g.pf("/-- the global wrappers of package disk -/\ndef diskWrappers : List (String × String) :=\n  %s\n\n", leanPairList(wr))
			a := findPkg(pkgs, "github.com/goose-lang/goose/machine/async_disk")
			abs := "0"
			if c, ok := a.Types.Scope().Lookup("BlockSize").(*types.Const); ok {
				abs = c.Val().ExactString()
			}
			g.pf("/-- async_disk.BlockSize, evaluated -/\ndef asyncBlockSize : Nat := %s\n\n", abs)
			// what the async_disk type names denote after alias resolution
			var al [][2]string
			for _, n := range []string{"Block", "Disk", "MemDisk", "FileDisk"} {
				obj := a.Types.Scope().Lookup(n)
				if tn, ok := obj.(*types.TypeName); ok {
					al = append(al, [2]string{n, fmt.Sprintf("alias=%v %s", tn.IsAlias(), types.TypeString(types.Unalias(tn.Type()), nil))})
				} else {
					al = append(al, [2]string{n, "unknown"})
				}
			}
			g.pf("/-- how every MemDisk method uses the lock `l` protecting `blocks` -/\ndef memDiskLocks : List (String × String) :=\n  %s\n\n",
				leanPairList(lockSummaries(p, "MemDisk", "l", []string{"blocks"})))
			g.pf("/-- functions that assign the field `blocks` of MemDisk (constructor only: Size may read it lock-free) -/\ndef blocksAssignSites : List String := %s\n\n",
				leanStrList(assignSites(p, "MemDisk", "blocks")))
			g.pf("/-- async_disk's exported type names, resolved -/\ndef asyncTypes : List (String × String) :=\n  %s\n\n", leanPairList(al))
		})
	}})
	extraGens = append(extraGens, extraGen{"fs", func() {
		genPkgFacts("FsFacts.lean", "Fs", map[string]string{
			"fs": "github.com/goose-lang/goose/machine/filesys",
		}, func(g *genFile, pkgs []*packages.Package) {
			p := findPkg(pkgs, "github.com/goose-lang/goose/machine/filesys")
			g.pf("/-- how every MemFs method uses the mutex `m` protecting its maps -/\ndef memFsLocks : List (String × String) :=\n  %s\n\n",
				leanPairList(lockSummaries(p, "MemFs", "m", []string{"validDirs", "inodes", "dirents", "openFiles", "lastFd"})))
		})
	}})
}
