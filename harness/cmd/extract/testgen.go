package main

import (
	"go/ast"
	"go/token"
	"strconv"
)

// genTestGen writes Gen/TestGenFacts.lean: the canonical text of cmd/test_gen's main(), the string
// literals passed to regexp.MustCompile (in source order) and to strings.HasSuffix (per mode, in
// source order), and the constants holding the emitted headers/footers.
func init() {
	extraGens = append(extraGens, extraGen{"testgen", func() {
		g := newGen("TestGenFacts.lean")
		g.pf("namespace GooseVerif.Gen.TestGen\n\n")
		pkgs := load(*repoDir, "", "github.com/goose-lang/goose/cmd/test_gen")
		p := findPkg(pkgs, "github.com/goose-lang/goose/cmd/test_gen")
		fds := funcDecls(p)
		main := fds["main"]
		g.pf("def mainBody : String :=\n  %s\n\n", leanStr(canonFunc(p, main)))
		// the file filter's question to go/build (which files are in the package with and without the tag goose)
		g.pf("def inBothViewsBody : String :=\n  %s\n\n", leanStr(canonFunc(p, fds["inBothViews"])))
		var regexes, suffixes, prefixes []string
		if main != nil {
			ast.Inspect(main.Body, func(n ast.Node) bool {
				call, ok := n.(*ast.CallExpr)
				if !ok {
					return true
				}
				sel, ok := call.Fun.(*ast.SelectorExpr)
				if !ok || len(call.Args) == 0 {
					return true
				}
				lit, ok := call.Args[len(call.Args)-1].(*ast.BasicLit)
				if !ok || lit.Kind != token.STRING {
					return true
				}
				v, err := strconv.Unquote(lit.Value)
				if err != nil {
					return true
				}
				switch sel.Sel.Name {
				case "MustCompile":
					regexes = append(regexes, v)
				case "HasSuffix":
					suffixes = append(suffixes, v)
				case "HasPrefix":
					prefixes = append(prefixes, v)
				}
				return true
			})
		}
		g.pf("/-- literals passed to regexp.MustCompile, in source order (coq mode, go mode) -/\ndef regexes : List String := %s\n\n", leanStrList(regexes))
		g.pf("/-- literals passed to strings.HasSuffix, in source order (coq mode's filter, then go mode's) -/\ndef suffixFilters : List String := %s\n\n", leanStrList(suffixes))
		g.pf("/-- literals passed to strings.HasPrefix, in source order -/\ndef prefixFilters : List String := %s\n\n", leanStrList(prefixes))
		var consts [][2]string
		for _, d := range pkgDecls(p) {
			if len(d[0]) > 6 && d[0][:6] == "const " {
				consts = append(consts, d)
			}
		}
		g.pf("def constants : List (String × String) :=\n  %s\n\n", leanPairList(consts))
		g.pf("end GooseVerif.Gen.TestGen\n")
		g.write()
	}})
}
