package main

import (
	"go/ast"
	"go/token"
	"sort"
	"strconv"

	"golang.org/x/tools/go/packages"
)

// genGuards writes Gen/Guards.lean: every call of the translator's error reporters
// (ctx.unsupported / todo / futureWork / nope / noExample), per enclosing function, with the
// message text. These calls are the guards that make goose reject instead of mistranslate (C02);
// deleting or moving one changes the list.
func init() {
	extraGens = append(extraGens, extraGen{"guards", func() {
		g := newGen("Guards.lean")
		g.pf("namespace GooseVerif.Gen.Guards\n\n")
		pkgs := load(*repoDir, "", "github.com/goose-lang/goose")
		p := findPkg(pkgs, "github.com/goose-lang/goose")
		g.pf("def guards : List (String × String) :=\n  %s\n\n", leanPairList(guardSites(p)))
		// the decision functions whose text the control-flow model (Model/Tr.lean) was written from
		fds := funcDecls(p)
		var text [][2]string
		for _, n := range []string{"Ctx.stmts", "Ctx.stmtInBlock", "Ctx.stmt", "Ctx.ifStmt", "Ctx.endsWithReturn", "Ctx.stmtsEndWithReturn",
			"Ctx.blockStmt", "Ctx.branchStmt", "Ctx.returnExpr", "Ctx.forStmt", "Ctx.loopVar"} {
			text = append(text, [2]string{n, canonFunc(p, fds[n])})
		}
		g.pf("def controlFlow : List (String × String) :=\n  %s\n\n", leanPairList(text))
		var conc [][2]string
		for _, n := range []string{"Ctx.goStmt", "Ctx.spawnExpr", "Ctx.lockMethod", "Ctx.condVarMethod", "Ctx.waitGroupMethod"} {
			conc = append(conc, [2]string{n, canonFunc(p, fds[n])})
		}
		g.pf("def concurrency : List (String × String) :=\n  %s\n\n", leanPairList(conc))
		// local variables: what the scoping model (Model/Scope.lean) was written from
		var scope [][2]string
		for _, n := range []string{"Ctx.varSpec", "Ctx.varDeclStmt", "Ctx.assignFromTo", "Ctx.pointerAssign", "Ctx.identExpr", "Ctx.referenceTo",
			"identCtx.isPtrWrapped", "identCtx.setPtrWrapped", "Ctx.defineStmt", "Ctx.assignStmt"} {
			if fds[n] != nil {
				scope = append(scope, [2]string{n, canonFunc(p, fds[n])})
			}
		}
		g.pf("def scoping : List (String × String) :=\n  %s\n\n", leanPairList(scope))
		// integer conversions and literals: which width is emitted
		var conv [][2]string
		for _, n := range []string{"Ctx.integerConversion", "getIntegerType", "Ctx.basicLiteral", "Ctx.incDecStmt"} {
			if fds[n] != nil {
				conv = append(conv, [2]string{n, canonFunc(p, fds[n])})
			}
		}
		g.pf("def widths : List (String × String) :=\n  %s\n\n", leanPairList(conv))
		// heap data: what the heap model (Model/Heap.lean) was written from
		var heap [][2]string
		for _, n := range []string{"Ctx.selectExpr", "Ctx.selectorExpr", "Ctx.structSelector", "Ctx.fieldSelection", "Ctx.structLiteral", "Ctx.unaryExpr", "Ctx.derefExpr",
			"Ctx.newExpr", "Ctx.makeExpr", "Ctx.makeSliceExpr", "Ctx.indexExpr", "Ctx.sliceExpr", "Ctx.refExpr", "Ctx.lenExpr"} {
			if fds[n] != nil {
				heap = append(heap, [2]string{n, canonFunc(p, fds[n])})
			}
		}
		g.pf("def heap : List (String × String) :=\n  %s\n\n", leanPairList(heap))
		// maps, append/copy and range loops: what the collections model (Model/Coll.lean) was written from
		var coll [][2]string
		for _, n := range []string{"Ctx.capExpr", "Ctx.copyExpr", "Ctx.lenExpr", "Ctx.rangeStmt", "Ctx.mapRangeStmt", "Ctx.sliceRangeStmt", "Ctx.identBinder",
			"getIdentOrAnonymous", "getIdentOrNil", "Ctx.mapType", "supportedMapKey", "Ctx.multipleAssignStmt", "Ctx.indexExpr", "Ctx.makeExpr"} {
			if fds[n] != nil {
				coll = append(coll, [2]string{n, canonFunc(p, fds[n])})
			}
		}
		g.pf("def coll : List (String × String) :=\n  %s\n\n", leanPairList(coll))
		// multiple assignments: what Model/TupleAssign.lean (the guard and the one-target-at-a-time semantics) was written from
		var tuple [][2]string
		for _, n := range []string{"Ctx.multipleAssignStmt", "Ctx.stableOperands", "Ctx.assignFromTo", "Ctx.pointerAssign"} {
			if fds[n] != nil {
				tuple = append(tuple, [2]string{n, canonFunc(p, fds[n])})
			}
		}
		g.pf("def tuple : List (String × String) :=\n  %s\n\n", leanPairList(tuple))
		// conversions: what Model/Conv.lean (the decision which conversion is rejected, the identity, or an operation) was written from
		var convFns [][2]string
		for _, n := range []string{"Ctx.callExpr", "Ctx.integerConversion", "getIntegerType", "Ctx.methodExpr", "isString", "isByteSlice"} {
			if fds[n] != nil {
				convFns = append(convFns, [2]string{n, canonFunc(p, fds[n])})
			}
		}
		g.pf("def conv : List (String × String) :=\n  %s\n\n", leanPairList(convFns))
		// package-level variables: what Model/Global.lean (the guard, and the definition that is evaluated at every use) was written from
		var globalFns [][2]string
		for _, n := range []string{"Ctx.globalVarDecl", "holdsReference", "Ctx.constSpec", "Ctx.variable"} {
			if fds[n] != nil {
				globalFns = append(globalFns, [2]string{n, canonFunc(p, fds[n])})
			}
		}
		g.pf("def globals : List (String × String) :=\n  %s\n\n", leanPairList(globalFns))
		// functions, calls, closures, methods, strings: what the functions model (Model/Fun.lean) was written from
		var funs [][2]string
		for _, n := range []string{"Ctx.funcDecl", "Ctx.paramList", "Ctx.returnExpr", "Ctx.returnType", "Ctx.funcLit", "Ctx.callExpr", "Ctx.methodExpr", "Ctx.selectorMethod",
			"Ctx.newCoqCallTypeArgs", "Ctx.coqRecurFunc", "Ctx.exprStmt", "Ctx.stringType", "isString", "isByteSlice"} {
			if fds[n] != nil {
				funs = append(funs, [2]string{n, canonFunc(p, fds[n])})
			}
		}
		g.pf("def funs : List (String × String) :=\n  %s\n\n", leanPairList(funs))
		g.pf("end GooseVerif.Gen.Guards\n")
		g.write()
	}})
}

func guardSites(p *packages.Package) [][2]string {
	reporters := map[string]bool{"unsupported": true, "todo": true, "futureWork": true, "nope": true, "noExample": true}
	var out [][2]string
	for _, f := range p.Syntax {
		for _, d := range f.Decls {
			fd, ok := d.(*ast.FuncDecl)
			if !ok || fd.Body == nil {
				continue
			}
			ast.Inspect(fd.Body, func(n ast.Node) bool {
				call, ok := n.(*ast.CallExpr)
				if !ok {
					return true
				}
				sel, ok := call.Fun.(*ast.SelectorExpr)
				if !ok || !reporters[sel.Sel.Name] {
					return true
				}
				msg := "<non-literal>"
				if len(call.Args) >= 2 {
					if lit, ok := call.Args[1].(*ast.BasicLit); ok && lit.Kind == token.STRING {
						if s, err := strconv.Unquote(lit.Value); err == nil {
							msg = s
						}
					}
				}
				out = append(out, [2]string{encl(fd), sel.Sel.Name + ": " + msg})
				return true
			})
		}
	}
	sort.Slice(out, func(i, j int) bool {
		if out[i][0] != out[j][0] {
			return out[i][0] < out[j][0]
		}
		return out[i][1] < out[j][1]
	})
	return out
}
