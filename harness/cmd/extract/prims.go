package main

import (
	"fmt"
	"go/ast"
	"go/token"
	"strconv"

	"golang.org/x/tools/go/packages"
)

// genPrims writes Gen/PrimFacts.lean: canonical bodies of machine/prims.go, the
// little-endian (index, shift) tables read from encoding/binary's source, and
// the body of primitive.WaitTimeout (module cache).
func genPrims() {
	g := newGen("PrimFacts.lean")
	g.pf("namespace GooseVerif.Gen.Prim\n\n")

	pkgs := load(*repoDir, "", "github.com/goose-lang/goose/machine", "encoding/binary",
		"github.com/goose-lang/primitive")
	mach := findPkg(pkgs, "github.com/goose-lang/goose/machine")
	fds := funcDecls(mach)
	names := []string{"UInt64Get", "UInt32Get", "UInt64Put", "UInt32Put", "UInt64ToString",
		"Assume", "Assert", "MapClear", "WaitTimeout", "Linearize", "RandomUint64", "Exit", "TimeNow", "Sleep"}
	var bodies [][2]string
	for _, n := range names {
		bodies = append(bodies, [2]string{n, canonFunc(mach, fds[n])})
	}
	g.pf("/-- the four codecs (C15) -/\ndef codecBodies : List (String × String) :=\n  %s\n\n", leanPairList(bodies[0:4]))
	g.pf("/-- UInt64ToString, Assume, Assert, MapClear, WaitTimeout (C16) -/\ndef primBodies : List (String × String) :=\n  %s\n\n", leanPairList(bodies[4:9]))
	g.pf("/-- canonical text of the functions of machine/prims.go (package identifiers resolved to import paths) -/\n")
	g.pf("def machineBodies : List (String × String) :=\n  %s\n\n", leanPairList(bodies))

	prim := findPkg(pkgs, "github.com/goose-lang/primitive")
	pfds := funcDecls(prim)
	g.pf("/-- canonical text of primitive.WaitTimeout (module cache, version pinned by /repo/go.mod) -/\n")
	g.pf("def primitiveWaitTimeout : String :=\n  %s\n\n", leanStr(canonFunc(prim, pfds["WaitTimeout"])))

	bin := findPkg(pkgs, "encoding/binary")
	bfds := funcDecls(bin)
	for _, m := range []struct{ lean, fn string }{
		{"leUint64", "littleEndian.Uint64"}, {"leUint32", "littleEndian.Uint32"},
	} {
		bound, tbl, ok := matchGet(bin, bfds[m.fn])
		writeTable(g, m.lean, m.fn, bound, tbl, ok)
	}
	for _, m := range []struct{ lean, fn string }{
		{"lePutUint64", "littleEndian.PutUint64"}, {"lePutUint32", "littleEndian.PutUint32"},
	} {
		bound, tbl, ok := matchPut(bin, bfds[m.fn])
		writeTable(g, m.lean, m.fn, bound, tbl, ok)
	}
	g.pf("end GooseVerif.Gen.Prim\n")
	g.write()
}

func writeTable(g *genFile, lean, fn string, bound int, tbl [][2]int, ok bool) {
	g.pf("/-- encoding/binary %s: recognised=%v -/\n", fn, ok)
	g.pf("def %sRecognised : Bool := %v\n", lean, ok)
	g.pf("def %sBound : Nat := %d\n", lean, bound)
	g.pf("def %s : List (Nat × Nat) := [", lean)
	for i, e := range tbl {
		if i > 0 {
			g.pf(", ")
		}
		g.pf("(%d, %d)", e[0], e[1])
	}
	g.pf("]\n\n")
}

func intLit(e ast.Expr) (int, bool) {
	bl, ok := e.(*ast.BasicLit)
	if !ok || bl.Kind != token.INT {
		return 0, false
	}
	n, err := strconv.ParseInt(bl.Value, 0, 64)
	if err != nil {
		return 0, false
	}
	return int(n), true
}

// boundsHint matches `_ = b[K]`.
func boundsHint(s ast.Stmt, b string) (int, bool) {
	as, ok := s.(*ast.AssignStmt)
	if !ok || as.Tok != token.ASSIGN || len(as.Lhs) != 1 || len(as.Rhs) != 1 {
		return 0, false
	}
	if id, ok := as.Lhs[0].(*ast.Ident); !ok || id.Name != "_" {
		return 0, false
	}
	return indexOf(as.Rhs[0], b)
}

// indexOf matches `b[K]`.
func indexOf(e ast.Expr, b string) (int, bool) {
	ix, ok := e.(*ast.IndexExpr)
	if !ok {
		return 0, false
	}
	if id, ok := ix.X.(*ast.Ident); !ok || id.Name != b {
		return 0, false
	}
	return intLit(ix.Index)
}

func paramNames(fd *ast.FuncDecl) []string {
	var out []string
	for _, f := range fd.Type.Params.List {
		for _, n := range f.Names {
			out = append(out, n.Name)
		}
	}
	return out
}

// matchGet matches `_ = b[K]; return T(b[i0]) | T(b[i1])<<s1 | …`.
func matchGet(p *packages.Package, fd *ast.FuncDecl) (int, [][2]int, bool) {
	if fd == nil || fd.Body == nil || len(fd.Body.List) != 2 {
		return 0, nil, false
	}
	ps := paramNames(fd)
	if len(ps) != 1 {
		return 0, nil, false
	}
	b := ps[0]
	bound, ok := boundsHint(fd.Body.List[0], b)
	if !ok {
		return 0, nil, false
	}
	ret, ok := fd.Body.List[1].(*ast.ReturnStmt)
	if !ok || len(ret.Results) != 1 {
		return 0, nil, false
	}
	var terms []ast.Expr
	var flat func(e ast.Expr)
	flat = func(e ast.Expr) {
		if be, ok := e.(*ast.BinaryExpr); ok && be.Op == token.OR {
			flat(be.X)
			flat(be.Y)
			return
		}
		if pe, ok := e.(*ast.ParenExpr); ok {
			flat(pe.X)
			return
		}
		terms = append(terms, e)
	}
	flat(ret.Results[0])
	resType := canon(p, fd.Type.Results.List[0].Type)
	var tbl [][2]int
	for _, t := range terms {
		shift := 0
		if be, ok := t.(*ast.BinaryExpr); ok && be.Op == token.SHL {
			s, ok := intLit(be.Y)
			if !ok {
				return 0, nil, false
			}
			shift = s
			t = be.X
		}
		call, ok := t.(*ast.CallExpr)
		if !ok || len(call.Args) != 1 || canon(p, call.Fun) != resType {
			return 0, nil, false
		}
		i, ok := indexOf(call.Args[0], b)
		if !ok {
			return 0, nil, false
		}
		tbl = append(tbl, [2]int{i, shift})
	}
	return bound, tbl, true
}

// matchPut matches `_ = b[K]; b[i0] = byte(v); b[i1] = byte(v >> s1); …`.
func matchPut(p *packages.Package, fd *ast.FuncDecl) (int, [][2]int, bool) {
	if fd == nil || fd.Body == nil || len(fd.Body.List) < 2 {
		return 0, nil, false
	}
	ps := paramNames(fd)
	if len(ps) != 2 {
		return 0, nil, false
	}
	b, v := ps[0], ps[1]
	bound, ok := boundsHint(fd.Body.List[0], b)
	if !ok {
		return 0, nil, false
	}
	var tbl [][2]int
	for _, s := range fd.Body.List[1:] {
		as, ok := s.(*ast.AssignStmt)
		if !ok || as.Tok != token.ASSIGN || len(as.Lhs) != 1 || len(as.Rhs) != 1 {
			return 0, nil, false
		}
		i, ok := indexOf(as.Lhs[0], b)
		if !ok {
			return 0, nil, false
		}
		call, ok := as.Rhs[0].(*ast.CallExpr)
		if !ok || len(call.Args) != 1 || canon(p, call.Fun) != "byte" {
			return 0, nil, false
		}
		shift := 0
		arg := call.Args[0]
		if be, ok := arg.(*ast.BinaryExpr); ok && be.Op == token.SHR {
			sh, ok := intLit(be.Y)
			if !ok {
				return 0, nil, false
			}
			shift = sh
			arg = be.X
		}
		if id, ok := arg.(*ast.Ident); !ok || id.Name != v {
			return 0, nil, false
		}
		tbl = append(tbl, [2]int{i, shift})
	}
	_ = fmt.Sprint
	return bound, tbl, true
}
