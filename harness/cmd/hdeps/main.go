// hdeps <module dir> <pattern>…: for every matched package, what goose recorded per top-level
// declaration (names, dependencies, emitted Coq declarations) and the order in which Decls
// emitted them — through the verif-tagged hook of /repo. One JSON object per package on stdout.
package main

import (
	"encoding/json"
	"fmt"
	"os"

	goose "github.com/goose-lang/goose"
)

type out struct {
	PkgPath string                `json:"pkg"`
	Infos   []goose.VerifDeclInfo `json:"infos"`
	Emitted []string              `json:"emitted"`
	Err     string                `json:"err,omitempty"`
}

func main() {
	if len(os.Args) < 3 {
		fmt.Fprintln(os.Stderr, "usage: hdeps <module dir> <pattern>…")
		os.Exit(2)
	}
	pkgs, err := goose.VerifLoad(os.Args[1], os.Args[2:]...)
	if err != nil {
		fmt.Fprintln(os.Stderr, err)
		os.Exit(2)
	}
	enc := json.NewEncoder(os.Stdout)
	for _, pkg := range pkgs {
		o := out{PkgPath: pkg.PkgPath}
		if len(pkg.Errors) > 0 {
			o.Err = fmt.Sprint(pkg.Errors)
		} else {
			infos, emitted, err := goose.VerifDecls(pkg, goose.TranslationConfig{})
			if err != nil {
				o.Err = err.Error()
			}
			o.Infos, o.Emitted = infos, emitted
		}
		enc.Encode(o)
	}
}
