package main

import (
	"encoding/binary"
	"fmt"
	"os"
	"path/filepath"
	"sync"
	"time"

	"github.com/anishathalye/porcupine"
	"github.com/goose-lang/goose/machine/disk"

	"verif/harness/internal/proto"
)

type diskIn struct {
	Op   string `json:"op"` // read | write | size
	Addr uint64 `json:"a"`
	Val  uint64 `json:"v,omitempty"`
}
type diskOut struct {
	Val   uint64   `json:"v"`
	Panic bool     `json:"panic,omitempty"`
	Vals  []uint64 `json:"vals,omitempty"` // distinct 8-byte words of a block that is not uniform
}

type histOp struct {
	Client int         `json:"c"`
	In     interface{} `json:"in"`
	Out    interface{} `json:"out"`
	Call   int64       `json:"call"`
	Ret    int64       `json:"ret"`
}

// uniform block: the 8-byte value repeated; a torn block shows as two different values
func mkBlock(v uint64) []byte {
	b := make([]byte, disk.BlockSize)
	for i := 0; i < len(b); i += 8 {
		binary.LittleEndian.PutUint64(b[i:], v)
	}
	return b
}

func blockVal(b []byte) (uint64, bool) {
	v := binary.LittleEndian.Uint64(b)
	for i := 8; i < len(b); i += 8 {
		if binary.LittleEndian.Uint64(b[i:]) != v {
			return v, false
		}
	}
	return v, true
}

func blockVals(b []byte) []uint64 {
	seen := map[uint64]bool{}
	var out []uint64
	for i := 0; i < len(b); i += 8 {
		v := binary.LittleEndian.Uint64(b[i:])
		if !seen[v] {
			seen[v] = true
			out = append(out, v)
		}
	}
	return out
}

// fileRealtimeCheck is what C10 states for the file-backed disk (the kernel does not promise
// that a pread overlapping a pwrite of the same range sees all or nothing, and the property does
// not ask for it): operations on distinct addresses never interfere, and operations ordered in
// real time on one address are observed in that order. Every word a read returns must come from
// a write to THAT address which either overlaps the read in time or completed before the read was
// invoked without being definitely overwritten (no later write started after it returned and
// completed before the read was invoked); the initial zero counts as a write that completed at
// time -1.
func fileRealtimeCheck(hist []histOp, size uint64) string {
	type w struct {
		val       uint64
		call, ret int64
	}
	writes := map[uint64][]w{}
	for a := uint64(0); a < size; a++ {
		writes[a] = []w{{0, -2, -1}}
	}
	for _, h := range hist {
		in := h.In.(diskIn)
		out := h.Out.(diskOut)
		if in.Op == "write" && in.Addr < size && !out.Panic {
			writes[in.Addr] = append(writes[in.Addr], w{in.Val, h.Call, h.Ret})
		}
		if in.Addr >= size && in.Op != "size" && !out.Panic {
			return fmt.Sprintf("client %d: %s of out-of-range block %d was not refused", h.Client, in.Op, in.Addr)
		}
		if in.Op == "size" && (out.Panic || out.Val != size) {
			return fmt.Sprintf("client %d: Size returned %d, want %d", h.Client, out.Val, size)
		}
		if in.Addr < size && out.Panic {
			return fmt.Sprintf("client %d: %s of block %d panicked", h.Client, in.Op, in.Addr)
		}
	}
	for _, h := range hist {
		in := h.In.(diskIn)
		out := h.Out.(diskOut)
		if in.Op != "read" || in.Addr >= size || out.Panic {
			continue
		}
		vals := out.Vals
		if len(vals) == 0 {
			vals = []uint64{out.Val}
		}
		ws := writes[in.Addr]
		for _, v := range vals {
			ok := false
			for _, x := range ws {
				if x.val != v {
					continue
				}
				if x.call <= h.Ret && h.Call <= x.ret { // overlaps the read
					ok = true
					break
				}
				if x.ret < h.Call { // completed before: not definitely overwritten?
					over := false
					for _, y := range ws {
						if y.call > x.ret && y.ret < h.Call {
							over = true
							break
						}
					}
					if !over {
						ok = true
						break
					}
				}
			}
			if !ok {
				return fmt.Sprintf("client %d: read of block %d (interval [%d,%d]) returned word %#x, which no write to that block that could be current at that time wrote",
					h.Client, in.Addr, h.Call, h.Ret, v)
			}
		}
	}
	return ""
}

func diskModel(size uint64) porcupine.Model {
	return porcupine.Model{
		Partition: func(h []porcupine.Operation) [][]porcupine.Operation {
			m := map[uint64][]porcupine.Operation{}
			var keys []uint64
			for _, o := range h {
				in := o.Input.(diskIn)
				k := in.Addr
				if in.Op == "size" {
					k = ^uint64(0)
				}
				if _, ok := m[k]; !ok {
					keys = append(keys, k)
				}
				m[k] = append(m[k], o)
			}
			var out [][]porcupine.Operation
			for _, k := range keys {
				out = append(out, m[k])
			}
			return out
		},
		Init: func() interface{} { return uint64(0) },
		Step: func(st, in, out interface{}) (bool, interface{}) {
			s := st.(uint64)
			i := in.(diskIn)
			o := out.(diskOut)
			switch i.Op {
			case "size":
				return !o.Panic && o.Val == size, s
			case "read":
				if i.Addr >= size {
					return o.Panic, s
				}
				return !o.Panic && o.Val == s, s
			case "write":
				if i.Addr >= size {
					return o.Panic, s
				}
				return !o.Panic, i.Val
			}
			return false, s
		},
		Equal: func(a, b interface{}) bool { return a.(uint64) == b.(uint64) },
	}
}

func countOverlaps(h []histOp) int {
	n := 0
	for i := range h {
		for j := i + 1; j < len(h); j++ {
			if h[i].Client != h[j].Client && h[i].Call <= h[j].Ret && h[j].Call <= h[i].Ret {
				n++
			}
		}
	}
	return n
}

func runDisk() {
	r := proto.NewRng(fSeed ^ 0xC10)
	for round := 0; round < fRounds; round++ {
		// small disk with two hot addresses; every other round a 100-block disk whose hot addresses are the last two
		// (implementations that partition blocks treat a tail that does not fill a partition specially)
		size, hot := uint64(3), uint64(0)
		if round%2 == 1 {
			size, hot = 100, 98
		}
		var d disk.Disk
		path := ""
		if fImpl == "file" {
			path = filepath.Join(fScratch, fmt.Sprintf("conc-%d.img", round))
			os.Remove(path)
			fd, err := disk.NewFileDisk(path, size)
			if err != nil {
				fmt.Fprintln(os.Stderr, "hconc:", err)
				os.Exit(2)
			}
			d = fd
		} else {
			d = disk.NewMemDisk(size)
		}
		t0 := time.Now()
		var mu sync.Mutex
		var hist []histOp
		torn := ""
		var wg sync.WaitGroup
		start := make(chan struct{})
		seeds := make([]uint64, fThreads)
		for i := range seeds {
			seeds[i] = r.U64()
		}
		for c := 0; c < fThreads; c++ {
			wg.Add(1)
			go func(c int) {
				defer wg.Done()
				lr := proto.NewRng(seeds[c])
				<-start
				if c == fThreads-1 && round%3 != 2 {
					// one client only issues barriers (they change no block, so they are not part of the checked history):
					// a flush running next to reads and writes must not hide a completed write from a later read
					for k := 0; k < fOps; k++ {
						func() {
							defer func() { recover() }()
							d.Barrier()
						}()
						if k%4 == 3 {
							time.Sleep(time.Duration(lr.Intn(200)) * time.Microsecond)
						}
					}
					return
				}
				for k := 0; k < fOps; k++ {
					in := diskIn{Addr: hot + uint64(lr.Intn(2))} // two hot addresses
					switch lr.Intn(8) {
					case 0:
						in.Op = "size"
						in.Addr = 0
					case 1:
						in.Addr = size + uint64(lr.Intn(2)) // out of range
						in.Op = proto.Pick(lr, []string{"read", "write"})
					case 2, 3, 4:
						in.Op = "write"
					default:
						in.Op = "read"
					}
					if in.Op == "write" {
						in.Val = uint64(c+1)<<32 | uint64(k+1)
					}
					var out diskOut
					var blk []byte
					if in.Op == "write" {
						blk = mkBlock(in.Val)
					}
					call := time.Since(t0).Nanoseconds()
					func() {
						defer func() {
							if e := recover(); e != nil {
								out.Panic = true
							}
						}()
						switch in.Op {
						case "size":
							out.Val = d.Size()
						case "read":
							b := d.Read(in.Addr)
							v, ok := blockVal(b)
							out.Val = v
							if !ok {
								out.Vals = blockVals(b)
								if fImpl != "file" {
									mu.Lock()
									torn = fmt.Sprintf("client %d read of block %d returned a mixture of values (first %#x)", c, in.Addr, v)
									mu.Unlock()
								}
							}
						case "write":
							d.Write(in.Addr, blk)
						}
					}()
					ret := time.Since(t0).Nanoseconds()
					mu.Lock()
					hist = append(hist, histOp{c, in, out, call, ret})
					mu.Unlock()
				}
			}(c)
		}
		close(start)
		wg.Wait()
		func() {
			defer func() { recover() }()
			d.Close()
		}()
		if path != "" {
			os.Remove(path)
		}
		ops := make([]porcupine.Operation, len(hist))
		for i, h := range hist {
			ops[i] = porcupine.Operation{ClientId: h.Client, Input: h.In, Output: h.Out, Call: h.Call, Return: h.Ret}
		}
		var rr roundResult
		if fImpl == "file" {
			problem := fileRealtimeCheck(hist, size)
			verdict := "Ok"
			if problem != "" {
				verdict = "Illegal"
			}
			rr = roundResult{Round: round, Ops: len(hist), Linearizable: verdict, Problem: problem, Overlaps: countOverlaps(hist)}
			if problem != "" {
				rr.History = hist
			}
		} else {
			res := porcupine.CheckOperationsTimeout(diskModel(size), ops, 20*time.Second)
			rr = roundResult{Round: round, Ops: len(hist), Linearizable: string(res), Torn: torn, Overlaps: countOverlaps(hist)}
			if res == porcupine.Illegal || torn != "" {
				rr.History = hist
			}
		}
		emit(rr)
	}
}
