// Command hconc is the concurrent half of the correspondence harness (C10, C13, C14):
// client goroutines hammer the REAL disk / file-system implementations, every operation is
// recorded with invocation and response timestamps, and the history is checked for
// linearizability against the sequential reference model with porcupine (search/validation
// only; the theorem is in Lean). Torn blocks and incomplete AtomicCreate contents are detected
// directly. Built twice by bin/check: plain and with -race.
//
//	hconc disk   -impl mem|file -seed S -rounds N -threads T -ops K [-scratch DIR]
//	hconc fs     -impl mem|dir  …
//	hconc atomic -impl mem|dir  -mode names|dirs|same …
//
// Output: one JSON object per round on stdout.
package main

import (
	"encoding/json"
	"flag"
	"fmt"
	"os"
)

var (
	fImpl    string
	fSeed    uint64
	fRounds  int
	fThreads int
	fOps     int
	fScratch string
	fMode    string
)

type roundResult struct {
	Round        int         `json:"round"`
	Ops          int         `json:"ops"`
	Linearizable string      `json:"linearizable"` // ok | illegal | unknown(timeout)
	Torn         string      `json:"torn,omitempty"`
	Problem      string      `json:"problem,omitempty"`
	History      interface{} `json:"history,omitempty"`
	Overlaps     int         `json:"overlaps"` // pairs of operations that overlapped in time (how concurrent the round was)
}

func emit(r roundResult) {
	b, _ := json.Marshal(r)
	fmt.Println(string(b))
}

func main() {
	if len(os.Args) < 2 {
		fmt.Fprintln(os.Stderr, "usage: hconc disk|fs|atomic [flags]")
		os.Exit(2)
	}
	fs := flag.NewFlagSet("hconc", flag.ExitOnError)
	fs.StringVar(&fImpl, "impl", "mem", "")
	fs.Uint64Var(&fSeed, "seed", 1, "")
	fs.IntVar(&fRounds, "rounds", 50, "")
	fs.IntVar(&fThreads, "threads", 4, "")
	fs.IntVar(&fOps, "ops", 8, "")
	fs.StringVar(&fScratch, "scratch", "", "")
	fs.StringVar(&fMode, "mode", "names", "")
	fs.Parse(os.Args[2:])
	switch os.Args[1] {
	case "disk":
		runDisk()
	case "fs":
		runFs()
	case "atomic":
		runAtomic()
	default:
		fmt.Fprintln(os.Stderr, "unknown sub-command")
		os.Exit(2)
	}
}
