package main

import (
	"fmt"
	"os"
	"path/filepath"
	"strings"
	"sync"

	"github.com/goose-lang/goose/machine/filesys"

	"verif/harness/internal/proto"
)

// runAtomic exercises the interference clauses of C13: concurrent AtomicCreate calls
//
//	-mode names : every client creates its own names in one directory
//	-mode dirs  : every client creates the SAME name in its own directory
//	-mode same  : all clients create the same name in the same directory
//
// while readers keep opening and reading the files. Every observed content must be the complete
// data of one AtomicCreate call for that (dir, name); at the end every file must hold the complete
// data of one of its writers.
func runAtomic() {
	r := proto.NewRng(fSeed ^ 0xC13)
	for round := 0; round < fRounds; round++ {
		var fs filesys.Filesys
		root := ""
		var dfs *filesys.DirFs
		if fImpl == "dir" {
			root = filepath.Join(fScratch, fmt.Sprintf("concat-%d", round))
			os.RemoveAll(root)
			os.MkdirAll(root, 0755)
			d := filesys.NewDirFs(root)
			dfs = &d
			fs = d
		} else {
			fs = filesys.NewMemFs()
		}
		target := func(c int) (string, string) {
			switch fMode {
			case "dirs":
				return fmt.Sprintf("d%d", c), "f"
			case "same":
				return "d0", "f"
			default:
				return "d0", fmt.Sprintf("f%d", c)
			}
		}
		for c := 0; c < fThreads; c++ {
			fs.Mkdir(fmt.Sprintf("d%d", c))
		}
		linked := map[string]string{} // dir/name-l -> the data the link must keep showing
		for c := 0; c < fThreads; c++ {
			d, n := target(c)
			fs.AtomicCreate(d, n, []byte(payload(c, 0, 1)))
			// a hard link to the first version: AtomicCreate re-points the name, it must not touch the old file
			if _, done := linked[d+"/"+n+"-l"]; !done && fs.Link(d, n, d, n+"-l") {
				linked[d+"/"+n+"-l"] = payload(c, 0, 1)
			}
		}
		valid := func(c int, s string) bool { // is s a complete payload written to client c's target?
			if fMode == "same" {
				for cc := 0; cc < fThreads; cc++ {
					if isPayload(cc, s) {
						return true
					}
				}
				return false
			}
			return isPayload(c, s)
		}
		var mu sync.Mutex
		problem := ""
		report := func(s string) {
			mu.Lock()
			if problem == "" {
				problem = s
			}
			mu.Unlock()
		}
		var wg sync.WaitGroup
		start := make(chan struct{})
		stop := make(chan struct{})
		seeds := make([]uint64, fThreads)
		for i := range seeds {
			seeds[i] = r.U64()
		}
		ops := 0
		for c := 0; c < fThreads; c++ {
			wg.Add(1)
			go func(c int) {
				defer wg.Done()
				lr := proto.NewRng(seeds[c])
				d, n := target(c)
				<-start
				for k := 1; k <= fOps; k++ {
					data := payload(c, k, 1+lr.Intn(3000))
					func() {
						defer func() {
							if e := recover(); e != nil {
								report(fmt.Sprintf("AtomicCreate(%s,%s) by client %d panicked: %v", d, n, c, e))
							}
						}()
						fs.AtomicCreate(d, n, []byte(data))
					}()
				}
			}(c)
		}
		var rg sync.WaitGroup
		for c := 0; c < fThreads; c++ {
			rg.Add(1)
			go func(c int) { // reader of client c's target
				defer rg.Done()
				d, n := target(c)
				<-start
				for {
					select {
					case <-stop:
						return
					default:
					}
					func() {
						defer func() {
							if e := recover(); e != nil {
								report(fmt.Sprintf("reader of %s/%s panicked: %v", d, n, e))
							}
						}()
						// one descriptor designates one version of the file: read it in two pieces
						f := fs.Open(d, n)
						s := string(fs.ReadAt(f, 0, 24)) + string(fs.ReadAt(f, 24, 1<<20))
						fs.Close(f)
						if !valid(c, s) {
							report(fmt.Sprintf("reader saw %s/%s = %q… (%d bytes, read in two pieces through one descriptor): not the complete data of any AtomicCreate for that name", d, n, clip(s), len(s)))
						}
						if want, ok := linked[d+"/"+n+"-l"]; ok {
							g := fs.Open(d, n+"-l")
							ls := string(fs.ReadAt(g, 0, 1<<20))
							fs.Close(g)
							if ls != want {
								report(fmt.Sprintf("the hard link %s/%s-l to the first version changed: %q… (%d bytes)", d, n, clip(ls), len(ls)))
							}
						}
					}()
				}
			}(c)
		}
		close(start)
		wg.Wait()
		close(stop)
		rg.Wait()
		ops = fThreads * fOps
		for c := 0; c < fThreads; c++ {
			d, n := target(c)
			func() {
				defer func() {
					if e := recover(); e != nil {
						report(fmt.Sprintf("final read of %s/%s panicked: %v", d, n, e))
					}
				}()
				f := fs.Open(d, n)
				s := string(fs.ReadAt(f, 0, 1<<20))
				fs.Close(f)
				if !valid(c, s) {
					report(fmt.Sprintf("after all calls returned %s/%s = %q… (%d bytes): not the complete data of one of its writers", d, n, clip(s), len(s)))
				}
			}()
		}
		if dfs != nil {
			func() {
				defer func() { recover() }()
				dfs.CloseFs()
			}()
			os.RemoveAll(root)
		}
		emit(roundResult{Round: round, Ops: ops, Linearizable: "n/a", Problem: problem})
	}
}

func clip(s string) string {
	if len(s) > 40 {
		return s[:40]
	}
	return s
}

// payload(c,k,len): "<c.k.len:" + filler + ">" — self-describing, so completeness is checkable
func payload(c, k, n int) string {
	return fmt.Sprintf("<%d.%d.%d:%s>", c, k, n, strings.Repeat(string(rune('a'+c%26)), n))
}

func isPayload(c int, s string) bool {
	var cc, k, n int
	if _, err := fmt.Sscanf(s, "<%d.%d.%d:", &cc, &k, &n); err != nil {
		return false
	}
	return cc == c && s == payload(cc, k, n)
}
