package main

import (
	"fmt"
	"os"
	"path/filepath"
	"runtime"
	"sort"
	"strings"
	"sync"
	"sync/atomic"
	"time"

	"github.com/anishathalye/porcupine"
	"github.com/goose-lang/goose/machine/filesys"

	"verif/harness/internal/proto"
)

type fsIn struct {
	Op   string `json:"op"`
	Dir  string `json:"d,omitempty"`
	Name string `json:"n,omitempty"`
	Dir2 string `json:"d2,omitempty"`
	Nam2 string `json:"n2,omitempty"`
	Fd   int    `json:"fd,omitempty"`
	Data string `json:"data,omitempty"`
}
type fsOut struct {
	Fd    int    `json:"fd,omitempty"`
	Ok    bool   `json:"ok,omitempty"`
	Data  string `json:"data,omitempty"`
	Names string `json:"names,omitempty"`
	Panic bool   `json:"panic,omitempty"`
}

// sequential reference model (the Ref of Model/Fs.lean, with real descriptor values bound at
// the response of Create/Open)
type fsState struct {
	dirents map[string]int // "dir/name" -> inode
	inodes  map[int]string
	fds     map[int][2]int // fd -> (inode, mode 0=read 1=append)
	nextIno int
	key     string
}

func (s *fsState) clone() *fsState {
	n := &fsState{dirents: map[string]int{}, inodes: map[int]string{}, fds: map[int][2]int{}, nextIno: s.nextIno}
	for k, v := range s.dirents {
		n.dirents[k] = v
	}
	for k, v := range s.inodes {
		n.inodes[k] = v
	}
	for k, v := range s.fds {
		n.fds[k] = v
	}
	return n
}

func (s *fsState) canon() string {
	if s.key != "" {
		return s.key
	}
	var parts []string
	for k, v := range s.dirents {
		parts = append(parts, fmt.Sprintf("e%s=%d", k, v))
	}
	for k, v := range s.fds {
		parts = append(parts, fmt.Sprintf("f%d=%d.%d", k, v[0], v[1]))
	}
	// only inodes that are still reachable matter
	reach := map[int]bool{}
	for _, v := range s.dirents {
		reach[v] = true
	}
	for _, v := range s.fds {
		reach[v[0]] = true
	}
	for k := range reach {
		parts = append(parts, fmt.Sprintf("i%d=%s", k, s.inodes[k]))
	}
	sort.Strings(parts)
	s.key = strings.Join(parts, ";") + fmt.Sprintf("#%d", s.nextIno)
	return s.key
}

func fsStep(st, in, out interface{}) (bool, interface{}) {
	s := st.(*fsState)
	i := in.(fsIn)
	o := out.(fsOut)
	if o.Panic {
		return false, s // the generated histories respect every precondition: no call may panic
	}
	p := i.Dir + "/" + i.Name
	switch i.Op {
	case "create":
		if _, ok := s.dirents[p]; ok {
			return !o.Ok, s
		}
		if !o.Ok {
			return false, s
		}
		if _, open := s.fds[o.Fd]; open {
			return false, s // a descriptor that is still open was handed out again
		}
		n := s.clone()
		n.inodes[n.nextIno] = ""
		n.dirents[p] = n.nextIno
		n.fds[o.Fd] = [2]int{n.nextIno, 1}
		n.nextIno++
		return true, n
	case "append":
		f, ok := s.fds[i.Fd]
		if !ok || f[1] != 1 {
			return false, s
		}
		n := s.clone()
		n.inodes[f[0]] += i.Data
		return true, n
	case "close":
		if _, ok := s.fds[i.Fd]; !ok {
			return false, s
		}
		n := s.clone()
		delete(n.fds, i.Fd)
		return true, n
	case "open":
		ino, ok := s.dirents[p]
		if !ok {
			return false, s
		}
		if _, open := s.fds[o.Fd]; open {
			return false, s
		}
		n := s.clone()
		n.fds[o.Fd] = [2]int{ino, 0}
		return true, n
	case "readall":
		f, ok := s.fds[i.Fd]
		if !ok || f[1] != 0 {
			return false, s
		}
		return o.Data == s.inodes[f[0]], s
	case "delete":
		if _, ok := s.dirents[p]; !ok {
			return false, s
		}
		n := s.clone()
		delete(n.dirents, p)
		return true, n
	case "link":
		ino, ok := s.dirents[p]
		if !ok {
			return false, s
		}
		q := i.Dir2 + "/" + i.Nam2
		if _, ex := s.dirents[q]; ex {
			return !o.Ok, s
		}
		if !o.Ok {
			return false, s
		}
		n := s.clone()
		n.dirents[q] = ino
		return true, n
	case "atomic":
		n := s.clone()
		n.inodes[n.nextIno] = i.Data
		n.dirents[p] = n.nextIno
		n.nextIno++
		return true, n
	case "list":
		var ns []string
		for k := range s.dirents {
			if strings.HasPrefix(k, i.Dir+"/") {
				ns = append(ns, k[len(i.Dir)+1:])
			}
		}
		sort.Strings(ns)
		return o.Names == strings.Join(ns, ","), s
	}
	return false, s
}

var fsModel = porcupine.Model{
	Init: func() interface{} {
		return &fsState{dirents: map[string]int{}, inodes: map[int]string{}, fds: map[int][2]int{}}
	},
	Step:  fsStep,
	Equal: func(a, b interface{}) bool { return a.(*fsState).canon() == b.(*fsState).canon() },
}

// Each client owns the files it creates (names "c<client>-<k>" plus one contended name "hot" that
// every client tries to Create exactly once), so every precondition holds under any interleaving:
// a client only uses descriptors it got itself, deletes/opens/links only names it created, and
// List (documented as non-atomic for DirFs) is only issued for a directory nobody is changing.
func runFs() {
	r := proto.NewRng(fSeed ^ 0xC14)
	for round := 0; round < fRounds; round++ {
		var fs filesys.Filesys
		root := ""
		var dfs *filesys.DirFs
		if fImpl == "dir" {
			root = filepath.Join(fScratch, fmt.Sprintf("concfs-%d", round))
			os.RemoveAll(root)
			os.MkdirAll(root, 0755)
			d := filesys.NewDirFs(root)
			dfs = &d
			fs = d
		} else {
			fs = filesys.NewMemFs()
		}
		fs.Mkdir("d")
		fs.Mkdir("quiet")
		for c := 0; c < fThreads; c++ {
			fs.Mkdir(fmt.Sprintf("pc%d", c)) // one private directory per client
		}
		fs.AtomicCreate("quiet", "x", []byte("x"))
		// one file every client reads while client 0 appends to it (some appends larger than any plausible chunk):
		// a read must see whole appends only
		sharedW, _ := fs.Create("d", "shared")
		sharedR := make([]filesys.File, fThreads)
		for c := range sharedR {
			sharedR[c] = fs.Open("d", "shared")
		}
		t0 := time.Now()
		var mu sync.Mutex
		var hist []histOp
		handedOut := map[int]bool{}
		var wg sync.WaitGroup
		var barrier int64
		start := make(chan struct{})
		seeds := make([]uint64, fThreads)
		for i := range seeds {
			seeds[i] = r.U64()
		}
		for c := 0; c < fThreads; c++ {
			wg.Add(1)
			go func(c int) {
				defer wg.Done()
				lr := proto.NewRng(seeds[c])
				var myNames []string // names this client created and has not deleted
				type ofd struct {
					fd     filesys.File
					append bool
				}
				var myFds []ofd
				triedHot := false
				seq := 0
				do := func(in fsIn, f func() fsOut) fsOut {
					var out fsOut
					call := time.Since(t0).Nanoseconds()
					func() {
						defer func() {
							if e := recover(); e != nil {
								out = fsOut{Panic: true}
							}
						}()
						out = f()
					}()
					ret := time.Since(t0).Nanoseconds()
					mu.Lock()
					hist = append(hist, histOp{c, in, out, call, ret})
					if (in.Op == "create" || in.Op == "open") && !out.Panic && out.Fd >= 0 && (in.Op == "open" || out.Ok) {
						handedOut[out.Fd] = true
					}
					if in.Op == "close" {
						delete(handedOut, in.Fd)
					}
					mu.Unlock()
					return out
				}
				<-start
				// phase 1: all clients race to Create the same names, re-synchronised before every
				// attempt by a spin barrier, so that the calls really overlap
				for j := 0; j < 6; j++ {
					atomic.AddInt64(&barrier, 1)
					for atomic.LoadInt64(&barrier) < int64(fThreads*(j+1)) {
						runtime.Gosched()
					}
					name := fmt.Sprintf("race%d", j)
					out := do(fsIn{Op: "create", Dir: "d", Name: name}, func() fsOut {
						f, ok := fs.Create("d", name)
						return fsOut{Fd: int(f), Ok: ok}
					})
					if out.Ok && !out.Panic {
						myFds = append(myFds, ofd{filesys.File(out.Fd), true})
						myNames = append(myNames, name)
					}
					// … and, still in step, every client creates a name of its own: these calls all succeed, at the same time, and
					// must hand out distinct descriptors
					own := fmt.Sprintf("own%d-%d", c, j)
					oo := do(fsIn{Op: "create", Dir: "d", Name: own}, func() fsOut {
						f, ok := fs.Create("d", own)
						return fsOut{Fd: int(f), Ok: ok}
					})
					if oo.Ok && !oo.Panic {
						myFds = append(myFds, ofd{filesys.File(oo.Fd), true})
						myNames = append(myNames, own)
					}
					// … and every client creates the SAME file name atomically in its own directory and reads it back
					pc := fmt.Sprintf("pc%d", c)
					data := fmt.Sprintf("<same %d.%d>", c, j)
					do(fsIn{Op: "atomic", Dir: pc, Name: "same", Data: data}, func() fsOut {
						fs.AtomicCreate(pc, "same", []byte(data))
						return fsOut{}
					})
					ro := do(fsIn{Op: "open", Dir: pc, Name: "same"}, func() fsOut {
						return fsOut{Fd: int(fs.Open(pc, "same"))}
					})
					if !ro.Panic {
						fd := filesys.File(ro.Fd)
						do(fsIn{Op: "readall", Fd: int(fd)}, func() fsOut {
							return fsOut{Data: string(fs.ReadAt(fd, 0, 1<<16))}
						})
						do(fsIn{Op: "close", Fd: int(fd)}, func() fsOut { fs.Close(fd); return fsOut{} })
					}
				}
				for k := 0; k < fOps; k++ {
					if sel := lr.Intn(8); sel == 0 && c == 0 {
						data := fmt.Sprintf("{%d}", k)
						if lr.Intn(3) == 0 {
							data = strings.Repeat(data, 70000/len(data)+1)
						}
						do(fsIn{Op: "append", Fd: int(sharedW), Data: data}, func() fsOut {
							fs.Append(sharedW, []byte(data))
							return fsOut{}
						})
						continue
					} else if sel == 1 {
						fd := sharedR[c]
						do(fsIn{Op: "readall", Fd: int(fd)}, func() fsOut {
							return fsOut{Data: string(fs.ReadAt(fd, 0, 1<<24))}
						})
						continue
					}
					switch lr.Intn(10) {
					case 0:
						if !triedHot { // concurrent Create of one name: exactly one succeeds
							triedHot = true
							out := do(fsIn{Op: "create", Dir: "d", Name: "hot"}, func() fsOut {
								f, ok := fs.Create("d", "hot")
								return fsOut{Fd: int(f), Ok: ok}
							})
							if out.Ok && !out.Panic {
								myFds = append(myFds, ofd{filesys.File(out.Fd), true})
							}
							continue
						}
						fallthrough
					case 1:
						seq++
						name := fmt.Sprintf("c%d-%d", c, seq)
						out := do(fsIn{Op: "create", Dir: "d", Name: name}, func() fsOut {
							f, ok := fs.Create("d", name)
							return fsOut{Fd: int(f), Ok: ok}
						})
						if out.Ok && !out.Panic {
							myFds = append(myFds, ofd{filesys.File(out.Fd), true})
							myNames = append(myNames, name)
						}
					case 2, 3:
						for _, f := range myFds {
							if f.append {
								data := fmt.Sprintf("<%d.%d>", c, k)
								if lr.Intn(16) == 0 {
									// an append larger than any plausible internal chunk: must still be applied atomically
									data = strings.Repeat(data, 70000/len(data)+1)
								}
								fd := f.fd
								do(fsIn{Op: "append", Fd: int(fd), Data: data}, func() fsOut {
									fs.Append(fd, []byte(data))
									return fsOut{}
								})
								break
							}
						}
					case 4:
						if len(myFds) > 0 {
							i := lr.Intn(len(myFds))
							fd := myFds[i].fd
							myFds = append(myFds[:i], myFds[i+1:]...)
							do(fsIn{Op: "close", Fd: int(fd)}, func() fsOut { fs.Close(fd); return fsOut{} })
						}
					case 5:
						if len(myNames) > 0 {
							name := proto.Pick(lr, myNames)
							out := do(fsIn{Op: "open", Dir: "d", Name: name}, func() fsOut {
								return fsOut{Fd: int(fs.Open("d", name))}
							})
							if !out.Panic {
								myFds = append(myFds, ofd{filesys.File(out.Fd), false})
							}
						}
					case 6:
						for _, f := range myFds {
							if !f.append {
								fd := f.fd
								do(fsIn{Op: "readall", Fd: int(fd)}, func() fsOut {
									return fsOut{Data: string(fs.ReadAt(fd, 0, 1<<20))}
								})
								break
							}
						}
					case 7:
						if len(myNames) > 1 {
							i := lr.Intn(len(myNames))
							name := myNames[i]
							myNames = append(myNames[:i], myNames[i+1:]...)
							do(fsIn{Op: "delete", Dir: "d", Name: name}, func() fsOut { fs.Delete("d", name); return fsOut{} })
						}
					case 8:
						if len(myNames) > 0 {
							src := proto.Pick(lr, myNames)
							seq++
							dst := fmt.Sprintf("c%d-l%d", c, seq)
							out := do(fsIn{Op: "link", Dir: "d", Name: src, Dir2: "d", Nam2: dst}, func() fsOut {
								return fsOut{Ok: fs.Link("d", src, "d", dst)}
							})
							if out.Ok {
								myNames = append(myNames, dst)
							}
						}
					case 9:
						if lr.Intn(2) == 0 {
							seq++
							name := fmt.Sprintf("c%d-a%d", c, seq)
							data := fmt.Sprintf("[%d.%d]", c, k)
							do(fsIn{Op: "atomic", Dir: "d", Name: name, Data: data}, func() fsOut {
								fs.AtomicCreate("d", name, []byte(data))
								return fsOut{}
							})
							myNames = append(myNames, name)
						} else {
							do(fsIn{Op: "list", Dir: "quiet"}, func() fsOut {
								ns := append([]string{}, fs.List("quiet")...)
								sort.Strings(ns)
								return fsOut{Names: strings.Join(ns, ",")}
							})
						}
					}
				}
			}(c)
		}
		close(start)
		wg.Wait()
		// descriptors still open at the end of the round are closed here (DirFs descriptors are OS descriptors: hundreds of
		// rounds must not run the process into its descriptor limit); not part of the recorded history
		handedOut[int(sharedW)] = true
		for _, f := range sharedR {
			handedOut[int(f)] = true
		}
		for f := range handedOut {
			func() {
				defer func() { recover() }()
				fs.Close(filesys.File(f))
			}()
		}
		if dfs != nil {
			func() {
				defer func() { recover() }()
				dfs.CloseFs()
			}()
			os.RemoveAll(root)
		}
		// the model's initial state mirrors the set-up calls
		init := func() interface{} {
			s := &fsState{dirents: map[string]int{"quiet/x": 0, "d/shared": 1}, inodes: map[int]string{0: "x", 1: ""},
				fds: map[int][2]int{int(sharedW): {1, 1}}, nextIno: 2}
			for _, f := range sharedR {
				s.fds[int(f)] = [2]int{1, 0}
			}
			return s
		}
		m := fsModel
		m.Init = init
		// reads of the shared file that show PART of an append (client 0 appends sequentially, so the legal contents are
		// the concatenations of its first j appends) are reported separately and kept out of the model check, so that the
		// rest of the history is still judged
		isShared := map[int]bool{}
		for _, f := range sharedR {
			isShared[int(f)] = true
		}
		legal := map[string]bool{"": true}
		acc := ""
		for _, h := range hist {
			if in := h.In.(fsIn); in.Op == "append" && in.Fd == int(sharedW) {
				acc += in.Data
				legal[acc] = true
			}
		}
		torn := ""
		var ops []porcupine.Operation
		problem := ""
		for _, h := range hist {
			in, out := h.In.(fsIn), h.Out.(fsOut)
			if in.Op == "readall" && isShared[in.Fd] && !out.Panic && !legal[out.Data] {
				if torn == "" {
					torn = fmt.Sprintf("client %d read %d bytes of the shared file through descriptor %d: not the result of any whole number of appends (ends %q)",
						h.Client, len(out.Data), in.Fd, clip(out.Data[max(0, len(out.Data)-24):]))
				}
				continue
			}
			ops = append(ops, porcupine.Operation{ClientId: h.Client, Input: h.In, Output: h.Out, Call: h.Call, Return: h.Ret})
			if out.Panic {
				problem = fmt.Sprintf("client %d: %v panicked although every precondition holds", h.Client, h.In)
			}
		}
		res := porcupine.CheckOperationsTimeout(m, ops, 30*time.Second)
		rr := roundResult{Round: round, Ops: len(hist), Linearizable: string(res), Torn: torn, Problem: problem, Overlaps: countOverlaps(hist)}
		if res == porcupine.Illegal || problem != "" {
			rr.History = hist
		}
		emit(rr)
	}
}
