package semantics

func testSame() bool {
	return true
}

func failing_testSame() bool {
	return false
}
