package semantics

var doc0 = `
func testInsideString0() bool {
`
