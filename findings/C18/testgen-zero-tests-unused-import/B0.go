package semantics

func helperInline0() bool { return true }
