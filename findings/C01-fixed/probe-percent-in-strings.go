package p

import "sync"

// Not a past finding: regression probes. String constants containing '%' in every position goose prints a branch or a call.

func w0() string {
	var s string = "x"
	if s == "x" {
		s = "100%"
	}
	return s
}

func w1() uint64 {
	var n uint64 = 1
	if n == 1 {
		n = uint64(len([]byte("%x%d%%")))
	}
	return n
}

func w2() string {
	s := "%s"
	if s == "%s" {
		return "a%vb" + s
	} else {
		return "%"
	}
}

func w3() uint64 {
	var acc uint64 = 0
	{
		t := "50%"
		if t == "50%" {
			u := "%!(EXTRA)"
			acc = acc + uint64(len(u))
		} else {
			v := "%%"
			acc = acc + uint64(len(v))
		}
	}
	return acc
}

func w4() uint64 {
	var n uint64 = 0
	wg := new(sync.WaitGroup)
	wg.Add(1)
	go func() {
		s := "100%"
		n = uint64(len(s))
		wg.Done()
	}()
	wg.Wait()
	return n
}

func w5() uint64 {
	var n uint64 = 0
	mu := new(sync.Mutex)
	wg := new(sync.WaitGroup)
	wg.Add(1)
	go func() {
		mu.Lock()
		if n == 0 {
			a := "%d items"
			b := "%"
			n = uint64(len(a)) + uint64(len(b))
		}
		mu.Unlock()
		wg.Done()
	}()
	wg.Wait()
	mu.Lock()
	r := n
	mu.Unlock()
	return r
}
