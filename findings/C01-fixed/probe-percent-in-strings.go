package p

// Not a past finding: regression probes. String constants containing '%' in every position goose prints a branch or a call.

func w0() string {
	var s string = "x"
	if s == "x" {
		s = "100%"
	}
	return s
}

func w1() uint64 {
	var n uint64 = 1
	if n == 1 {
		n = uint64(len([]byte("%x%d%%")))
	}
	return n
}

func w2() string {
	s := "%s"
	if s == "%s" {
		return "a%vb" + s
	} else {
		return "%"
	}
}

func w3() uint64 {
	var acc uint64 = 0
	{
		t := "50%"
		if t == "50%" {
			u := "%!(EXTRA)"
			acc = acc + uint64(len(u))
		} else {
			v := "%%"
			acc = acc + uint64(len(v))
		}
	}
	return acc
}
