package p

// A block that is not the last statement of its list declares a name that hides an outer one; the
// emitted let-binding stays in scope for the statements after the block.
func w1() uint64 {
	x := uint64(1)
	var acc uint64 = 0
	{
		x := uint64(2)
		acc = acc + x
	}
	return acc*10 + x
}

func w2() uint64 {
	var x uint64 = 5
	if x > 1 {
		{
			var x uint64 = 7
			x = x + 1
		}
		x = x + 100
	}
	return x
}
