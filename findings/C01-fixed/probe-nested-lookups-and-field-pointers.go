package p

// Not a past finding: regression probes. Map lookups nested in comma-ok lookups (the two-valued form applies to the
// OUTERMOST lookup only), and references to fields of a struct that is reached through a pointer stored in another field.

type In struct {
	x uint64
	y uint64
}

type S struct {
	a  uint64
	b  uint64
	in In
}

type W struct {
	pad uint64
	p   *S
}

func w0() uint64 {
	mm := make(map[uint64]map[uint64]uint64)
	inner := make(map[uint64]uint64)
	inner[2] = 9
	mm[1] = inner
	v, ok := mm[1][2]
	if ok {
		return v + 1
	}
	return 0
}

func w1() uint64 {
	idx := make(map[uint64]uint64)
	idx[5] = 7
	m := make(map[uint64]uint64)
	m[7] = 40
	v, ok := m[idx[5]]
	var r uint64 = 0
	if ok {
		r = v + 2
	}
	return r
}

func w2() uint64 {
	mm := make(map[uint64]map[uint64]uint64)
	inner := make(map[uint64]uint64)
	inner[3] = 11
	mm[4] = inner
	var v uint64
	var ok bool
	v, ok = mm[4][3]
	if ok {
		return v
	}
	return 100
}

func w3() uint64 {
	s := &S{a: 1, b: 2}
	w := &W{pad: 5, p: s}
	r := &w.p.b
	*r = 3
	return w.p.b + s.b + w.pad
}

func w4() uint64 {
	s := &S{a: 1, b: 2}
	w := &W{pad: 5, p: s}
	w.p.in.y = 7
	w.p.a = 9
	return w.p.in.y + s.in.y + s.a + w.pad
}

func w5() uint64 {
	s := &S{a: 1, b: 2}
	w := &W{pad: 5, p: s}
	q := &w.p.in
	q.x = 4
	return s.in.x + w.p.in.x + w.pad
}
