package p

// Not a past finding: regression probes. Local closures, variables and parameters that are merely NAMED like builtins
// must be called / used as what they are (goose may also reject them).

func w0() uint64 {
	len := func(s []uint64) uint64 {
		return 77
	}
	xs := make([]uint64, 2)
	return len(xs)
}

func w1() uint64 {
	cap := func(s []uint64) uint64 {
		return 5
	}
	xs := make([]uint64, 3)
	return cap(xs) + 1
}

func helperCopy(copy uint64, n uint64) uint64 {
	return copy + n
}

func w2() uint64 {
	return helperCopy(40, 2)
}

func w3() uint64 {
	append := func(s []uint64, x uint64) uint64 {
		return x + 100
	}
	xs := make([]uint64, 0)
	return append(xs, 3)
}

func w4() uint64 {
	var new uint64 = 9
	return new + 1
}
