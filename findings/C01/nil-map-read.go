package p

// A map variable that was never made: Go reads the zero value from it and reports length 0.

func w0() uint64 {
	var m map[uint64]uint64
	return m[3] + uint64(len(m))
}

func w1() uint64 {
	var m map[uint64]uint64
	var acc uint64 = 1
	for k, v := range m {
		acc = acc + k + v
	}
	return acc
}
