package p

// Only the spellings uint64/uint32/uint8 are conversions; byte(x) is translated as x.
func w1() uint64 {
	x := uint64(300)
	b := byte(x)
	return uint64(b)
}

func w2() uint64 {
	x := uint64(511)
	s := make([]byte, 1)
	s[0] = byte(x)
	return uint64(s[0])
}
