package p

// Since Go 1.22 every iteration of a three-clause loop has its own copy of the loop variable; the
// emitted GooseLang uses one cell for all iterations.
func w1() uint64 {
	var p *uint64 = new(uint64)
	for i := uint64(0); i < 3; i++ {
		if i == 0 {
			p = &i
		}
	}
	return *p
}

