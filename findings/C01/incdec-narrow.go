package p

// ++ and -- add the 64-bit literal 1 whatever the width of the variable.
func w1() uint32 {
	var y uint32 = 7
	y++
	return y
}

func w2() byte {
	var y byte = 255
	y++
	return y
}

func w3() uint32 {
	var y uint32 = 0
	y--
	return y
}
