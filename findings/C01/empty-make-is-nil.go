package p

// make([]T, 0) is slice.nil in GooseLang, so comparing it with nil differs from Go
// (the repository's failing_testCompareSliceToNil).
func w1() bool {
	s := make([]byte, 0)
	return s != nil
}
