package p

// Conversions to a defined integer type are translated as the identity, whatever the widths
// (repository issue #14; pinned by the gold output of internal/examples/semantics).
type U32 uint32

type U8 byte

func w1() uint64 {
	x := uint64(1) << 40
	y := U32(x + 5)
	return uint64(y)
}

func w2() uint64 {
	x := uint64(300)
	return uint64(U8(x))
}
