package p

// Go evaluates operands and arguments left to right, GooseLang right to left (documented by the
// repository: failing_testFunctionOrdering, failing_testArgumentOrder).
func bump(p *uint64, by uint64) uint64 {
	*p = *p*10 + by
	return *p
}

func pair(a uint64, b uint64) uint64 {
	return a*1000 + b
}

func w1() uint64 {
	p := new(uint64)
	return pair(bump(p, 1), bump(p, 2))
}

func w2() uint64 {
	p := new(uint64)
	return bump(p, 1) - bump(p, 2)
}
