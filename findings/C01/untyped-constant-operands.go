package p

// The operands of a constant expression keep the type "untyped int" in go/types and are printed
// as 64-bit literals even where the expression is used at 32 or 8 bits.
func w1() uint32 {
	x := uint32(9)
	return x / (4 | 1)
}

func w2() byte {
	var y byte = 200
	y = y + (1 + 2)
	return y
}

func w3() uint32 {
	x := uint32(1)
	return x << (2 + 3)
}
