package p

// The variable of a three-clause for statement stays bound after the loop and hides an outer
// variable of the same name.
func w1() uint64 {
	i := uint64(100)
	var acc uint64 = 0
	for i := uint64(0); i < 3; i++ {
		acc = acc + i
	}
	return acc*1000 + i
}

func w2() uint32 {
	var n uint32 = 7
	var acc uint64 = 0
	for n := uint64(0); n < 2; n++ {
		acc = acc + n
	}
	return n | 1
}

func w3() uint64 {
	var acc uint64 = 0
	for l := uint64(0); l < 3; l++ {
		for l := uint64(0); l < 5; l++ {
			acc = acc + 1
		}
		acc = acc + l*100
	}
	return acc
}
