package p

// it's a "quote without its partner
func w1() uint64 {
	return 1
}

// an ordinary comment
func w2() uint64 {
	return 2
}
