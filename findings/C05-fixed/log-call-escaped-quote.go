package p

import "log"

func w1(x uint64) uint64 {
	log.Printf("say \"hi %d", x)
	return x
}

func w2() uint64 {
	return 2
}
