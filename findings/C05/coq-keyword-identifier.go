package p

func at() uint64 {
	return 1
}

func in() uint64 {
	return at() + 1
}

func w2() uint64 {
	return in()
}
