package p

type Shape interface {
	Area() uint64
}

type Sq struct {
	side uint64
}

func (s Sq) Area() uint64 {
	return s.side * s.side
}

func measure(s Shape) uint64 {
	return s.Area()
}

// Known finding interface-conversion-order: the conversion Sq__to__Shape is emitted with the first function in which the call
// that needs it is a whole statement, an if condition or a right-hand side; a function that uses it inside a larger expression
// neither emits it nor records a dependency on it.
func early() bool {
	s := Sq{side: 3}
	if measure(s) == 9 {
		return true
	}
	return false
}

func late() uint64 {
	s := Sq{side: 2}
	x := measure(s)
	return x
}
