package p

// A method m of type T and a function named T__m get the same Coq name.
type T struct {
	a uint64
}

func (t *T) m() uint64 {
	return t.a
}

func T__m() uint64 {
	return 7
}
