package p

// Not findings: shapes at the edge of repaired guards. goose may reject any of these functions; a function it accepts must
// return what Go returns (the siblings of the inputs named in the repairs 813d61e, c24433c, 01b86e3, 7e2bcb9, 8be540c, 6201352).

type C struct {
	k uint64
	j uint64
}

type S struct {
	a uint64
}

type Ptrs []*S

type Bytes []byte

type Name string

func pair() (uint64, uint64) {
	return 7, 9
}

func w0() uint64 {
	c := &C{k: 1}
	m := make(map[uint64]uint64)
	c.k, m[c.k] = pair()
	return m[1]*100 + m[7]*10 + c.k
}

func w1() uint64 {
	c := &C{k: 1}
	p := &c.k
	m := make(map[uint64]uint64)
	*p, m[c.k] = pair()
	return m[1]*100 + m[7]*10 + c.k
}

func w2() uint64 {
	c := &C{k: 1, j: 2}
	c.k, c.j = pair()
	return c.k*10 + c.j
}

func w3() uint64 {
	ps := Ptrs{{a: 1}}
	ps[0].a = ps[0].a + 4
	return ps[0].a
}

func w4() uint64 {
	pss := [][]*S{{{a: 1}}}
	return pss[0][0].a + 2
}

func w5() uint64 {
	s := "abcd"
	b := Bytes(s)
	return uint64(len(b))
}

func w6() uint64 {
	b := make([]byte, 3)
	n := Name(b)
	return uint64(len(n))
}

func w7() uint64 {
	var k uint64 = 1
	m := make(map[uint64]uint64)
	m[k], k = pair()
	return m[1]*10 + k
}

func w8() uint64 {
	xs := make([]uint64, 3)
	var i uint64 = 0
	i, xs[i] = 2, 5
	return xs[0]*10 + xs[2] + i
}
