/-
Obligation inventory: for a property module `GooseVerif.Props.Cxx`, list every theorem
declared in that module together with the axioms it depends on, as JSON on stdout.

  lake env lean --run Audit.lean GooseVerif.Props.C15

A theorem whose axiom set is not within {propext, Classical.choice, Quot.sound} is flagged
by the caller (`bin/check`). `sorryAx` would show up here too.
-/
import Lean
open Lean

def jsonStr (s : String) : String := (Json.str s).compress

unsafe def main (args : List String) : IO UInt32 := do
  let some modStr := args.head? | do IO.eprintln "usage: Audit <module>"; return 2
  let modName := modStr.toName
  enableInitializersExecution
  initSearchPath (← findSysroot)
  let env ← importModules #[{ module := modName }] {} (trustLevel := 1024) (loadExts := true)
  let some idx := env.getModuleIdx? modName | do IO.eprintln "module not found"; return 2
  let mut items : Array String := #[]
  for (n, ci) in env.constants.toList do
    if env.getModuleIdxFor? n != some idx then continue
    match ci with
    | .thmInfo _ =>
      if n.isInternal then continue
      if !(modName.isPrefixOf n) then continue
      let ctx : Core.Context := { fileName := "<audit>", fileMap := default }
      let (arr, _) ← (Lean.collectAxioms n : CoreM _).toIO ctx { env := env }
      let axs := arr.toList.map (fun a => jsonStr a.toString)
      items := items.push s!"\{\"name\": {jsonStr n.toString}, \"axioms\": [{", ".intercalate axs}]}"
    | _ => pure ()
  IO.println s!"\{\"module\": {jsonStr modStr}, \"theorems\": [{", ".intercalate items.toList}]}"
  return 0
