/-
Driver for the codec / decimal protocol (C15, C16):
  put64 <bufhex> <u64> | get64 <bufhex> | put32 <bufhex> <u32> | get32 <bufhex>
  spec-put64 … (same operations answered by the table-free specification)
replies: bytes <hex> | n <dec> | panic
-/
import Driver.Util
import GooseVerif.Model.Prims

namespace Driver.Enc
open GooseVerif.Model.Codec GooseVerif.Model.Prims

def toBv (bs : List UInt8) : List Byte := bs.map (fun b => BitVec.ofNat 8 b.toNat)
def ofBv (bs : List Byte) : List UInt8 := bs.map (fun b => UInt8.ofNat b.toNat)

def showBytes : Res (List Byte) → String
  | .ok b => "bytes " ++ hexOrDash (ofBv b)
  | .panic => "panic"

def showNat {w : Nat} : Res (BitVec w) → String
  | .ok v => "n " ++ toString v.toNat
  | .panic => "panic"

def step (_ : Unit) (ws0 : List String) : Unit × String :=
  -- a nil slice is a buffer of length 0; concurrent callers on private buffers do not disturb each other
  let ws := ws0.map (fun w => if w == "nil" then "-" else w)
  let out :=
    match ws with
    | ["conc", _, _, _] => "ok"
    | ["spec-conc", _, _, _] => "ok"
    | ["put64", buf, n] =>
      match bytesOfHex buf, n.toNat? with
      | some b, some v => if v < 2^64 then showBytes (uint64Put (toBv b) (BitVec.ofNat 64 v)) else "bad-op"
      | _, _ => "bad-op"
    | ["put32", buf, n] =>
      match bytesOfHex buf, n.toNat? with
      | some b, some v => if v < 2^32 then showBytes (uint32Put (toBv b) (BitVec.ofNat 32 v)) else "bad-op"
      | _, _ => "bad-op"
    | ["get64", buf] =>
      match bytesOfHex buf with
      | some b => showNat (uint64Get (toBv b))
      | none => "bad-op"
    | ["get32", buf] =>
      match bytesOfHex buf with
      | some b => showNat (uint32Get (toBv b))
      | none => "bad-op"
    | ["spec-put64", buf, n] =>
      match bytesOfHex buf, n.toNat? with
      | some b, some v => if v < 2^64 then showBytes (specPut 8 (toBv b) (BitVec.ofNat 64 v)) else "bad-op"
      | _, _ => "bad-op"
    | ["spec-put32", buf, n] =>
      match bytesOfHex buf, n.toNat? with
      | some b, some v => if v < 2^32 then showBytes (specPut 4 (toBv b) (BitVec.ofNat 32 v)) else "bad-op"
      | _, _ => "bad-op"
    | ["spec-get64", buf] =>
      match bytesOfHex buf with
      | some b => showNat (specGet 64 8 (toBv b))
      | none => "bad-op"
    | ["spec-get32", buf] =>
      match bytesOfHex buf with
      | some b => showNat (specGet 32 4 (toBv b))
      | none => "bad-op"
    | _ => "bad-op"
  ((), out)

def main : IO Unit := lineLoop step ()

end Driver.Enc
