/-
Driver for the `tg` protocol (C18):  tg <go|coq> (<name-hex> <f|d> <content-hex>)*   →   out <hex of the generated text>
-/
import Driver.Util
import GooseVerif.Model.TestGen

namespace Driver.TestGen
open GooseVerif.Model.TestGen

def strOfHex (h : String) : Option String := do
  let bs ← bytesOfHex h
  String.fromUTF8? (ByteArray.mk bs.toArray)

def parseFiles : List String → Option (List File)
  | [] => some []
  | n :: k :: c :: rest => do
    let name ← strOfHex n
    let content ← strOfHex c
    let fs ← parseFiles rest
    some ({ name := name, isDir := k == "d", content := content, excluded := k == "x" } :: fs)
  | _ => none

def step (_ : Unit) (ws : List String) : Unit × String :=
  let out :=
    match ws with
    | "tg" :: mode :: rest =>
      match parseFiles rest with
      | some files =>
        let text := if mode == "go" then genGo files else genCoq files
        "out " ++ hexOrDash text.toUTF8.toList
      | none => "bad-op"
    | _ => "bad-op"
  ((), out)

end Driver.TestGen
