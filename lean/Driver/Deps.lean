/-
Driver for the `deps` protocol (C04): the emission order of Model.Deps on recorded names/deps.
  order <names>|<deps> …   (one word per declaration; names/deps are comma separated hex strings, `-` = none)
      → order <i0> <i1> …
-/
import Driver.Util
import GooseVerif.Model.Deps

namespace Driver.Deps
open GooseVerif.Model.Deps

def strList (w : String) : Option (List String) :=
  if w == "-" then some [] else
  (w.splitOn ",").mapM (fun h => (bytesOfHex h).bind (fun bs => String.fromUTF8? (ByteArray.mk bs.toArray)))

def parseDecl (w : String) : Option DeclInfo :=
  match w.splitOn "|" with
  | [ns, ds] => do
    let names ← strList ns
    let deps ← strList ds
    pure { names := names, deps := deps }
  | _ => none

def step (ws : List String) : String :=
  match ws with
  | "order" :: rest =>
    match rest.mapM parseDecl with
    | some ds => "order " ++ " ".intercalate ((emitOrder ds).map toString)
    | none => "bad-op"
  | _ => "bad-op"

end Driver.Deps
