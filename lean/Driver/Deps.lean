/-
Driver for the `deps` protocol (C04): the emission order of Model.Deps on recorded names/deps.
  order <names>|<deps> …   (one word per declaration; names/deps are comma separated hex strings, `-` = none)
      → order <i0> <i1> …
  units s:<names>|<deps> g:<names>|<deps>;<names>|<deps> …   (top-level declarations: single ones and const/var groups)
      → units <names>|<deps> … order <i0> …     (Model.Deps.declUnits, then emitOrder on them)
-/
import Driver.Util
import GooseVerif.Model.Deps

namespace Driver.Deps
open GooseVerif.Model.Deps

def strList (w : String) : Option (List String) :=
  if w == "-" then some [] else
  (w.splitOn ",").mapM (fun h => (bytesOfHex h).bind (fun bs => String.fromUTF8? (ByteArray.mk bs.toArray)))

def parseDecl (w : String) : Option DeclInfo :=
  match w.splitOn "|" with
  | [ns, ds] => do
    let names ← strList ns
    let deps ← strList ds
    pure { names := names, deps := deps }
  | _ => none

/-- `s:<names>|<deps>` a single declaration, `g:<names>|<deps>;<names>|<deps>;…` a const/var group (`g:` alone: no specs) -/
def parseTop (w : String) : Option TopDecl :=
  if w.startsWith "s:" then (parseDecl (w.drop 2).toString).map TopDecl.single
  else if w == "g:" then some (.group [])
  else if w.startsWith "g:" then (((w.drop 2).toString.splitOn ";").mapM parseDecl).map TopDecl.group
  else none

def hexList (xs : List String) : String :=
  if xs.isEmpty then "-" else ",".intercalate (xs.map (fun x => hexOrDash x.toUTF8.toList))

def step (ws : List String) : String :=
  match ws with
  | "units" :: rest =>
    -- the units `declUnits` makes of the top-level declarations, then the order they are emitted in
    match rest.mapM parseTop with
    | some tops =>
      let us := declUnits tops
      "units " ++ " ".intercalate (us.map (fun u => hexList u.names ++ "|" ++ hexList u.deps)) ++ " order " ++
        " ".intercalate ((emitOrder us).map toString)
    | none => "bad-op"
  | "order" :: rest =>
    match rest.mapM parseDecl with
    | some ds => "order " ++ " ".intercalate ((emitOrder ds).map toString)
    | none => "bad-op"
  | _ => "bad-op"

end Driver.Deps
