/-
Driver for the `san` protocol (C05): what Model.Sanitize predicts goose prints for a comment.
  block <k> <hex of the comment text>   → text <hex of commentBlockQ k c>
-/
import Driver.Util
import GooseVerif.Model.Sanitize

namespace Driver.San
open GooseVerif.Model.Sanitize

def step (ws : List String) : String :=
  match ws with
  | ["block", k, h] =>
    match k.toNat?, (bytesOfHex h).bind (fun bs => String.fromUTF8? (ByteArray.mk bs.toArray)) with
    | some k, some c =>
      let out := String.ofList (commentBlockQ k c.toList)
      "text " ++ hexOrDash out.toUTF8.toList
    | _, _ => "bad-op"
  | _ => "bad-op"

end Driver.San
