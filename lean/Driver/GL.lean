/-
Driver for the `gl` protocol (C01–C05): the emitted `.v` text is loaded, then queried.
  load <hex of the .v file>      → ok <number of declarations> | parse-error <hex of message>
  names                          → names <n1,n2,…>      (defined names in order of appearance)
  canon <name>                   → canon <fully bracketed rendering of the parsed declaration>
  uses <name>                    → uses <g1,g2,…>       (Gallina identifiers mentioned in the body, sorted, deduplicated)
  eval <fn> <arg>…               → value … | stuck <hex> | diverged
-/
import Driver.Util
import GooseVerif.GL.Parse
import GooseVerif.GL.Sem
import GooseVerif.GL.Canon
import GooseVerif.GL.Explore

namespace Driver.GL
open GooseVerif.GL

structure St where
  decls : List Decl := []

mutual
partial def globalsOf : Expr → List String
  | .lit _ | .var _ | .anon => []
  | .gvar x => [x]
  | .app f args => globalsOf f ++ globalsOfList args
  | .binop _ a b => globalsOf a ++ globalsOf b
  | .not e => globalsOf e
  | .letIn _ e b => globalsOf e ++ globalsOf b
  | .seq a b => globalsOf a ++ globalsOf b
  | .ite c t e => globalsOf c ++ globalsOf t ++ globalsOf e
  | .lam _ b => globalsOf b
  | .recf _ _ b => globalsOf b
  | .load t e => globalsOf t ++ globalsOf e
  | .store d t v => globalsOf d ++ globalsOf t ++ globalsOf v
  | .tuple es => globalsOfList es
  | .forLoop c p b => globalsOf c ++ globalsOf p ++ globalsOf b
  | .fields fs => globalsOfList (fs.map (·.2))
  | .list es => globalsOfList es
partial def globalsOfList : List Expr → List String
  | [] => []
  | e :: es => globalsOf e ++ globalsOfList es
end

/-- head and total number of arguments of an application spine whose head is a global -/
partial def spineHead : Expr → Option (String × Nat)
  | .app (.gvar g) args => some (g, args.length)
  | .app f args => (spineHead f).map (fun (g, k) => (g, k + args.length))
  | _ => none

mutual
/-- every application whose head is a global: (head, number of arguments) -/
partial def appsOf : Expr → List (String × Nat)
  | .lit _ | .var _ | .anon | .gvar _ => []
  | .app f args =>
    -- `(f a) b` is `f a b` (functions are curried): count the arguments along the whole spine
    (match spineHead (.app f args) with | some p => [p] | none => []) ++ appsBelowSpine f ++ appsOfList args
  | .binop _ a b => appsOf a ++ appsOf b
  | .not e => appsOf e
  | .letIn _ e b => appsOf e ++ appsOf b
  | .seq a b => appsOf a ++ appsOf b
  | .ite c t e => appsOf c ++ appsOf t ++ appsOf e
  | .lam _ b => appsOf b
  | .recf _ _ b => appsOf b
  | .load t e => appsOf t ++ appsOf e
  | .store d t v => appsOf d ++ appsOf t ++ appsOf v
  | .tuple es => appsOfList es
  | .forLoop c p b => appsOf c ++ appsOf p ++ appsOf b
  | .fields fs => appsOfList (fs.map (·.2))
  | .list es => appsOfList es
partial def appsBelowSpine : Expr → List (String × Nat)
  | .app f args => appsBelowSpine f ++ appsOfList args
  | .gvar _ => []
  | e => appsOf e
partial def appsOfList : List Expr → List (String × Nat)
  | [] => []
  | e :: es => appsOf e ++ appsOfList es
end

/-- number of arguments a defined function takes (type parameters first, then the binders of its `rec:`) -/
def declArity : Decl → Option (String × Nat)
  | .func n tps (.recf _ ps _) => some (n, tps.length + ps.length)
  | _ => none

def declBody : Decl → Option Expr
  | .func _ _ b | .const _ b | .typeDef _ b | .notation _ b => some b
  | .struct _ fs => some (.fields fs)
  | .other _ => none

def dedupSorted (l : List String) : List String :=
  (l.mergeSort (fun a b => decide (a ≤ b))).eraseDups

def strOfHex (h : String) : Option String := do
  let bs ← bytesOfHex h
  String.fromUTF8? (ByteArray.mk bs.toArray)

def parseArg (a : String) : Option Val :=
  match a.splitOn ":" with
  | ["u64", n] => n.toNat?.map Val.u64
  | ["u32", n] => n.toNat?.map Val.u32
  | ["u8", n] => n.toNat?.map Val.u8
  | ["bool", b] => some (.bool (b == "true"))
  | ["str", h] => (bytesOfHex h).map (fun bs => Val.str (String.ofList (bs.map (fun b => Char.ofNat b.toNat))))
  | ["unit"] => some .unit
  | _ => none

def step (s : St) (ws : List String) : St × String :=
  match ws with
  | ["load", h] =>
    match strOfHex h with
    | none => (s, "bad-op")
    | some text =>
      match parseFile text with
      | .ok ds => ({ decls := ds }, s!"ok {ds.length}")
      | .error e => ({ decls := [] }, "parse-error " ++ hexOrDash e.toUTF8.toList)
  | ["names"] =>
    (s, "names " ++ (let ns := s.decls.filterMap Decl.name?; if ns.isEmpty then "-" else ",".intercalate ns))
  | ["canon", n] =>
    match s.decls.find? (fun d => d.name? == some n) with
    | some d => (s, "canon " ++ d.canon)
    | none => (s, "unknown")
  | ["usesord", n] =>
    -- same-file or other Gallina identifiers in order of first occurrence
    match s.decls.find? (fun d => d.name? == some n) with
    | some d =>
      let gs := (((declBody d).map globalsOf).getD []).eraseDups
      (s, "usesord " ++ (if gs.isEmpty then "-" else ",".intercalate gs))
    | none => (s, "unknown")
  | ["arity"] =>
    -- applications of functions defined in this file with another number of arguments than their definition takes,
    -- and of GooseLang's type constructors with another number than they have
    let ar := s.decls.filterMap declArity ++
      [("slice.T", 1), ("mapT", 1), ("arrayT", 1), ("ptrT", 1), ("refT", 1), ("struct.t", 1), ("struct.ptrT", 1), ("prodT", 2), ("arrowT", 2), ("chanT", 1)]
    let bad := s.decls.flatMap (fun d =>
      match d with
      | .notation _ _ => []      -- (`Notation x := (t) (only parsing).`: the modifier is read as an argument)
      | _ =>
      match d.name?, declBody d with
      | some n, some b => (appsOf b).filterMap (fun (g, k) =>
          -- inside `Definition n`, a global `n` is an EARLIER n (a library function of that name), not this definition
          if g == n then none else
          match ar.find? (·.1 == g) with
          | some (_, want) => if k != want then some s!"{n}:{g}:{k}:{want}" else none
          | none => none)
      | _, _ => [])
    (s, "arity " ++ (if bad.isEmpty then "-" else ",".intercalate bad.eraseDups))
  | ["others"] =>
    (s, "others " ++ (let ks := s.decls.filterMap (fun d => match d with | .other k => some k | _ => none); if ks.isEmpty then "-" else ",".intercalate ks))
  | ["uses", n] =>
    match s.decls.find? (fun d => d.name? == some n) with
    | some d =>
      let gs := dedupSorted (((declBody d).map globalsOf).getD [])
      (s, "uses " ++ (if gs.isEmpty then "-" else ",".intercalate gs))
    | none => (s, "unknown")
  | op :: fn :: args =>
    if op != "explore" && op != "explore-strict" && op != "eval" then (s, "bad-op") else
    if op == "eval" then
    match args.mapM parseArg with
    | none => (s, "bad-op")
    | some vs =>
      match runCall { decls := s.decls } 3000000 fn vs with
      | .value v w => (s, "value " ++ showVal w 6 v)
      | .stuck why => (s, "stuck " ++ hexOrDash why.toUTF8.toList)
      | .deadlock => (s, "deadlock")
      | .outOfFuel => (s, "fuel")
    else
    -- all interleavings at synchronisation points: outcomes <states> <truncated 0|1> <hex of outcome>…
    -- (explore-strict: condition waits return only after a signal/broadcast, as Go's sync.Cond)
    match args.mapM parseArg with
    | none => (s, "bad-op")
    | some vs =>
      let r := exploreCall { decls := s.decls } 200000 1000000 fn vs (op == "explore-strict")
      (s, s!"outcomes {r.states} {if r.truncated then 1 else 0} " ++ " ".intercalate (r.outcomes.reverse.map (fun o => hexOrDash o.toUTF8.toList)))
  | _ => (s, "bad-op")

end Driver.GL
