/-
Driver for the `conv` protocol (C02): the decision of Model.Conv.decide on a conversion `T(x)` with a typed source.
  conv <spelling> <to> <from>
      spelling:  ident (the target is written uint64 | uint32 | uint8 | byte)  |  other
      type:      <d|p>:<under>     d = defined type, p = predeclared type / type literal
      under:     u64 u32 u8 u16 uint int i64 f64 bool str bytes sliceu64 other
      → reject | identity | tou64 | tou32 | tou8 | stringtobytes | stringfrombytes
  anything else → bad-op
-/
import Driver.Util
import GooseVerif.Model.Conv

namespace Driver.Conv
open GooseVerif.Model.Conv

def parseUnder (w : String) : Option Under :=
  match w with
  | "u64" => some (.basic .u64)
  | "u32" => some (.basic .u32)
  | "u8" => some (.basic .u8)
  | "u16" => some (.basic .u16)
  | "uint" => some (.basic .uint)
  | "int" => some (.basic .int)
  | "i64" => some (.basic .i64)
  | "f64" => some (.basic .f64)
  | "bool" => some (.basic .bool)
  | "str" => some (.basic .str)
  | "bytes" => some .bytes
  | "sliceu64" => some .sliceU64
  | "other" => some .other
  | _ => none

def parseTy (w : String) : Option Ty :=
  match w.splitOn ":" with
  | ["d", u] => (parseUnder u).map (fun u => ⟨true, u⟩)
  | ["p", u] => (parseUnder u).map (fun u => ⟨false, u⟩)
  | _ => none

def parseSpelling (w : String) : Option Spelling :=
  match w with
  | "ident" => some .ident
  | "other" => some .other
  | _ => none

def showDecision : Decision → String
  | .reject => "reject"
  | .identity => "identity"
  | .toU 64 => "tou64"
  | .toU 32 => "tou32"
  | .toU 8 => "tou8"
  | .toU _ => "bad-op"
  | .stringToBytes => "stringtobytes"
  | .stringFromBytes => "stringfrombytes"

def step (ws : List String) : String :=
  match ws with
  | ["conv", sp, to, src] =>
    match parseSpelling sp, parseTy to, parseTy src with
    | some sp, some to, some src => showDecision (GooseVerif.Model.Conv.decide sp to src false)
    | _, _, _ => "bad-op"
  | _ => "bad-op"

end Driver.Conv
