/-
Driver for the `global` protocol (C02): the guard of package-level variables on a type in prefix tokens.
  global <ty>        ty ::= n | r <ty> | s <k> <ty>×k | a <len> <ty>
      → holds true | holds false        (Model.Global.holdsReference)
-/
import Driver.Util
import GooseVerif.Model.Global

namespace Driver.Global
open GooseVerif.Model.Global

mutual
/-- parse one type from the front of the token list (fuel: the number of tokens) -/
def parseTy : Nat → List String → Option (Ty × List String)
  | 0, _ => none
  | f + 1, ws =>
    match ws with
    | "n" :: rest => some (.num, rest)
    | "r" :: rest => (parseTy f rest).map (fun (t, r) => (.ref t, r))
    | "a" :: len :: rest => len.toNat?.bind (fun k => (parseTy f rest).map (fun (t, r) => (.array k t, r)))
    | "s" :: k :: rest => k.toNat?.bind (fun n => (parseTys f n rest).map (fun (ts, r) => (.struct ts, r)))
    | _ => none
def parseTys : Nat → Nat → List String → Option (List Ty × List String)
  | 0, _, _ => none
  | _ + 1, 0, ws => some ([], ws)
  | f + 1, n + 1, ws =>
    match parseTy f ws with
    | some (t, r) => (parseTys f n r).map (fun (ts, r') => (t :: ts, r'))
    | none => none
end

def step (ws : List String) : String :=
  match ws with
  | "global" :: rest =>
    match parseTy (rest.length + 1) rest with
    | some (t, []) => if holdsReference t then "holds true" else "holds false"
    | _ => "bad-op"
  | _ => "bad-op"

end Driver.Global
