/-
Driver for the `tuple` protocol (C02): the verdict of Model.TupleAssign.guard on the targets of a
multiple assignment.
  tuple <target> <target> …      → guard true | guard false
      target:  _ | v:<name> | d:<atom> | i:<atom>:<atom> | f:<atom>:<n>
      atom:    l<n> (literal) | i<name> (never re-assigned variable) | m<name> (re-assignable variable)
      name:    [a-z][a-z0-9]*
  anything else → bad-op
-/
import Driver.Util
import GooseVerif.Model.TupleAssign

namespace Driver.Tuple
open GooseVerif.Model.TupleAssign

def isLower (c : Char) : Bool := 'a' ≤ c && c ≤ 'z'
def isDigit (c : Char) : Bool := '0' ≤ c && c ≤ '9'

/-- `[a-z][a-z0-9]*` -/
def parseName (cs : List Char) : Option String :=
  match cs with
  | c :: rest =>
    if isLower c && rest.all (fun d => isLower d || isDigit d) then some (String.ofList cs) else none
  | [] => none

/-- a non-empty string of decimal digits -/
def parseNat (cs : List Char) : Option Nat :=
  if cs.isEmpty || !cs.all isDigit then none
  else some (cs.foldl (fun n c => 10 * n + (c.toNat - 48)) 0)

def parseAtom (w : String) : Option Atom :=
  match w.toList with
  | 'l' :: rest => (parseNat rest).map Atom.lit
  | 'i' :: rest => (parseName rest).map Atom.imm
  | 'm' :: rest => (parseName rest).map Atom.mut
  | _ => none

def parseTarget (w : String) : Option Target :=
  match w.splitOn ":" with
  | ["_"] => some .blank
  | ["v", x] => (parseName x.toList).map Target.var
  | ["d", p] => (parseAtom p).map Target.deref
  | ["i", m, k] => do
    let m ← parseAtom m
    let k ← parseAtom k
    pure (.index m k)
  | ["f", s, n] => do
    let s ← parseAtom s
    let n ← parseNat n.toList
    pure (.field s n)
  | _ => none

def step (ws : List String) : String :=
  match ws with
  | "tuple" :: rest =>
    match rest.mapM parseTarget with
    | some ts => if GooseVerif.Model.TupleAssign.guard ts then "guard true" else "guard false"
    | none => "bad-op"
  | _ => "bad-op"

end Driver.Tuple
