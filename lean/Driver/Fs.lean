/-
Driver for the `fs` protocol: `driver fs ref|mem|dir`.
-/
import Driver.Util
import GooseVerif.Model.Fs

namespace Driver.Fs
open GooseVerif.Model.Fs

def parseOp (ws : List String) : Option Op :=
  match ws with
  | ["mkdir", d] => some (.mkdir d)
  | ["create", d, n] => some (.create d n)
  | ["append", k, hex] => do some (.append (← k.toNat?) (← bytesOfHex hex))
  | ["close", k] => do some (.close (← k.toNat?))
  | ["open", d, n] => some (.open_ d n)
  | ["readat", k, off, len] => do some (.readAt (← k.toNat?) (← off.toNat?) (← len.toNat?))
  | ["delete", d, n] => some (.delete d n)
  | ["link", od, on, nd, nn] => some (.link od on nd nn)
  | ["atomic", d, n, hex] => do some (.atomic d n (← bytesOfHex hex))
  | ["list", d] => some (.list d)
  | _ => none

def showOut : Out → String
  | .ok => "ok"
  | .fd k => s!"fd {k}"
  | .nofd => "nofd"
  | .bool b => if b then "bool true" else "bool false"
  | .bytes bs => "bytes " ++ hexOrDash bs
  | .names ns => if ns.isEmpty then "names -" else "names " ++ ",".intercalate ns
  | .panic => "panic"
  | .invalid => "invalid"

def refStep (s : Ref) (ws : List String) : Ref × String :=
  match ws with
  | ["newfs"] => (Ref.empty, "ok")
  | _ =>
    match parseOp ws with
    | some op => let r := s.step op; (r.1, showOut r.2)
    | none => (s, "bad-op")

end Driver.Fs
