/-
Driver for the `fs` protocol: `driver fs ref|mem|dir`.
-/
import Driver.Util
import GooseVerif.Model.Fs
import GooseVerif.Model.MemFs
import GooseVerif.Model.DirFs

namespace Driver.Fs
open GooseVerif.Model.Fs

def parseOp (ws : List String) : Option Op :=
  match ws with
  | ["mkdir", d] => some (.mkdir d)
  | ["create", d, n] => some (.create d n)
  | ["append", k, hex] => do some (.append (← k.toNat?) (← bytesOfHex hex))
  | ["close", k] => do some (.close (← k.toNat?))
  | ["open", d, n] => some (.open_ d n)
  | ["readat", k, off, len] => do some (.readAt (← k.toNat?) (← off.toNat?) (← len.toNat?))
  | ["delete", d, n] => some (.delete d n)
  | ["link", od, on, nd, nn] => some (.link od on nd nn)
  | ["atomic", d, n, hex] => do some (.atomic d n (← bytesOfHex hex))
  | ["list", d] => some (.list d)
  | _ => none

def showOut : Out → String
  | .ok => "ok"
  | .fd k => s!"fd {k}"
  | .nofd => "nofd"
  | .bool b => if b then "bool true" else "bool false"
  | .bytes bs => "bytes " ++ hexOrDash bs
  | .names ns => if ns.isEmpty then "names -" else "names " ++ ",".intercalate ns
  | .panic => "panic"
  | .invalid => "invalid"

def refStep (s : Ref) (ws : List String) : Ref × String :=
  match ws with
  | ["newfs"] => (Ref.empty, "ok")
  | _ =>
    match parseOp ws with
    | some op => let r := s.step op; (r.1, showOut r.2)
    | none => (s, "bad-op")

/-- MemFs model: descriptors are renamed between creation index (protocol) and value (model). -/
def memStep (s : MemFs) (ws : List String) : MemFs × String :=
  match ws with
  | ["newfs"] => (MemFs.empty, "ok")
  | _ =>
    match parseOp ws with
    | some op =>
      let r := s.step (shiftOp op)
      let out := match r.2 with
        | .fd k => Out.fd (k - 1)
        | o => o
      (r.1, showOut out)
    | none => (s, "bad-op")

/-- DirFs model. Extra ops: `atomicx d n hex k kill|fail [shorts…]` runs AtomicCreate disturbed at
system call `k`; `restart` models a new process on the same directory tree. -/
def dirStep (s : Os) (ws : List String) : Os × String :=
  match ws with
  | ["newfs"] => (Os.empty, "ok")
  | ["restart"] => (s.crash, "ok")
  | "atomicx" :: d :: n :: hex :: k :: mode :: shorts =>
    match bytesOfHex hex, k.toNat? with
    | some data, some k =>
      let sh := shorts.filterMap String.toNat?
      let dist : Disturb :=
        if mode == "kill" then { shorts := sh, stopAfter := some k }
        else if mode == "fail" then { shorts := sh, failAt := some k }
        else { shorts := sh }
      let r := acRun s d n data dist
      (r.1, match r.2 with | .ok => "ok" | .panic => "panic" | .crashed => "crashed")
    | _, _ => (s, "bad-op")
  | _ =>
    match parseOp ws with
    | some op => let r := DirFs.step s op; (r.1, showOut r.2)
    | none => (s, "bad-op")

/-- Reference model with the two outcomes the property allows for a disturbed AtomicCreate:
`atomicx … applied` behaves as a completed AtomicCreate, `atomicx … dropped` as no call at all. -/
def refStepX (s : Ref) (ws : List String) : Ref × String :=
  match ws with
  | ["restart"] => ({ s with fds := [] }, "ok")
  | ["atomicx", d, n, hex, "applied"] =>
    match bytesOfHex hex with
    | some data => let r := s.step (.atomic d n data); (r.1, "any")
    | none => (s, "bad-op")
  | ["atomicx", _, _, _, "dropped"] => (s, "any")
  | _ => refStep s ws

end Driver.Fs
