import Driver.Enc

def main (args : List String) : IO UInt32 := do
  match args with
  | ["enc"] => Driver.Enc.main; return 0
  | _ => IO.eprintln "usage: driver <enc>"; return 2
