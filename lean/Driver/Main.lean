import Driver.Enc
import Driver.Prim
import Driver.Disk
import Driver.Fs
import Driver.TestGen
import Driver.Cli
import Driver.GL
import Driver.Deps
import Driver.San
import Driver.Tuple
import Driver.Conv
import Driver.Global
import GooseVerif.Model.Tr
import GooseVerif.Model.Scope
import GooseVerif.Model.Core
import GooseVerif.Model.Heap
import GooseVerif.Model.Coll
import GooseVerif.Model.Conc
import GooseVerif.Model.Fun

def main (args : List String) : IO UInt32 := do
  match args with
  | ["enc"] => Driver.Enc.main; return 0
  | ["prim"] => Driver.lineLoop Driver.Prim.step (); return 0
  | ["disk", "mem"] => Driver.lineLoop Driver.Disk.memStep none; return 0
  | ["disk", "file"] => Driver.lineLoop Driver.Disk.fileStep none; return 0
  | ["disk", "sw"] => Driver.lineLoop Driver.Disk.swsrStep (); return 0
  | ["disk", "spec"] => Driver.lineLoop Driver.Disk.specStep none; return 0
  | ["fs", "ref"] => Driver.lineLoop Driver.Fs.refStepX GooseVerif.Model.Fs.Ref.empty; return 0
  | ["fs", "mem"] => Driver.lineLoop Driver.Fs.memStep GooseVerif.Model.Fs.MemFs.empty; return 0
  | ["fs", "dir"] => Driver.lineLoop Driver.Fs.dirStep GooseVerif.Model.Fs.Os.empty; return 0
  | ["tg"] => Driver.lineLoop Driver.TestGen.step (); return 0
  | ["cli"] => Driver.lineLoop Driver.Cli.step (); return 0
  | ["gl"] => Driver.lineLoop Driver.GL.step {}; return 0
  | ["tr"] => Driver.lineLoop (fun (_ : Unit) ws => ((), match ws with | u :: toks => GooseVerif.Model.Tr.run u toks | [] => "bad-input")) (); return 0
  | ["scope"] => Driver.lineLoop (fun (_ : Unit) ws => ((), GooseVerif.Model.Scope.run ws)) (); return 0
  | ["scopego"] => Driver.lineLoop (fun (_ : Unit) ws => ((), GooseVerif.Model.Scope.runGoToks ws)) (); return 0
  | ["heap"] => Driver.lineLoop (fun (_ : Unit) ws => ((), GooseVerif.Model.Heap.run ws)) (); return 0
  | ["heapgo"] => Driver.lineLoop (fun (_ : Unit) ws => ((), GooseVerif.Model.Heap.runGoToks ws)) (); return 0
  | ["heapt"] => Driver.lineLoop (fun (_ : Unit) ws => ((), GooseVerif.Model.Heap.runTToks ws)) (); return 0
  | ["conc"] => Driver.lineLoop (fun (_ : Unit) ws => ((), GooseVerif.Model.Conc.run ws)) (); return 0
  | ["concx"] => Driver.lineLoop (fun (_ : Unit) ws => ((), GooseVerif.Model.Conc.runExplore 1 ws)) (); return 0
  | ["concxa"] => Driver.lineLoop (fun (_ : Unit) ws => ((), GooseVerif.Model.Conc.runExplore 3 ws)) (); return 0
  | ["conct"] => Driver.lineLoop (fun (_ : Unit) ws => ((), GooseVerif.Model.Conc.runExploreT .strict ws)) (); return 0
  | ["conctp"] => Driver.lineLoop (fun (_ : Unit) ws => ((), GooseVerif.Model.Conc.runExploreT .perennial ws)) (); return 0
  | ["coll"] => Driver.lineLoop (fun (_ : Unit) ws => ((), GooseVerif.Model.Coll.run ws)) (); return 0
  | ["collgo"] => Driver.lineLoop (fun (_ : Unit) ws => ((), GooseVerif.Model.Coll.runGoToks ws)) (); return 0
  | ["collt"] => Driver.lineLoop (fun (_ : Unit) ws => ((), GooseVerif.Model.Coll.runTToks ws)) (); return 0
  | ["fun"] => Driver.lineLoop (fun (_ : Unit) ws => ((), GooseVerif.Model.Fun.run ws)) (); return 0
  | ["fungo"] => Driver.lineLoop (fun (_ : Unit) ws => ((), GooseVerif.Model.Fun.runGoToks ws)) (); return 0
  | ["funt"] => Driver.lineLoop (fun (_ : Unit) ws => ((), GooseVerif.Model.Fun.runTToks ws)) (); return 0
  | ["core"] => Driver.lineLoop (fun (_ : Unit) ws => ((), GooseVerif.Model.Core.run ws)) (); return 0
  | ["corego"] => Driver.lineLoop (fun (_ : Unit) ws => ((), GooseVerif.Model.Core.runGoToks ws)) (); return 0
  | ["corewf"] => Driver.lineLoop (fun (_ : Unit) ws => ((), GooseVerif.Model.Core.runWf ws)) (); return 0
  | ["coreeval"] => Driver.lineLoop (fun (_ : Unit) ws => ((), GooseVerif.Model.Core.runTgtToks ws)) (); return 0
  | ["san"] => Driver.lineLoop (fun (_ : Unit) ws => ((), Driver.San.step ws)) (); return 0
  | ["deps"] => Driver.lineLoop (fun (_ : Unit) ws => ((), Driver.Deps.step ws)) (); return 0
  | ["tuple"] => Driver.lineLoop (fun (_ : Unit) ws => ((), Driver.Tuple.step ws)) (); return 0
  | ["conv"] => Driver.lineLoop (fun (_ : Unit) ws => ((), Driver.Conv.step ws)) (); return 0
  | ["global"] => Driver.lineLoop (fun (_ : Unit) ws => ((), Driver.Global.step ws)) (); return 0
  | ["wt"] => Driver.lineLoop Driver.Prim.wtStep (); return 0
  | _ => IO.eprintln "usage: driver <enc|prim|wt>"; return 2
