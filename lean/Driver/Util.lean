/-
Line-protocol helpers shared by all drivers (core Lean only).
-/
namespace Driver

def hexDigit (n : Nat) : Char :=
  if n < 10 then Char.ofNat (48 + n) else Char.ofNat (87 + n)

def hexOfByte (b : UInt8) : String :=
  String.ofList [hexDigit (b.toNat / 16), hexDigit (b.toNat % 16)]

def hexOfBytes (bs : List UInt8) : String :=
  String.join (bs.map hexOfByte)

def hexVal (c : Char) : Option Nat :=
  if '0' ≤ c ∧ c ≤ '9' then some (c.toNat - 48)
  else if 'a' ≤ c ∧ c ≤ 'f' then some (c.toNat - 87)
  else if 'A' ≤ c ∧ c ≤ 'F' then some (c.toNat - 55)
  else none

/-- Parse an even-length hex string; "-" denotes the empty byte string. -/
def bytesOfHex (s : String) : Option (List UInt8) :=
  if s == "-" then some [] else
  let rec go : List Char → List UInt8 → Option (List UInt8)
    | [], acc => some acc.reverse
    | [_], _ => none
    | a :: b :: rest, acc =>
      match hexVal a, hexVal b with
      | some x, some y => go rest (UInt8.ofNat (16 * x + y) :: acc)
      | _, _ => none
  go s.toList []

def hexOrDash (bs : List UInt8) : String :=
  if bs.isEmpty then "-" else hexOfBytes bs

def words (line : String) : List String :=
  (line.splitOn " ").filter (fun w => w ≠ "")

/-- Run `step` over stdin lines, printing one reply per line. -/
partial def lineLoop {σ : Type} (step : σ → List String → σ × String) (init : σ) : IO Unit := do
  let stdin ← IO.getStdin
  let stdout ← IO.getStdout
  let rec loop (s : σ) : IO Unit := do
    let line ← stdin.getLine
    if line.isEmpty then
      stdout.flush
      return ()
    let ws := words (line.trimAscii.toString)
    let (s', out) := step s ws
    stdout.putStrLn out
    loop s'
  loop init

end Driver
