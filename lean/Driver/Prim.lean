/-
Driver for the `prim` protocol (C16): dec / assume / assert / mapclear, and `wt` (WaitTimeout
scenarios run through the protocol model).
-/
import Driver.Util
import GooseVerif.Model.Decimal
import GooseVerif.Model.MapClear
import GooseVerif.Model.WaitTimeout

namespace Driver.Prim
open GooseVerif.Model

def step (_ : Unit) (ws : List String) : Unit × String :=
  let out :=
    match ws with
    | ["dec", n] =>
      match n.toNat? with
      | some v => if v < 2^64 then "str " ++ Decimal.decString v else "bad-op"
      | none => "bad-op"
    | ["assume", c] => if MapClear.assumePanics (c == "1") then "panic" else "ok"
    | ["assert", c] => if MapClear.assertPanics (c == "1") then "panic" else "ok"
    | ["mapclear", _kind, n, seed] =>
      match n.toNat?, seed.toNat? with
      | some n, some sd =>
        let m : MapClear.GoMap Nat Nat := (List.range n).map (fun i => (i * 7 + sd, i))
        let m' := MapClear.mapClear m
        let m'' := MapClear.insert m' 5 6
        let usable := MapClear.lookup m'' 5 == some 6 && m''.length == m'.length + 1
        s!"len {m'.length} " ++ (if usable then "usable" else "unusable")
      | _, _ => "bad-op"
    | _ => "bad-op"
  ((), out)

open WaitTimeout in
def wtStep (_ : Unit) (ws : List String) : Unit × String :=
  let out :=
    match ws with
    | ["wt", t, s, _kind, _ghosts] =>
      match t.toNat?, s.toInt? with
      | some t, some s =>
        -- the order of events the scenario prescribes: signal first iff it comes before the timeout
        let sched : List Action :=
          if s ≥ 0 ∧ s < (t : Int) then
            [.spawn, .helperWait, .envLock 0, .wake, .envUnlock 0, .helperLock, .helperUnlock, .helperClose, .selectDone, .callerLock]
          else
            [.spawn, .helperWait, .timerFire, .selectTimer, .callerLock]
        let st := run init sched
        if st.c == .returned && st.holder == some .caller && !st.fatal then "held prompt" else "notheld"
      | _, _ => "bad-op"
    | _ => "bad-op"
  ((), out)

end Driver.Prim
