/-
Driver for the CLI-level protocols (C08, C17):
  ffi <root> <node>=<imp,imp,…> …          → ffi <name> | refused
  requires <importPath> …                  → req <line>|<line>…      ('|' separated; '-' if none)
  outpath <pkgPath>                        → path <p>
  header <ffi>                             → hdr <hex of header> <hex of footer>
  cmd <ignore 0|1> <patternErr 0|1> (<pkgPath> <err 0|1> <prior a|s|d|u>)*   → exit <n> written <p,…> untouched <p,…>
-/
import Driver.Util
import GooseVerif.Model.Header
import GooseVerif.Model.Cmd

namespace Driver.Cli
open GooseVerif.Model.Header GooseVerif.Model.Cmd

def parseNode (s : String) : String × List String :=
  match s.splitOn "=" with
  | [n, imps] => (n, (imps.splitOn ",").filter (· ≠ ""))
  | _ => (s, [])

def parsePkgs : List String → Option (List Pkg)
  | [] => some []
  | p :: e :: pr :: rest => do
    let prior ← match pr with
      | "a" => some Prior.absent | "s" => some Prior.same | "d" => some Prior.different | "u" => some Prior.unwritable
      | _ => none
    let ps ← parsePkgs rest
    -- e: 0 = translated, 1 = conversion errors (partial output exists), 2 = no translation at all
    some ({ pkgPath := p, hasErr := e != "0", prior := prior, noOutput := e == "2" } :: ps)
  | _ => none

def commaOrDash (l : List String) : String := if l.isEmpty then "-" else ",".intercalate l

def step (_ : Unit) (ws : List String) : Unit × String :=
  let out :=
    match ws with
    | "ffi" :: root :: nodes =>
      match getFfi (nodes.map parseNode) root with
      | .ffi f => "ffi " ++ f
      | .refused => "refused"
    | "requires" :: imps =>
      let r := requires imps
      "req " ++ (if r.isEmpty then "-" else "|".intercalate r)
    | ["outpath", p] => "path " ++ importToPath p
    | ["header", f] =>
      let hf := headerFooter f
      "hdr " ++ hexOrDash hf.1.toUTF8.toList ++ " " ++ hexOrDash hf.2.toUTF8.toList
    | "cmd" :: ign :: pe :: rest =>
      match parsePkgs rest with
      | some pkgs =>
        let o := run (pe == "1") (ign == "1") pkgs
        s!"exit {o.exit} written {commaOrDash o.written} untouched {commaOrDash o.untouched}"
      | none => "bad-op"
    | _ => "bad-op"
  ((), out)

end Driver.Cli
