/-
Driver for the `disk` protocol (C09, C11): `driver disk <mem|file|spec>`.
  new <n> | newimg <n> <len> <fill> | reopen <n>
  buf <len> <fill> | poke <b> <i> <v> | peek <b> | read <a> | readto <a> <b> | write <a> <b> | size | barrier
-/
import Driver.Util
import GooseVerif.Model.Disk
import GooseVerif.Model.ShortWrite
import GooseVerif.Gen.DiskFacts

namespace Driver.Disk
open GooseVerif.Model.Disk

def BS : Nat := GooseVerif.Gen.Disk.blockSize

def hashBytes (bs : Bytes) : Nat :=
  bs.foldl (fun h b => (h * 31 + b.toNat + 1) % 4294967291) 7

def showOut : Out → String
  | .ok => "ok"
  | .newbuf id => s!"b{id}"
  | .bytes bs => s!"bytes {bs.length} {hashBytes bs}"
  | .readBuf id bs => s!"b{id} {bs.length} {hashBytes bs}"
  | .n k => s!"n {k}"
  | .panic => "panic"
  | .badOp => "bad-op"

def parseOp (ws : List String) : Option Op :=
  match ws with
  | ["buf", len, fill] => do some (.newbuf (← len.toNat?) (UInt8.ofNat (← fill.toNat?)))
  | ["poke", b, i, v] => do some (.poke (← b.toNat?) (← i.toNat?) (UInt8.ofNat (← v.toNat?)))
  | ["peek", b] => do some (.peek (← b.toNat?))
  | ["read", a] => do some (.read (← a.toNat?))
  | ["readto", a, b] => do some (.readTo (← a.toNat?) (← b.toNat?))
  | ["write", a, b] => do some (.write (← a.toNat?) (← b.toNat?))
  | ["size"] => some .size
  | ["barrier"] => some .barrier
  | _ => none

/-- Generic driver loop over an implementation with its own notion of `new`/`newimg`/`reopen`. -/
def mkStep {σ : Type} (I : Impl σ) (new : Nat → Option σ) (newimg : Nat → Bytes → Option σ)
    (reopen : σ → Nat → Option σ) (s : Option (σ × Heap)) (ws : List String) : Option (σ × Heap) × String :=
  match ws with
  | ["new", n] =>
    -- a disk whose byte length is not a file offset cannot be opened (`Model.Disk.openable`)
    if (n.toNat?.map (fun k => !(openable BS k))).getD false then (none, "panic") else
    match n.toNat? >>= new with
    | some st => (some (st, []), "ok")
    | none => (none, "unsupported")
  | ["newimg", n, len, fill] =>
    if (n.toNat?.map (fun k => !(openable BS k))).getD false then (none, "panic") else
    match n.toNat?, len.toNat?, fill.toNat? with
    | some n, some len, some fill =>
      match newimg n (List.replicate len (UInt8.ofNat fill)) with
      | some st => (some (st, []), "ok")
      | none => (none, "unsupported")
    | _, _, _ => (s, "bad-op")
  | ["reopen", n] =>
    if (n.toNat?.map (fun k => !(openable BS k))).getD false then (none, "panic") else
    match s, n.toNat? with
    | some (st, h), some n =>
      match reopen st n with
      | some st' => (some (st', h), "ok")
      | none => (s, "unsupported")
    | _, _ => (s, "bad-op")
  | _ =>
    match s, parseOp ws with
    | some st, some op =>
      let r := step BS I st op
      (some r.1, showOut r.2)
    | _, _ => (s, "bad-op")

def memStep := mkStep (memImpl BS)
  (fun n => if n ≤ 4096 then some (memInit BS n) else none) (fun _ _ => none) (fun _ _ => none)

def fileStep := mkStep (fileImpl BS)
  (fun n => if n ≤ 4096 then some (fileOpen BS [] n) else none)
  (fun n img => if n ≤ 4096 then some (fileOpen BS img n) else none)
  (fun d n => if n ≤ 4096 then some (fileOpen BS (fileClose d) n) else none)

/-- The specification in sparse form: any size; reopen keeps the retained registers. -/
def specStep := mkStep (sparseImpl BS)
  (fun n => some { size := n, writes := [] })
  (fun n img =>
    -- registers that the image determines: those overlapping its bytes
    let k := min n ((img.length + BS - 1) / BS)
    let regs := regsOfImage BS img k
    some { size := n, writes := (List.range k).zip regs })
  (fun sp n => some { size := n, writes := sp.writes.filter (fun p => p.1 < n) })

/-- `driver disk sw`: the retry loop of `FileDisk.Write` (Model/ShortWrite) under a given schedule of kernel answers.
  sw <blocklen> <oldfill> <newfill> <answer…>     answer = `e` (error) or a byte count
Replies `ok|panic|running <hash of the block afterwards> <frame>`; frame = `frame-ok` iff the 64 bytes before and after the block
are unchanged.  The block lies at offset 8192 of a file filled with <oldfill>. -/
def swStep (_ : Unit) (ws : List String) : Unit × String :=
  open GooseVerif.Model.ShortWrite in
  match ws with
  | "sw" :: len :: old :: new :: answers =>
    match len.toNat?, old.toNat?, new.toNat?, answers.mapM (fun a => if a = "e" then some Ans.err else a.toNat?.map Ans.wrote) with
    | some len, some old, some new, some as =>
      let off := 8192
      let f : File := fun _ => UInt8.ofNat old
      let v := List.replicate len (UInt8.ofNat new)
      let render (tag : String) (g : File) : String :=
        let blk := (List.range len).map (fun i => g (off + i))
        let frame := (List.range 64).all (fun i => g (off - 64 + i) == f (off - 64 + i) && g (off + len + i) == f (off + len + i))
        s!"{tag} {hashBytes blk} {if frame then "frame-ok" else "frame-broken"}"
      match writeLoop v off f 0 as with
      | some (.ok g) => ((), render "ok" g)
      | some (.panic g) => ((), render "panic" g)
      | none => ((), "running")
    | _, _, _, _ => ((), "bad-op")
  | _ => ((), "bad-op")

/-- `sr <len> <filefill> <buffill> <answer…>`: the retry loop of `FileDisk.ReadTo` under a schedule; replies
`ok|panic|running <hash of the buffer afterwards>`. -/
def srStep (_ : Unit) (ws : List String) : Unit × String :=
  open GooseVerif.Model.ShortWrite in
  match ws with
  | "sr" :: len :: ff :: bf :: answers =>
    match len.toNat?, ff.toNat?, bf.toNat?, answers.mapM (fun a => if a = "e" then some Ans.err else a.toNat?.map Ans.wrote) with
    | some len, some ff, some bf, some as =>
      let render (tag : String) (g : File) : String := s!"{tag} {hashBytes ((List.range len).map g)}"
      match readLoop len 8192 (fun _ => UInt8.ofNat ff) (fun _ => UInt8.ofNat bf) 0 as with
      | some (.ok g) => ((), render "ok" g)
      | some (.panic g) => ((), render "panic" g)
      | none => ((), "running")
    | _, _, _, _ => ((), "bad-op")
  | _ => ((), "bad-op")

def swsrStep (u : Unit) (ws : List String) : Unit × String :=
  match ws with
  | "sr" :: _ => srStep u ws
  | _ => swStep u ws

end Driver.Disk
