-- Root of the `GooseVerif` library: every property module.
import GooseVerif.Props.C15
