-- EXPECTATIONS (committed): what the facts regenerated from /repo must equal for the models in
-- Model/ to describe the code. Produced once with bin/snapshot-expected and reviewed against the models.
namespace GooseVerif.Expected.OpTables

def binExprOps : List (String × String) :=
  [("‹go/token›.AND", "‹github.com/goose-lang/goose/internal/coq›.OpAnd"),
   ("‹go/token›.EQL", "‹github.com/goose-lang/goose/internal/coq›.OpEquals"),
   ("‹go/token›.GEQ", "‹github.com/goose-lang/goose/internal/coq›.OpGreaterEq"),
   ("‹go/token›.GTR", "‹github.com/goose-lang/goose/internal/coq›.OpGreaterThan"),
   ("‹go/token›.LAND", "‹github.com/goose-lang/goose/internal/coq›.OpLAnd"),
   ("‹go/token›.LEQ", "‹github.com/goose-lang/goose/internal/coq›.OpLessEq"),
   ("‹go/token›.LOR", "‹github.com/goose-lang/goose/internal/coq›.OpLOr"),
   ("‹go/token›.LSS", "‹github.com/goose-lang/goose/internal/coq›.OpLessThan"),
   ("‹go/token›.MUL", "‹github.com/goose-lang/goose/internal/coq›.OpMul"),
   ("‹go/token›.NEQ", "‹github.com/goose-lang/goose/internal/coq›.OpNotEquals"),
   ("‹go/token›.OR", "‹github.com/goose-lang/goose/internal/coq›.OpOr"),
   ("‹go/token›.QUO", "‹github.com/goose-lang/goose/internal/coq›.OpQuot"),
   ("‹go/token›.REM", "‹github.com/goose-lang/goose/internal/coq›.OpRem"),
   ("‹go/token›.SHL", "‹github.com/goose-lang/goose/internal/coq›.OpShl"),
   ("‹go/token›.SHR", "‹github.com/goose-lang/goose/internal/coq›.OpShr"),
   ("‹go/token›.SUB", "‹github.com/goose-lang/goose/internal/coq›.OpMinus"),
   ("‹go/token›.XOR", "‹github.com/goose-lang/goose/internal/coq›.OpXor")]

def assignOps : List (String × String) :=
  [("‹go/token›.ADD_ASSIGN", "‹github.com/goose-lang/goose/internal/coq›.OpPlus"),
   ("‹go/token›.AND_ASSIGN", "‹github.com/goose-lang/goose/internal/coq›.OpAnd"),
   ("‹go/token›.OR_ASSIGN", "‹github.com/goose-lang/goose/internal/coq›.OpOr"),
   ("‹go/token›.SUB_ASSIGN", "‹github.com/goose-lang/goose/internal/coq›.OpMinus"),
   ("‹go/token›.XOR_ASSIGN", "‹github.com/goose-lang/goose/internal/coq›.OpXor")]

def coqBinOps : List (String × String) :=
  [("OpAnd", "\"`and`\""),
   ("OpAppend", "\"+\""),
   ("OpEquals", "\"=\""),
   ("OpGreaterEq", "\"≥\""),
   ("OpGreaterThan", "\">\""),
   ("OpLAnd", "\"&&\""),
   ("OpLOr", "\"||\""),
   ("OpLessEq", "\"≤\""),
   ("OpLessThan", "\"<\""),
   ("OpMinus", "\"-\""),
   ("OpMul", "\"*\""),
   ("OpNotEquals", "\"≠\""),
   ("OpOr", "\"`or`\""),
   ("OpPlus", "\"+\""),
   ("OpQuot", "\"`quot`\""),
   ("OpRem", "\"`rem`\""),
   ("OpShl", "\"≪\""),
   ("OpShr", "\"≫\""),
   ("OpXor", "\"`xor`\"")]

end GooseVerif.Expected.OpTables
