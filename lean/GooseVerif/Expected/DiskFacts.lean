-- EXPECTATIONS (committed): what the facts regenerated from /repo must equal for the models in
-- Model/ to describe the code. Produced once with bin/snapshot-expected and reviewed against the models.
namespace GooseVerif.Expected.Disk

/-- every top-level declaration of github.com/goose-lang/goose/machine/async_disk, canonical text -/
def asyncDecls : List (String × String) :=
  [("const BlockSize", "uint64 = 4096"),
   ("func NewFileDisk", "func (path string, numBlocks uint64) (FileDisk, error) { return ‹github.com/goose-lang/goose/machine/disk›.NewFileDisk(path, numBlocks) }"),
   ("func NewMemDisk", "func (numBlocks uint64) MemDisk { return MemDisk(‹github.com/goose-lang/goose/machine/disk›.NewMemDisk(numBlocks)) }"),
   ("type Block", "Block = ‹github.com/goose-lang/goose/machine/disk›.Block"),
   ("type Disk", "Disk = ‹github.com/goose-lang/goose/machine/disk›.Disk"),
   ("type FileDisk", "FileDisk = ‹github.com/goose-lang/goose/machine/disk›.FileDisk"),
   ("type MemDisk", "MemDisk = ‹github.com/goose-lang/goose/machine/disk›.MemDisk"),
   ("var _", "var _ Disk = FileDisk{}"),
   ("var _", "var _ Disk = MemDisk{}")]

/-- calls into other packages per function of github.com/goose-lang/goose/machine/async_disk, constant arguments evaluated -/
def asyncCalls : List (String × String) :=
  [("NewFileDisk", "github.com/goose-lang/goose/machine/disk.NewFileDisk(_,_)"),
   ("NewMemDisk", "github.com/goose-lang/goose/machine/disk.NewMemDisk(_)")]

/-- every top-level declaration of github.com/goose-lang/goose/machine/disk, canonical text -/
def diskDecls : List (String × String) :=
  [("const BlockSize", "uint64 = 4096"),
   ("func Barrier", "func () { implicitDisk.Barrier() }"),
   ("func FileDisk.Barrier", "func (d FileDisk) () { err := ‹golang.org/x/sys/unix›.Fsync(d.fd) if err != nil { panic(\"file sync failed: \" + err.Error()) } }"),
   ("func FileDisk.Close", "func (d FileDisk) () { err := ‹golang.org/x/sys/unix›.Close(d.fd) if err != nil { panic(err) } }"),
   ("func FileDisk.Read", "func (d FileDisk) (a uint64) Block { buf := make([]byte, BlockSize) d.ReadTo(a, buf) return buf }"),
   ("func FileDisk.ReadTo", "func (d FileDisk) (a uint64, buf Block) { if uint64(len(buf)) != BlockSize { panic(\"buffer is not block-sized\") } if a >= d.numBlocks { panic(‹fmt›.Errorf(\"out-of-bounds read at %v\", a)) } off := int64(a * BlockSize) for n := 0; n < len(buf); { k, err := ‹golang.org/x/sys/unix›.Pread(d.fd, buf[n:], off+int64(n)) if err != nil { panic(\"read failed: \" + err.Error()) } if k == 0 { panic(‹fmt›.Errorf(\"read failed: short read of block %v (%d bytes)\", a, n)) } n += k } }"),
   ("func FileDisk.Size", "func (d FileDisk) () uint64 { return d.numBlocks }"),
   ("func FileDisk.Write", "func (d FileDisk) (a uint64, v Block) { if uint64(len(v)) != BlockSize { panic(‹fmt›.Errorf(\"v is not block sized (%d bytes)\", len(v))) } if a >= d.numBlocks { panic(‹fmt›.Errorf(\"out-of-bounds write at %v\", a)) } off := int64(a * BlockSize) for n := 0; n < len(v); { k, err := ‹golang.org/x/sys/unix›.Pwrite(d.fd, v[n:], off+int64(n)) if err != nil { panic(\"write failed: \" + err.Error()) } if k == 0 { panic(‹fmt›.Errorf(\"write failed: short write of block %v (%d bytes)\", a, n)) } n += k } }"),
   ("func Get", "func () Disk { return implicitDisk }"),
   ("func Init", "func (d Disk) { implicitDisk = d }"),
   ("func MemDisk.Barrier", "func (d MemDisk) () { }"),
   ("func MemDisk.Close", "func (d MemDisk) () { }"),
   ("func MemDisk.Read", "func (d MemDisk) (a uint64) Block { buf := make(Block, BlockSize) d.ReadTo(a, buf) return buf }"),
   ("func MemDisk.ReadTo", "func (d MemDisk) (a uint64, buf Block) { d.l.RLock() defer d.l.RUnlock() if a >= uint64(len(d.blocks)) { panic(‹fmt›.Errorf(\"out-of-bounds read at %v\", a)) } copy(buf, d.blocks[a][:]) }"),
   ("func MemDisk.Size", "func (d MemDisk) () uint64 { return uint64(len(d.blocks)) }"),
   ("func MemDisk.Write", "func (d MemDisk) (a uint64, v Block) { if uint64(len(v)) != BlockSize { panic(‹fmt›.Errorf(\"v is not block-sized (%d bytes)\", len(v))) } d.l.Lock() defer d.l.Unlock() if a >= uint64(len(d.blocks)) { panic(‹fmt›.Errorf(\"out-of-bounds write at %v\", a)) } copy(d.blocks[a][:], v) }"),
   ("func NewFileDisk", "func (path string, numBlocks uint64) (FileDisk, error) { if numBlocks > ‹math›.MaxInt64/BlockSize { return FileDisk{}, ‹fmt›.Errorf(\"disk of %d blocks is too large\", numBlocks) } fd, err := ‹golang.org/x/sys/unix›.Open(path, ‹golang.org/x/sys/unix›.O_RDWR|‹golang.org/x/sys/unix›.O_CREAT, 0666) if err != nil { return FileDisk{}, err } var stat ‹golang.org/x/sys/unix›.Stat_t err = ‹golang.org/x/sys/unix›.Fstat(fd, &stat) if err != nil { return FileDisk{}, err } if (stat.Mode&‹golang.org/x/sys/unix›.S_IFREG) != 0 && uint64(stat.Size) != numBlocks*BlockSize { err = ‹golang.org/x/sys/unix›.Ftruncate(fd, int64(numBlocks*BlockSize)) if err != nil { return FileDisk{}, err } } return FileDisk{fd, numBlocks}, nil }"),
   ("func NewMemDisk", "func (numBlocks uint64) MemDisk { blocks := make([][BlockSize]byte, numBlocks) return MemDisk{l: new(‹sync›.RWMutex), blocks: blocks} }"),
   ("func Read", "func (a uint64) Block { return implicitDisk.Read(a) }"),
   ("func Size", "func () uint64 { return implicitDisk.Size() }"),
   ("func Write", "func (a uint64, v Block) { implicitDisk.Write(a, v) }"),
   ("type Block", "Block = []byte"),
   ("type Disk", "Disk interface { Read(a uint64) Block ReadTo(a uint64, b Block) Write(a uint64, v Block) Size() uint64 Barrier() Close() }"),
   ("type FileDisk", "FileDisk struct { fd int numBlocks uint64 }"),
   ("type MemDisk", "MemDisk struct { l *‹sync›.RWMutex blocks [][BlockSize]byte }"),
   ("var _", "var _ Disk = FileDisk{}"),
   ("var _", "var _ Disk = MemDisk{}"),
   ("var implicitDisk", "var implicitDisk Disk")]

/-- calls into other packages per function of github.com/goose-lang/goose/machine/disk, constant arguments evaluated -/
def diskCalls : List (String × String) :=
  [("Barrier", ""),
   ("FileDisk.Barrier", "golang.org/x/sys/unix.Fsync(_)"),
   ("FileDisk.Close", "golang.org/x/sys/unix.Close(_)"),
   ("FileDisk.Read", ""),
   ("FileDisk.ReadTo", "fmt.Errorf(_,_) ; golang.org/x/sys/unix.Pread(_,_,_) ; fmt.Errorf(_,_,_)"),
   ("FileDisk.Size", ""),
   ("FileDisk.Write", "fmt.Errorf(_,_) ; fmt.Errorf(_,_) ; golang.org/x/sys/unix.Pwrite(_,_,_) ; fmt.Errorf(_,_,_)"),
   ("Get", ""),
   ("Init", ""),
   ("MemDisk.Barrier", ""),
   ("MemDisk.Close", ""),
   ("MemDisk.Read", ""),
   ("MemDisk.ReadTo", "fmt.Errorf(_,_)"),
   ("MemDisk.Size", ""),
   ("MemDisk.Write", "fmt.Errorf(_,_) ; fmt.Errorf(_,_)"),
   ("NewFileDisk", "fmt.Errorf(_,_) ; golang.org/x/sys/unix.Open(_,66,438) ; golang.org/x/sys/unix.Fstat(_,_) ; golang.org/x/sys/unix.Ftruncate(_,_)"),
   ("NewMemDisk", ""),
   ("Read", ""),
   ("Size", ""),
   ("Write", "")]

/-- disk.BlockSize, evaluated -/
def blockSize : Nat := 4096

/-- the global wrappers of package disk -/
def diskWrappers : List (String × String) :=
  [("func Barrier", "func () { implicitDisk.Barrier() }"),
   ("func Get", "func () Disk { return implicitDisk }"),
   ("func Init", "func (d Disk) { implicitDisk = d }"),
   ("func Read", "func (a uint64) Block { return implicitDisk.Read(a) }"),
   ("func Size", "func () uint64 { return implicitDisk.Size() }"),
   ("func Write", "func (a uint64, v Block) { implicitDisk.Write(a, v) }")]

/-- async_disk.BlockSize, evaluated -/
def asyncBlockSize : Nat := 4096

/-- how every MemDisk method uses the lock `l` protecting `blocks` -/
def memDiskLocks : List (String × String) :=
  [("MemDisk.Barrier", "none"),
   ("MemDisk.Close", "none"),
   ("MemDisk.Read", "none"),
   ("MemDisk.ReadTo", "R"),
   ("MemDisk.Size", "none:uses blocks"),
   ("MemDisk.Write", "W-late:1")]

/-- functions that assign the field `blocks` of MemDisk (constructor only: Size may read it lock-free) -/
def blocksAssignSites : List String := ["NewMemDisk"]

/-- async_disk's exported type names, resolved -/
def asyncTypes : List (String × String) :=
  [("Block", "alias=true []byte"),
   ("Disk", "alias=true github.com/goose-lang/goose/machine/disk.Disk"),
   ("MemDisk", "alias=true github.com/goose-lang/goose/machine/disk.MemDisk"),
   ("FileDisk", "alias=true github.com/goose-lang/goose/machine/disk.FileDisk")]

end GooseVerif.Expected.Disk
