-- EXPECTATIONS (committed): what the facts regenerated from /repo must equal for the models in
-- Model/ to describe the code. Produced once with bin/snapshot-expected and reviewed against the models.
namespace GooseVerif.Expected.MapRange

/-- every `range` over a map in the translator packages -/
def mapRanges : List (String × String) :=
  [("goose.getFfi", "seenFfis : map[string]struct{}")]

/-- every `go` statement -/
def spawns : List (String × String) :=
  [("goose.TranslationConfig.TranslatePackages", "func(i int, pkg *‹golang.org/x/tools/go/packages›.Package) { f, err := tr.translatePackage(pkg) files[i] = f errs[i] = err wg.Done() }")]

/-- every write to a package-level variable from inside a function -/
def globalWrites : List (String × String) :=
  []

end GooseVerif.Expected.MapRange
