/-
C15 — Integer encoding is little-endian, framed and invertible.

Property theorems only; helper lemmas are in `Lemmas/Codec.lean`.
All statements are about `Model.Prims.uint{64,32}{Put,Get}`, i.e. the interpreter of
the tables regenerated from `encoding/binary` on every run, under the delegations of
`machine/prims.go` that `delegations_ok` pins.
-/
import GooseVerif.Lemmas.Codec

namespace GooseVerif.Props.C15
open GooseVerif.Model.Codec GooseVerif.Model.Prims GooseVerif.Gen

/-- T-gen obligation: the four codecs of machine/prims.go are exactly these delegations. -/
theorem delegations_ok :
    Prim.codecBodies =
    [("UInt64Get", "func (p []byte) uint64 { return ‹encoding/binary›.LittleEndian.Uint64(p) }"),
     ("UInt32Get", "func (p []byte) uint32 { return ‹encoding/binary›.LittleEndian.Uint32(p) }"),
     ("UInt64Put", "func (p []byte, n uint64) { ‹encoding/binary›.LittleEndian.PutUint64(p, n) }"),
     ("UInt32Put", "func (p []byte, n uint32) { ‹encoding/binary›.LittleEndian.PutUint32(p, n) }")] := rfl

/-- T-gen obligation: the extractor recognised the shape of all four library functions. -/
theorem tables_recognised :
    Prim.leUint64Recognised = true ∧ Prim.leUint32Recognised = true ∧
    Prim.lePutUint64Recognised = true ∧ Prim.lePutUint32Recognised = true := by decide

/-! ### 64 bit -/

/-- Put writes exactly the little-endian bytes into the first 8 positions, keeps the length,
and leaves every other byte untouched. -/
theorem put64_layout (b : List Byte) (v : BitVec 64) (h : 8 ≤ b.length) :
    ∃ b', uint64Put b v = .ok b' ∧ b'.length = b.length ∧
      (∀ i, i < 8 → b'[i]? = some (specByte v i)) ∧
      (∀ i, 8 ≤ i → b'[i]? = b[i]?) :=
  put64_layout' b v h

/-- Get reads only the first 8 bytes. -/
theorem get64_prefix_only (b c : List Byte) (hb : 8 ≤ b.length) (hc : 8 ≤ c.length)
    (h : b.take 8 = c.take 8) : uint64Get b = uint64Get c :=
  get64_prefix_only' b c hb hc h

/-- Get inverts Put, for every value and every buffer of at least 8 bytes. -/
theorem get64_put64 (b : List Byte) (v : BitVec 64) (h : 8 ≤ b.length) :
    ∃ b', uint64Put b v = .ok b' ∧ uint64Get b' = .ok v :=
  get64_put64' b v h

/-- Put of what Get returned changes nothing (the encoding is a bijection on the first 8 bytes). -/
theorem put64_get64 (b : List Byte) (h : 8 ≤ b.length) :
    ∃ v, uint64Get b = .ok v ∧ uint64Put b v = .ok b :=
  put64_get64' b h

/-- Too-short buffers are refused; `Res.panic` carries no buffer: nothing was written
(`putLE` checks the bound before the first write, as `_ = b[7]` does). -/
theorem short64_refused (b : List Byte) (v : BitVec 64) (h : b.length < 8) :
    uint64Put b v = .panic ∧ uint64Get b = .panic :=
  short64_refused' b v h

/-- The model agrees with the table-free executable specification used to judge the real code. -/
theorem put64_eq_spec (b : List Byte) (v : BitVec 64) : uint64Put b v = specPut 8 b v :=
  put64_eq_spec' b v
theorem get64_eq_spec (b : List Byte) : uint64Get b = specGet 64 8 b :=
  get64_eq_spec' b

/-! ### 32 bit -/

theorem put32_layout (b : List Byte) (v : BitVec 32) (h : 4 ≤ b.length) :
    ∃ b', uint32Put b v = .ok b' ∧ b'.length = b.length ∧
      (∀ i, i < 4 → b'[i]? = some (specByte v i)) ∧
      (∀ i, 4 ≤ i → b'[i]? = b[i]?) :=
  put32_layout' b v h

theorem get32_prefix_only (b c : List Byte) (hb : 4 ≤ b.length) (hc : 4 ≤ c.length)
    (h : b.take 4 = c.take 4) : uint32Get b = uint32Get c :=
  get32_prefix_only' b c hb hc h

theorem get32_put32 (b : List Byte) (v : BitVec 32) (h : 4 ≤ b.length) :
    ∃ b', uint32Put b v = .ok b' ∧ uint32Get b' = .ok v :=
  get32_put32' b v h

theorem put32_get32 (b : List Byte) (h : 4 ≤ b.length) :
    ∃ v, uint32Get b = .ok v ∧ uint32Put b v = .ok b :=
  put32_get32' b h

theorem short32_refused (b : List Byte) (v : BitVec 32) (h : b.length < 4) :
    uint32Put b v = .panic ∧ uint32Get b = .panic :=
  short32_refused' b v h

theorem put32_eq_spec (b : List Byte) (v : BitVec 32) : uint32Put b v = specPut 4 b v :=
  put32_eq_spec' b v
theorem get32_eq_spec (b : List Byte) : uint32Get b = specGet 32 4 b :=
  get32_eq_spec' b

/-! ### the layout read as arithmetic, and across widths

Round-trips are insensitive to the byte order; these statements are not: they fix WHICH byte carries which
power of 256, in the form the GooseLang model (`u64_le`) and any reader in another language use. -/

/-- The value read from 8 bytes is Σ byteᵢ · 256ⁱ. -/
theorem get64_is_base256 (b0 b1 b2 b3 b4 b5 b6 b7 : Byte) (rest : List Byte) :
    ∃ v, uint64Get (b0 :: b1 :: b2 :: b3 :: b4 :: b5 :: b6 :: b7 :: rest) = .ok v ∧
      v.toNat = b0.toNat + 256 * (b1.toNat + 256 * (b2.toNat + 256 * (b3.toNat + 256 * (b4.toNat +
        256 * (b5.toNat + 256 * (b6.toNat + 256 * b7.toNat)))))) :=
  get64_toNat b0 b1 b2 b3 b4 b5 b6 b7 rest

theorem get32_is_base256 (b0 b1 b2 b3 : Byte) (rest : List Byte) :
    ∃ v, uint32Get (b0 :: b1 :: b2 :: b3 :: rest) = .ok v ∧
      v.toNat = b0.toNat + 256 * (b1.toNat + 256 * (b2.toNat + 256 * b3.toNat)) :=
  get32_toNat b0 b1 b2 b3 rest

/-- Byte i written by Put (both widths: `put64_layout`, `put32_layout` name it `specByte v i`) is digit i of the
value in base 256. -/
theorem put_byte_is_digit {w : Nat} (v : BitVec w) (i : Nat) :
    (specByte v i).toNat = v.toNat / 256 ^ i % 256 :=
  specByte_toNat v i

/-- Low half first: what UInt64Put wrote, UInt32Get reads back as the value modulo 2^32. -/
theorem get32_of_put64 (b : List Byte) (v : BitVec 64) (h : 8 ≤ b.length) :
    ∃ b', uint64Put b v = .ok b' ∧ uint32Get b' = .ok (v.setWidth 32) :=
  get32_of_put64' b v h

/-- A small value still overwrites the whole frame: bytes 4…7 become zero whatever they held. -/
theorem put64_small_clears_high (b : List Byte) (v : BitVec 64) (h : 8 ≤ b.length) (hv : v.toNat < 2 ^ 32) :
    ∃ b', uint64Put b v = .ok b' ∧ ∀ i, 4 ≤ i → i < 8 → b'[i]? = some 0 :=
  put64_small' b v h hv

/-! ### non-vacuity: concrete buffers meeting the hypotheses, with the expected bytes -/

example : uint64Put [0xAA, 0xBB, 0xCC, 0xDD, 0xEE, 0xFF, 0x11, 0x22, 0x33] 0x0102030405060708#64
    = .ok [0x08, 0x07, 0x06, 0x05, 0x04, 0x03, 0x02, 0x01, 0x33] := by decide
example : uint64Get [0x08, 0x07, 0x06, 0x05, 0x04, 0x03, 0x02, 0x01, 0x33] = .ok 0x0102030405060708#64 := by decide
example : uint32Put [0xAA, 0xBB, 0xCC, 0xDD, 0xEE] 0xDEADBEEF#32 = .ok [0xEF, 0xBE, 0xAD, 0xDE, 0xEE] := by decide
example : uint64Put [1, 2, 3, 4, 5, 6, 7] 1#64 = .panic := by decide
example : uint64Put [0xFF, 0xFF, 0xFF, 0xFF, 0xFF, 0xFF, 0xFF, 0xFF, 0x33] 7#64 = .ok [7, 0, 0, 0, 0, 0, 0, 0, 0x33] := by decide
example : uint32Get [0x08, 0x07, 0x06, 0x05, 0x04, 0x03, 0x02, 0x01] = .ok 0x05060708#32 := by decide

end GooseVerif.Props.C15
